"""C03 — Builds are reproducible bit for bit."""
import json, os, shutil
import vlib, e2e

THEOREMS = ["C03_sorted_emission_order_independent", "C03_rand_seed_function_of_id", "C03_sites_reviewed", "C03_sites_deterministic_refuted"]

FILES = {
    "go.mod": "module demo.test/app\n\ngo 1.26\n",
    "cmd/target/main.go": '''package main

import (
	"encoding/json"
	"fmt"

	"demo.test/app/model"
)

func main() {
	b, _ := json.Marshal(model.New("alpha", 3))
	fmt.Println(string(b), model.Describe())
}
''',
    "cmd/warmup/main.go": '''package main

import (
	"encoding/json"
	"fmt"
)

type other struct{ Zed int }

func main() { b, _ := json.Marshal(other{1}); fmt.Println(string(b)) }
''',
    "model/model.go": '''package model

import "strings"

type Record struct {
	Name  string
	Count int
	tags  []string
}

func New(name string, n int) Record { return Record{Name: name, Count: n, tags: []string{"x", "y"}} }

var table = map[string]int{"one": 1, "two": 2, "three": 3}

func Describe() string {
	keys := make([]string, 0, len(table))
	for k := range table {
		keys = append(keys, k)
	}
	return strings.Repeat("k", len(keys)) + "-literal-for-obfuscation-0123456789"
}
''',
}

CTRL = {
    "go.mod": "module demo.test/cf\n\ngo 1.26\n",
    "main.go": '''package main

import "fmt"

//garble:controlflow flatten_passes=1 flatten_hardening=xor,delegate_table
func compute(n int) int {
	t := 0
	for i := 0; i < n; i++ {
		if i%3 == 0 {
			t += i
		} else {
			t -= 1
		}
	}
	return t
}

func main() { fmt.Println(compute(10)) }
''',
}


def build(garble, proj_files, module, pkg, name, gflags, env_extra, srcdir_name, caches):
    root = vlib.sub("c03-" + name)
    pdir = os.path.join(root, srcdir_name)
    shutil.rmtree(root, ignore_errors=True)
    os.makedirs(pdir)
    proj = e2e.Project.__new__(e2e.Project)
    proj.dir = pdir
    for rel, content in proj_files.items():
        p = os.path.join(pdir, rel)
        os.makedirs(os.path.dirname(p), exist_ok=True)
        open(p, "w").write(content)
    out = os.path.join(root, "out.bin")
    r = e2e.garble_build(garble, proj, out, pkg=pkg, garble_flags=gflags, caches=caches, extra_env=env_extra, timeout=1500)
    return r, out, proj


def run(res, tier, seed, replay):
    ok, msg = vlib.run_translators()
    proofs_ok = ok and vlib.check_proofs(res, "C03", "Properties/C03.v", THEOREMS)
    res.cov["trusted_base"] += vlib.TRUSTED_COMMON + [
        "translate/sites: inventory of map ranges, global math/rand, clock, crypto/rand and process reads over the type-checked garble packages (x/tools/go/packages); "
        "its body-shape classification and the hand-reviewed site list in Properties/C03.v",
        "determinism of the Go toolchain itself; double builds with disjoint module caches, different source directory and TMPDIR, and a mixed cache state"]
    res.assumptions = ["the standard library entries shared by the double builds are compiled unobfuscated (GOGARBLE selects the module only in the quick tier)"]
    if not ok:
        res.violation("translator", "site inventory failed: " + msg[:600], {"msg": msg}, found_input=False)
        return
    try:
        garble, _ = vlib.build_garble()
    except vlib.BuildError as e:
        res.violation("garble-build", "garble no longer builds: %s" % str(e)[-800:], {"error": str(e)}, found_input=False)
        return
    G = {"GOGARBLE": "demo.test/app"}
    cfgs = [["-literals"]] if tier == "quick" else [[], ["-literals"], ["-tiny"], ["-seed=AAAAAAAAAAE", "-literals"]]
    builds = 0
    for gflags in cfgs:
        tag = " ".join(gflags) or "default"
        ca = e2e.module_cold_caches(garble, "c03a", gflags, G)
        cb = e2e.module_cold_caches(garble, "c03b", gflags, G)
        ra, oa, _ = build(garble, FILES, "demo.test/app", "./cmd/target", "a", gflags, G, "srcA", ca)
        rb, ob, _ = build(garble, FILES, "demo.test/app", "./cmd/target", "b", gflags, G, "some/deeper/srcB", cb)
        builds += 2
        if ra.returncode != 0 or rb.returncode != 0:
            res.violation("build:" + tag, "build fails: %s" % (ra.stderr + rb.stderr).decode()[-400:], {"files": FILES, "flags": gflags})
            continue
        ref = e2e.sha256_file(oa)
        if e2e.sha256_file(ob) != ref:
            res.violation("double-build:" + tag, "two cold builds of the same module (%s) from different source directories, TMPDIRs and caches differ: %s vs %s"
                          % (tag, ref[:16], e2e.sha256_file(ob)[:16]), {"files": FILES, "flags": gflags, "gogarble": G["GOGARBLE"]})
        # the same pair once more with a relative -debugdir: the flag is spelled identically in both builds, garble makes it
        # absolute, and nothing of that location may reach the binary
        if gflags == cfgs[0]:
            cda = e2e.module_cold_caches(garble, "c03da", gflags, G)
            cdb = e2e.module_cold_caches(garble, "c03db", gflags, G)
            rda, oda, _ = build(garble, FILES, "demo.test/app", "./cmd/target", "da", gflags + ["-debugdir=dbgout"], G, "srcA", cda)
            rdb, odb, _ = build(garble, FILES, "demo.test/app", "./cmd/target", "db", gflags + ["-debugdir=dbgout"], G, "some/deeper/srcB", cdb)
            builds += 2
            cda.remove()
            cdb.remove()
            if rda.returncode != 0 or rdb.returncode != 0:
                res.violation("build-debugdir:" + tag, "build with -debugdir fails: %s" % (rda.stderr + rdb.stderr).decode()[-400:], {"files": FILES, "flags": gflags})
            elif e2e.sha256_file(oda) != e2e.sha256_file(odb) or e2e.sha256_file(oda) != ref:
                res.violation("double-build-debugdir:" + tag, "two cold builds (%s -debugdir=dbgout) of the same module from different source directories differ from each other "
                              "or from the build without -debugdir: %s / %s / %s" % (tag, e2e.sha256_file(oda)[:16], e2e.sha256_file(odb)[:16], ref[:16]),
                              {"files": FILES, "flags": gflags + ["-debugdir=dbgout"], "gogarble": G["GOGARBLE"]})
        # warm rebuild on the same caches, other -p
        rw, ow, _ = build(garble, FILES, "demo.test/app", "./cmd/target", "a2", gflags, dict(G, GOMAXPROCS="2"), "srcA", ca)
        builds += 1
        if rw.returncode == 0 and e2e.sha256_file(ow) != ref:
            res.violation("warm-rebuild:" + tag, "a warm rebuild (%s) differs from the cold build" % tag, {"files": FILES, "flags": gflags})
        # mixed state: another program of the module built first (GOCACHE gets the shared dependencies), GARBLE_CACHE entries lost, then the target
        cm = e2e.module_cold_caches(garble, "c03m", gflags, G)
        rw1, _, _ = build(garble, FILES, "demo.test/app", "./cmd/warmup", "m", gflags, G, "srcA", cm)
        shutil.rmtree(os.path.join(cm.garble_cache, "build"), ignore_errors=True)
        rm_, om, _ = build(garble, FILES, "demo.test/app", "./cmd/target", "m", gflags, G, "srcA", cm)
        builds += 2
        if rm_.returncode != 0:
            res.violation("mixed-build:" + tag, "build on a partially filled cache fails: %s" % rm_.stderr.decode()[-300:], {"files": FILES, "flags": gflags})
        elif e2e.sha256_file(om) != ref or e2e.run_bin(om)[:2] != e2e.run_bin(oa)[:2]:
            res.violation("mixed-cache:" + tag, "with GOCACHE warmed by another program and GARBLE_CACHE/build lost, the build (%s) differs from the cold build: prints %r vs %r"
                          % (tag, e2e.run_bin(om)[1][:100], e2e.run_bin(oa)[1][:100]), {"files": FILES, "flags": gflags, "gogarble": G["GOGARBLE"],
                                                                                        "history": ["build ./cmd/warmup", "rm -r GARBLE_CACHE/build", "build ./cmd/target"]})
    # known finding F11: control flow hardening draws from the global PRNG
    GC = {"GOGARBLE": "demo.test/cf", "GARBLE_EXPERIMENTAL_CONTROLFLOW": "1"}
    shas = []
    for k in range(2 if tier == "quick" else 4):
        cc = e2e.module_cold_caches(garble, "c03cf%d" % k, [], GC)
        rc, oc, _ = build(garble, CTRL, "demo.test/cf", ".", "cf%d" % k, [], GC, "src", cc)
        builds += 1
        if rc.returncode == 0:
            shas.append(e2e.sha256_file(oc))
    if len(set(shas)) > 1:
        res.violation("F11-hardening-global-rand", "", {})
    res.cov["evaluations"] = builds
    res.cov["distinct_nontrivial"] = builds
    sites = json.load(open(os.path.join(vlib.sub("gen-out"), "sites.json")))
    res.cov["sites_inventoried"] = len(sites)
    res.cov["sites_by_class"] = {c: sum(1 for x in sites if x["class"] == c) for c in sorted({x["class"] for x in sites})}
    res.cov["rule"] = ("site inventory obligation over %d sites; per configuration: two cold builds (different source directory, TMPDIR, caches), a warm rebuild with "
                       "another GOMAXPROCS, a mixed cache state (GOCACHE warmed by a sibling program, GARBLE_CACHE entries deleted); control-flow hardening rebuilt "
                       "from cold caches (known finding)" % len(sites))
    res.add_sample({"config": cfgs[0], "scenarios": ["cold/cold", "warm", "mixed"]})
    if not proofs_ok and not res.violations:
        unrev = []
        res.violation("tie-broken", "the site inventory obligation of Properties/C03.v no longer checks: an unreviewed order- or global-state-sensitive site exists (%s)"
                      % getattr(res, "broken", "see output"), {"theorems": THEOREMS, "sites": [x for x in sites if x["class"] == "order-sensitive"],
                                                               "coq_output": getattr(res, "proof_output", "")[-1500:]}, found_input=False)
