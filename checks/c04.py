"""C04 — garble reverse restores obfuscated traces exactly."""
import os, re, subprocess
import vlib, e2e

THEOREMS = ["C04_passthrough", "C04_replace_front", "C04_position_pair_priority", "C04_ident_alignment",
            "C04_alignment_refuted_without_skip", "C04_reverse_roundtrip_single_line", "C04_reverse_multiline_refuted"]

FILES = {
    "main.go": '''package main

import (
	"fmt"
	"os"
	"runtime"

	"example.com/rev/lib"
)

func where() string {
	pc, file, line, _ := runtime.Caller(1)
	return fmt.Sprintf("%s:%d %s", file, line, runtime.FuncForPC(pc).Name())
}

type mainType struct{ n int }

func (m *mainType) method() string { return where() }

func plainFunc() string { return where() }

func viaClosure() string {
	f := func() string { return where() }
	return f()
}

func viaGoroutine() string {
	ch := make(chan string)
	go func() { ch <- where() }()
	return <-ch
}

func viaDefer() (s string) {
	defer func() { s = where() }()
	return ""
}

func main() {
	fmt.Println(plainFunc())
	fmt.Println((&mainType{1}).method())
	fmt.Println(viaClosure())
	fmt.Println(viaGoroutine())
	fmt.Println(viaDefer())
	fmt.Println(lib.Here())
	fmt.Println(lib.NewBox(3).Where())
	fmt.Println(lib.GenericWhere[int](4))
	fmt.Println(second())
	fmt.Println(dotCaller())
	fmt.Println(lib.Plain(), lib.ViaMethod())
	if len(os.Args) > 1 && os.Args[1] == "multiline" {
		fmt.Println(lib.
			Caller2())
	}
	if len(os.Args) > 1 && os.Args[1] == "panic" {
		lib.Explode(nil)
	}
}
''',
    "second.go": '''package main

func second() string { return where() + " | " + nested() }

func nested() string { return where() }
''',
    "dotfile.go": '''package main

import . "example.com/rev/dot"

func dotCaller() string { return DotWhere() + " | " + where() + " | " + viaDot() + " | " + Plain() + " | " + ViaMethod() }

func viaDot() string { return where() }
''',
    "dot/dot.go": '''package dot

import (
	"fmt"
	"runtime"
)

func DotWhere() string {
	pc, file, line, _ := runtime.Caller(0)
	return fmt.Sprintf("%s:%d %s", file, line, runtime.FuncForPC(pc).Name())
}

// the same names as in package main and in the other library package: names are hashed per package
type mainType struct{ n int }

func (m *mainType) method() string { return plainFunc() + "/" + nested() }

func plainFunc() string {
	pc, file, line, _ := runtime.Caller(0)
	return fmt.Sprintf("%s:%d %s", file, line, runtime.FuncForPC(pc).Name())
}

func nested() string {
	pc, file, line, _ := runtime.Caller(1)
	return fmt.Sprintf("%s:%d %s", file, line, runtime.FuncForPC(pc).Name())
}

func Plain() string { return plainFunc() }

func ViaMethod() string { return (&mainType{1}).method() }
''',
    "lib/lib.go": '''package lib

import (
	"fmt"
	"runtime"
)

func here(skip int) string {
	pc, file, line, _ := runtime.Caller(skip)
	return fmt.Sprintf("%s:%d %s", file, line, runtime.FuncForPC(pc).Name())
}

func Here() string { return here(1) }

// Caller2 reports the position of its own call site.
func Caller2() string { return here(2) }

type Box[T any] struct{ v T }

func NewBox[T any](v T) *Box[T] { return &Box[T]{v} }

func (b *Box[T]) Where() string { return here(1) }

func GenericWhere[T any](t T) string { return here(1) }

type exploder struct{ m map[string]int }

func Explode(e *exploder) { panic(fmt.Sprint("boom-", e == nil)) }

// the same names as in package main and in the other library package: names are hashed per package
type mainType struct{ n int }

func (m *mainType) method() string { return plainFunc() + "/" + nested() }

func plainFunc() string {
	pc, file, line, _ := runtime.Caller(0)
	return fmt.Sprintf("%s:%d %s", file, line, runtime.FuncForPC(pc).Name())
}

func nested() string {
	pc, file, line, _ := runtime.Caller(1)
	return fmt.Sprintf("%s:%d %s", file, line, runtime.FuncForPC(pc).Name())
}

func Plain() string { return plainFunc() }

func ViaMethod() string { return (&mainType{1}).method() }
''',
}


def norm_trace(s):
    out = []
    for l in s.split("\n"):
        l = re.sub(r" \+0x[0-9a-f]+", "", l)
        l = re.sub(r"\(0x[0-9a-f, x.]*\)", "(...)", l)
        l = re.sub(r"\{0x[0-9a-f, x.]*\}", "{...}", l)
        if ".go:" in l or re.match(r"^[\w./*()\[\]·]+\(\.\.\.\)$|^[\w./*()\[\]]+\(\)$", l.strip()):
            out.append(l.strip())
    return out


def run(res, tier, seed, replay):
    ok, msg = vlib.run_translators()
    proofs_ok = ok and vlib.check_proofs(res, "C04", "Properties/C04.v", THEOREMS)
    res.cov["trusted_base"] += vlib.TRUSTED_COMMON + [
        "Model/Position.v naive_replace is the specification of strings.NewReplacer's generic replacer (its trie implementation is modelled and proved in C08)",
        "real builds of a call-shape program: runtime.Caller / FuncForPC output and a panic trace of the garbled binary, reversed by `garble reverse`, against "
        "the `go build -trimpath` binary's output",
        "NOT carried: gc's assignment of positions to calls (e2e only)"]
    res.assumptions = ["call heads (first identifier through the opening parenthesis) lie on one line; the multi-line case is the refuted statement / known finding F5"]
    try:
        garble, _ = vlib.build_garble()
    except vlib.BuildError as e:
        res.violation("garble-build", "garble no longer builds: %s" % str(e)[-800:], {"error": str(e)}, found_input=False)
        return
    cfgs = [[]] + ([["-seed=AAAAAAAAAAE"], ["-literals"]] if tier != "quick" else [[["-seed=AAAAAAAAAAE"], ["-literals"]][seed % 2]])
    proj = e2e.Project("c04", FILES, module="example.com/rev")
    caches = e2e.Caches("c04")
    pb = os.path.join(proj.dir, "plain.bin")
    rp = e2e.plain_build(proj, pb, caches=caches)
    if rp.returncode != 0:
        raise RuntimeError("plain build failed: " + rp.stderr.decode()[-800:])
    lines_checked = 0
    for gflags in cfgs:
        tag = " ".join(gflags) or "default"
        gb = os.path.join(proj.dir, "garbled.bin")
        rg = e2e.garble_build(garble, proj, gb, garble_flags=gflags, caches=caches, extra_env={"GOGARBLE": "example.com/rev"}, timeout=1500)
        if rg.returncode != 0:
            res.violation("build:" + tag, "garble %s build fails: %s" % (gflags, rg.stderr.decode()[-500:]), {"files": FILES, "flags": gflags})
            continue
        env = caches.env({"GOGARBLE": "example.com/rev"})

        def reverse(text):
            p = os.path.join(proj.dir, "obf.txt")
            open(p, "wb").write(text)
            rr = vlib.run([garble] + gflags + ["reverse", ".", p], env=env, cwd=proj.dir, timeout=600)
            return rr.returncode, rr.stdout, rr.stderr
        for argv, known in (([], None), (["multiline"], "F5-multiline-call-head")):
            pr, gr = e2e.run_bin(pb, argv), e2e.run_bin(gb, argv)
            rc, rev, rerr = reverse(gr[1])
            if rc not in (0,):
                res.violation("reverse-exit:" + tag, "garble reverse exits %d on obfuscated output: %s" % (rc, rerr.decode()[-300:]), {"files": FILES, "flags": gflags})
                continue
            pl, rl = pr[1].decode().split("\n"), rev.decode().split("\n")
            for i, (a, b) in enumerate(zip(pl, rl)):
                lines_checked += 1
                if a != b:
                    is_multi = known and i == len(pl) - 2
                    key = known if is_multi else "reverse-line:%s:%d" % (tag, i)
                    res.violation(key, "(%s) line %d: regular build prints %r, reversed obfuscated output is %r (obfuscated: %r)"
                                  % (tag, i, a, b, gr[1].decode().split("\n")[i] if i < len(gr[1].decode().split("\n")) else ""),
                                  {"files": FILES, "flags": gflags, "argv": argv, "line": i, "plain": a, "reversed": b})
        # panic trace
        pr, gr = e2e.run_bin(pb, ["panic"]), e2e.run_bin(gb, ["panic"])
        rc, rev, rerr = reverse(gr[2])
        pt, rt = norm_trace(pr[2].decode()), norm_trace(rev.decode())
        lines_checked += len(pt)
        if pt != rt:
            diff = [(a, b) for a, b in zip(pt, rt) if a != b][:3] or [("length", len(pt), len(rt))]
            res.violation("reverse-trace:" + tag, "(%s) reversed panic trace differs from the regular build's: %r" % (tag, diff),
                          {"files": FILES, "flags": gflags, "plain_trace": pt, "reversed_trace": rt})
        # passthrough: nothing obfuscated inside, awkward line endings
        for text in (b"plain text\r\nwith CRLF and no final newline", b"", b"\n\n", b"one line\n", "unicode é世 main.go:12\r\n".encode()):
            rc, out, err = reverse(text)
            lines_checked += 1
            if out != text or rc != 1:
                res.violation("passthrough:" + tag, "(%s) garble reverse on text without obfuscated names: exit %d, output %r for input %r" % (tag, rc, out[:80], text[:80]),
                              {"flags": gflags, "input": text.decode(errors="replace")})
    caches.remove()
    res.cov["evaluations"] = lines_checked
    res.cov["distinct_nontrivial"] = lines_checked
    res.cov["rule"] = ("program with call sites in functions, methods, generic methods and functions, closures, goroutines, deferred calls, two files, three "
                       "packages, a dot import, a multi-line call head (known finding) and a nil-map panic; its Caller/FuncForPC lines and panic trace under "
                       "%d configuration(s), reversed and compared line by line with the -trimpath build; plus passthrough texts" % len(cfgs))
    res.add_sample({"line": "example.com/rev/lib/lib.go:14 example.com/rev/lib.Here", "checked": "reverse(obfuscated) == regular"})
    if not proofs_ok and not res.violations:
        res.violation("tie-broken", "proof obligations of Properties/C04.v no longer check (%s)" % getattr(res, "broken", "see output"),
                      {"theorems": THEOREMS, "coq_output": getattr(res, "proof_output", "")[-2000:]}, found_input=False)
