"""C19 — garble touches only its own files."""
import hashlib, json, os, shutil, subprocess
import vlib, e2e, corpus
from names_common import stub_pkg_record, run_map

THEOREMS = ["C19_refuse_iff_foreign", "C19_removes_only_owned", "C19_cleanup_removes_only_own", "C19_cleanup_removes_created",
            "C19_inherited_shared_refuted"]
STATES = {"absent": "DAbsent", "empty": "DEmptyDir", "owned": "DOwned", "foreign-files": "DForeign", "foreign-subdir": "DForeign",
          "regular-file": "DNotADirectory", "symlink-to-foreign": "DForeign", "symlink-to-owned": "DOwned", "owned-only-sentinel": "DOwned"}


def tree_hash(d):
    h = hashlib.sha256()
    if os.path.islink(d):
        h.update(b"L" + os.readlink(d).encode())
    if os.path.isfile(d):
        h.update(b"F" + open(d, "rb").read())
        return h.hexdigest()
    if not os.path.isdir(d):
        return "absent"
    for root, dirs, files in sorted(os.walk(d)):
        dirs.sort()
        for f in sorted(files) + dirs:
            p = os.path.join(root, f)
            h.update(os.path.relpath(p, d).encode())
            if os.path.islink(p):
                h.update(b"L" + os.readlink(p).encode())
            elif os.path.isfile(p):
                h.update(open(p, "rb").read())
    return h.hexdigest()


def prepare(state, base):
    d = os.path.join(base, "dbg")
    aux = os.path.join(base, "aux")
    shutil.rmtree(base, ignore_errors=True)
    os.makedirs(base)
    if state == "absent":
        pass
    elif state == "empty":
        os.makedirs(d)
    elif state == "owned":
        os.makedirs(os.path.join(d, "source", "old"))
        open(os.path.join(d, ".garble-debugdir"), "w").close()
        open(os.path.join(d, "source", "old", "stale.go"), "w").write("package old\n")
    elif state == "owned-only-sentinel":
        os.makedirs(d)
        open(os.path.join(d, ".garble-debugdir"), "w").close()
    elif state == "foreign-files":
        os.makedirs(d)
        open(os.path.join(d, "precious.txt"), "w").write("do not delete\n")
    elif state == "foreign-subdir":
        os.makedirs(os.path.join(d, "sub", "deeper"))
    elif state == "regular-file":
        open(d, "w").write("a file, not a directory\n")
    elif state == "symlink-to-foreign":
        os.makedirs(aux)
        open(os.path.join(aux, "precious.txt"), "w").write("do not delete\n")
        os.symlink(aux, d)
    elif state == "symlink-to-owned":
        os.makedirs(aux)
        open(os.path.join(aux, ".garble-debugdir"), "w").close()
        open(os.path.join(aux, "stale.txt"), "w").write("stale\n")
        os.symlink(aux, d)
    return d, aux


def run(res, tier, seed, replay):
    ok, msg = vlib.run_translators()
    proofs_ok = ok and vlib.check_proofs(res, "C19", "Properties/C19.v", THEOREMS)
    res.cov["trusted_base"] += vlib.TRUSTED_COMMON + [
        "stub go (drives success, go list failure, build failure, help and bad-flag outcomes without toolchain work); recursive hashes of the debugdir target, "
        "the source tree, TMPDIR and an inherited GARBLE_SHARED directory before/after each run; one real warm-cache -debugdir build"]
    res.assumptions = ["os.MkdirTemp returns a fresh directory; RemoveAll(\"\") removes nothing"]
    try:
        garble, _ = vlib.build_garble()
    except vlib.BuildError as e:
        res.violation("garble-build", "garble no longer builds: %s" % str(e)[-800:], {"error": str(e)}, found_input=False)
        return
    stub = vlib.Stub()
    pdir = os.path.join(stub.dir, "c19src")
    os.makedirs(pdir, exist_ok=True)
    open(os.path.join(pdir, "a.go"), "w").write("package main\n\nfunc main() {}\n")
    rec = stub_pkg_record(pdir, "example.com/c19", "main", ["a.go"], b"\x03" * 15)
    lits = []
    runs = 0
    # ---------------- 1. the -debugdir target in every pre-state
    for state, model_state in STATES.items():
        base = os.path.join(stub.dir, "dd-" + state)
        d, aux = prepare(state, base)
        before, before_aux = tree_hash(d), tree_hash(aux)
        src_before = tree_hash(pdir)
        pr, log = run_map(garble, stub, [rec], ["-debugdir=" + d], pkgs=(".",), command="build")
        runs += 1
        refused = pr.returncode != 0 and b"unknown contents" in pr.stderr
        after, after_aux = tree_hash(d), tree_hash(aux)
        has_sentinel = os.path.exists(os.path.join(d, ".garble-debugdir"))
        stale_left = any(os.path.exists(os.path.join(d, y)) for y in ("stale.txt", os.path.join("source", "old", "stale.go")))
        lits.append("(%s, %s)" % (model_state, vlib.coq_bool(refused)))
        if model_state in ("DForeign", "DNotADirectory"):
            if not refused:
                res.violation("debugdir-not-refused:" + state, "-debugdir pointing at %s is not refused (exit %d): %s" % (state, pr.returncode, pr.stderr.decode()[-200:]),
                              {"state": state, "exit": pr.returncode})
            if before != after or before_aux != after_aux:
                res.violation("debugdir-foreign-modified:" + state, "-debugdir pointing at %s modified a directory garble does not own" % state, {"state": state})
        else:
            if refused or pr.returncode != 0:
                res.violation("debugdir-refused:" + state, "-debugdir pointing at an %s target fails: %s" % (state, pr.stderr.decode()[-300:]), {"state": state})
            elif not has_sentinel or stale_left:
                res.violation("debugdir-not-reset:" + state, "owned/absent/empty debugdir (%s): sentinel=%s stale files left=%s" % (state, has_sentinel, stale_left), {"state": state})
        if tree_hash(pdir) != src_before:
            res.violation("source-modified:" + state, "the source tree changed during garble -debugdir build", {"state": state})
    header = "From Verif Require Import Base.Bytes Model.Files.\nOpen Scope N_scope.\n"
    bad = vlib.coq_eval_cases("c19a", header, "dstate * bool", lits,
                              "(fun c => negb (Bool.eqb (match debugdir_decide (fst c) with ARefuse => true | _ => false end) (snd c)))")
    # ---------------- 2. every command x outcome: TMPDIR clean, source untouched, inherited GARBLE_SHARED untouched
    outcomes = [("build", [], {}, "success"), ("test", [], {}, "success"), ("run", [], {}, "success"),
                ("build", [], {"list_exit": 1, "list_stderr": "go: cannot find main module\n", "list": []}, "go-list-error"),
                ("build", [], {"build_exit": 1}, "compile-or-link-error"), ("test", [], {"build_exit": 2}, "test-failure"),
                ("build", ["-tiny"], {}, "garble-flag-after-command"), ("build", ["-h"], {}, "help"),
                ("map", ["-badflag"], {}, "bad-flag"), ("reverse", ["-badflag"], {}, "bad-flag"), ("map", [], {}, "success"),
                ("reverse", [], {}, "success"), ("build", [], {"goversion": "go1.19"}, "go-too-old"), ("build", [], {"list": []}, "nothing-to-obfuscate")]
    for cmd, flags, conf_extra, outcome in outcomes:
        tmpd = os.path.join(stub.dir, "tmp-%s-%s" % (cmd, outcome))
        shutil.rmtree(tmpd, ignore_errors=True)
        os.makedirs(tmpd)
        victim = os.path.join(stub.dir, "victim-%s-%s" % (cmd, outcome))
        shutil.rmtree(victim, ignore_errors=True)
        os.makedirs(victim)
        open(os.path.join(victim, "main-cache.bin"), "w").write("belongs to another garble process\n")
        vh, sh = tree_hash(victim), tree_hash(pdir)
        conf = {"list": [rec], "buildid": "x/y/z/" + "B" * 20}
        conf.update(conf_extra)
        env, lpath = stub.env(conf, {"TMPDIR": tmpd, "GARBLE_SHARED": victim})
        pr = subprocess.run([garble, cmd] + flags + ["."], env=env, cwd=pdir, stdin=subprocess.DEVNULL, stdout=subprocess.PIPE, stderr=subprocess.PIPE)
        runs += 1
        left = [x for x in os.listdir(tmpd) if x.startswith("garble-shared")]
        if left:
            res.violation("tempdir-left:%s:%s" % (cmd, outcome), "garble %s (%s, exit %d) leaves %r in TMPDIR" % (cmd, outcome, pr.returncode, left), {"command": cmd, "flags": flags, "outcome": outcome})
        if tree_hash(victim) != vh:
            res.violation("inherited-shared-removed:%s:%s" % (cmd, outcome),
                          "GARBLE_SHARED=%s garble %s %s . (%s): the inherited directory, which this process did not create, was modified or deleted" % ("<dir>", cmd, " ".join(flags), outcome),
                          {"command": cmd, "flags": flags, "outcome": outcome, "stderr": pr.stderr.decode()[-300:]})
        if tree_hash(pdir) != sh:
            res.violation("source-modified:%s:%s" % (cmd, outcome), "garble %s (%s) modified the source tree" % (cmd, outcome), {"command": cmd, "outcome": outcome})
    # ---------------- 3. an owned debugdir is complete with warm caches too (restored from the cache)
    cres = corpus.corpus_build(garble, [])
    if cres["garble_rc"] == 0:
        caches = corpus.corpus_caches(cres)
        proj = e2e.Project.__new__(e2e.Project)
        proj.dir = cres["src"]
        d2 = os.path.join(vlib.sub("c19"), "dbg-warm")
        shutil.rmtree(d2, ignore_errors=True)
        sh = tree_hash(proj.dir)
        rg = e2e.garble_build(garble, proj, os.path.join(vlib.sub("c19"), "warm.bin"), garble_flags=["-debugdir=" + d2], caches=caches)
        runs += 1
        if rg.returncode != 0:
            res.violation("warm-debugdir-build", "warm-cache -debugdir build fails: %s" % rg.stderr.decode()[-300:], {}, found_input=True)
        else:
            for sub_ in ("source", "garbled"):
                for pkg, files in corpus.PKG_ORDER:
                    for f in files:
                        if not os.path.exists(os.path.join(d2, sub_, pkg, f)):
                            res.violation("warm-debugdir-incomplete", "with warm caches -debugdir lacks %s/%s/%s" % (sub_, pkg, f), {"missing": "%s/%s/%s" % (sub_, pkg, f)})
        if tree_hash(proj.dir) != sh:
            res.violation("source-modified:real", "a real garble -debugdir build modified the source tree", {})
    res.cov["evaluations"] = runs
    res.cov["distinct_nontrivial"] = len(STATES) + len(outcomes)
    res.cov["rule"] = ("%d pre-states of the -debugdir target (absent, empty, owned, foreign files/subdirs, regular file, symlinks) x build; %d command/outcome "
                       "pairs (build/test/run/map/reverse x success, go list error, compile/test failure, garble flag after command, help, bad flag, old Go, nothing "
                       "to obfuscate) each with an inherited GARBLE_SHARED directory and a private TMPDIR; one warm-cache real -debugdir build" % (len(STATES), len(outcomes)))
    res.add_sample({"state": "foreign-files", "expected": "refused, untouched"})
    res.add_sample({"command": "build", "outcome": "go-list-error", "checked": "TMPDIR empty, inherited GARBLE_SHARED intact, source unchanged"})
    if (bad or not proofs_ok) and not res.violations:
        what = []
        if not proofs_ok:
            what.append("proof obligations of Properties/C19.v no longer check (%s)" % getattr(res, "broken", "see output"))
        if bad:
            what.append("debugdir decision differs from the model for states %r" % [list(STATES)[i] for i in bad])
        res.violation("tie-broken", "; ".join(what), {"theorems": THEOREMS}, found_input=False)
