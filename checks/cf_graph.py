"""C11: correspondence between Model/Passes.v and internal/ctrlflow/transform.go.

The injected oracle (harness/inject/main/internal/ctrlflow/verif_oracle.go) builds SSA for Go
functions the way garble does, runs the real passes (addTrashBlockMarkers, applySplitting,
addJunkBlocks, applyFlattening; one application each per stage, any order, one shared generator)
and dumps the block graph after every stage.  Here every dump is read the way ssa2ast reads it
(a block = its instructions, then the assignments the phi nodes of its successors place at its
end according to their Preds lists, then its terminator), the parameters the pass chose are read
off its output, and Coq evaluates per stage  passes_okb ps (g, start) && cfg_eqb (apply_passes ps g) real
(ps = the pass, for flattening followed by its shuffle; block ids = positions in ssaFunc.Blocks);
by theorem C11_passes_checked_instance a true answer means the dumped result is equivalent to the
dumped input.  When an answer is false, both graphs are executed inside Coq under free (trace)
interpretations to find an execution on which they differ."""
import json, random
import vlib, names_common

CATALOGUE = r'''package p

type T struct{ a, b int }

func loop(n int) int {
	s := 0
	for i := 0; i < n; i++ {
		if i%2 == 0 {
			s += i
		} else {
			s -= 1
		}
	}
	return s
}

func nested(a, b, c int) int {
	r := 0
	if a > b {
		if b > c {
			r = 1
		} else if a > c {
			r = 2
		} else {
			r = 3
		}
	} else {
		for c > 0 {
			c -= 2
			if c == 5 {
				break
			}
			if c == 7 {
				continue
			}
			r += c
		}
	}
	return r*2 + 1
}

func sw(x int) (r int) {
	switch {
	case x < 0:
		r = -1
	case x == 0:
		r = 0
	case x < 10:
		r = 1
		fallthrough
	case x < 100:
		r += 2
	default:
		r = 9
	}
	return
}

func labelled(m [][]int) int {
	t := 0
outer:
	for i := range m {
		for j := range m[i] {
			if m[i][j] < 0 {
				continue outer
			}
			if m[i][j] == 99 {
				break outer
			}
			t += m[i][j]
		}
	}
	return t
}

func pan(x int) int {
	if x < 0 {
		panic("negative")
	}
	if x > 100 {
		return 100
	}
	return x
}

func gotos(n int) int {
	i, s := 0, 0
again:
	if i < n {
		s += i * i
		i++
		goto again
	}
	return s
}

func (t *T) method(k int) int {
	for t.a < k && t.b < k {
		t.a++
		if t.a%3 == 0 {
			t.b += 2
		}
	}
	return t.a + t.b
}

func deferred(xs []int) (n int) {
	defer func() {
		if recover() != nil {
			n = -1
		}
	}()
	for _, x := range xs {
		if x == 0 {
			panic("zero")
		}
		n += 100 / x
	}
	return n
}

func strrange(s string) int {
	n := 0
	for _, c := range s {
		if c == 'a' || c == 'b' && n > 2 {
			n++
		}
	}
	return n
}

func straight(a, b int) int { return a + b }

func two(a int) int {
	if a > 1 {
		return 1
	}
	return 2
}

func infinite(c chan int) {
	for {
		c <- 1
	}
}
'''


def gen_func(rng, name):
    """A random structured function over ints: nested if/else, loops with break/continue, switch,
    early returns and panics."""
    def cond():
        return rng.choice(["x%%%d == %d" % (rng.randint(2, 5), rng.randint(0, 1)), "acc < y", "x > y", "acc%2 == 0", "y != %d" % rng.randint(0, 9),
                           "x > 0 && y > 0", "x < 0 || acc > %d" % rng.randint(1, 50)])

    def simple():
        return rng.choice(["acc += x", "acc -= y", "x++", "y--", "acc = acc*3 + 1", "x, y = y, x", "acc ^= %d" % rng.randint(1, 255)])

    def stmts(depth, in_loop, n):
        out = []
        for _ in range(n):
            k = rng.random()
            if depth <= 0 or k < 0.3:
                out.append(simple())
            elif k < 0.55:
                s = "if %s {\n%s\n}" % (cond(), stmts(depth - 1, in_loop, rng.randint(1, 3)))
                if rng.random() < 0.6:
                    s += " else {\n%s\n}" % stmts(depth - 1, in_loop, rng.randint(1, 2))
                out.append(s)
            elif k < 0.75:
                v = "i%d" % rng.randint(0, 10**6)
                out.append("for %s := 0; %s < %d && %s; %s++ {\n%s\n}" % (v, v, rng.randint(1, 6), cond(), v, stmts(depth - 1, True, rng.randint(1, 3))))
            elif k < 0.85:
                cases = "".join("case %d:\n%s\n" % (c, stmts(depth - 1, in_loop, rng.randint(1, 2))) for c in range(rng.randint(1, 3)))
                out.append("switch x %% 4 {\n%sdefault:\n%s\n}" % (cases, stmts(depth - 1, in_loop, 1)))
            elif k < 0.9 and in_loop:
                out.append("if %s { %s }" % (cond(), rng.choice(["break", "continue"])))
            elif k < 0.95:
                out.append("if %s { return acc + %d }" % (cond(), rng.randint(0, 9)))
            else:
                out.append("if %s { panic(\"p\") }" % cond())
        return "\n".join(out)
    return "func %s(x, y int) int {\nacc := 0\n%s\nreturn acc\n}\n" % (name, stmts(3, False, rng.randint(2, 4)))


class Rejected(Exception):
    """ssa2ast would refuse (panic on) this graph: the build fails, nothing is silently changed."""


OPS = {"==": "OEq", "!=": "ONe", "<": "OLt", "<=": "OLe", ">": "OGt", ">=": "OGe"}


class Namer:
    """small consecutive numbers for instruction identities and phi variables"""
    def __init__(self):
        self.m = {}

    def __call__(self, key):
        if key not in self.m:
            self.m[key] = len(self.m)
        return self.m[key]


def model_blocks(stage, initial_phis, nm):
    """dump -> {dump block id: (body, term)} read as ssa2ast reads it.  body items are Coq instr
    terms; term is a tuple ('jump', t) / ('if', cond, t, f) / ('ret', id) / ('panic', id) over dump ids."""
    blocks = stage["blocks"]
    byid = {b["id"]: b for b in blocks}
    if len(byid) != len(blocks):
        raise Rejected("a block occurs twice in ssaFunc.Blocks")
    bodies = {b["id"]: [] for b in blocks}
    phis = {b["id"]: [] for b in blocks}
    for b in blocks:
        for ins in b["instrs"]:
            if ins["kind"] == "phi":
                edges = ins.get("edges") or []
                for idx, c in enumerate(edges):
                    if idx >= len(b["preds"]):
                        raise Rejected("phi with more edges than its block has predecessors (ssa2ast indexes Preds out of range)")
                    pred = b["preds"][idx]
                    if pred not in byid:
                        raise Rejected("phi predecessor is not a block of the function")
                    if ins["id"] in initial_phis or c is None:
                        phis[pred].append((ins["id"], idx, "IOrig %d" % nm(("phiassign", ins["id"], idx))))
                    else:
                        if c < 0:
                            raise Rejected("negative dispatcher constant")
                        phis[pred].append((ins["id"], idx, "ISet %d %d" % (nm(("var", ins["id"])), c)))
                continue
            if ins["id"] == b["cond_instr"] and b["cond_phi"] not in initial_phis:
                continue          # folded into the terminator's condition
            bodies[b["id"]].append("IOrig %d" % nm(("instr", ins["id"])))
    out = {}
    for b in blocks:
        t, s = b["term"], b["succs"]
        if t == "jump":
            term = ("jump", s[0])
        elif t == "if":
            if b["cond_instr"] >= 0 and b["cond_phi"] not in initial_phis:
                if b["cond_int"] < 0 or b["cond_op"] not in OPS:
                    raise Rejected("unexpected dispatcher comparison")
                c = "CVar %d %s %d" % (nm(("var", b["cond_phi"])), OPS[b["cond_op"]], b["cond_int"])
            else:
                c = "COrig %d" % nm(("cond", b["term_id"]))
            term = ("if", c, s[0], s[1])
        elif t == "return":
            term = ("ret", nm(("exit", b["term_id"])))
        elif t == "panic":
            term = ("panic", nm(("exit", b["term_id"])))
        else:
            raise Rejected("block %d has no terminator" % b["id"])
        # ssa2ast emits a block's phi assignments in the order it meets the phi nodes, i.e. in ssaFunc.Blocks order, which
        # applyFlattening shuffles; they are taken in a canonical order here (their mutual order is the subject of
        # C11_phi_sequential_equals_parallel and known finding F6-phi-swap, not of the graph passes)
        out[b["id"]] = (bodies[b["id"]] + [x[2] for x in sorted(phis[b["id"]])], term)
    return out


def coq_term(term, ren):
    r = lambda x: ren.get(x, 10**5)
    if term[0] == "jump":
        return "TJump %d" % r(term[1])
    if term[0] == "if":
        return "TIf (%s) %d %d" % (term[1], r(term[2]), r(term[3]))
    if term[0] == "ret":
        return "TRet %d" % term[1]
    return "TPanic %d" % term[1]


def coq_cfg(mb, ren):
    """blocks in model numbering (ren: dump id -> model id, a bijection onto 0..len-1)"""
    inv = sorted(ren.items(), key=lambda kv: kv[1])
    assert [v for _, v in inv] == list(range(len(inv)))
    return "[" + "; ".join("mkb [%s] (%s)" % ("; ".join(mb[d][0]), coq_term(mb[d][1], ren)) for d, _ in inv) + "]"


def kind_keeps_positions(kind):
    return kind in ("junk", "trash", "split")


def derive_pass(prev, cur, ren, mb_cur, nm):
    """The parameters the implementation chose, read off its output, and the numbering of the new
    blocks that the model's pass produces.  Returns (coq pass term, new ren); raises ValueError when
    the output does not have the shape of the pass at all (then the raw numbering is used)."""
    n = len(prev["blocks"])
    old = {b["id"] for b in prev["blocks"]}
    new = [b for b in cur["blocks"] if b["id"] not in old]
    byid = {b["id"]: b for b in cur["blocks"]}
    ren2 = {b["id"]: k for k, b in enumerate(cur["blocks"])}     # model ids = positions in ssaFunc.Blocks
    if kind_keeps_positions(cur["pass"]) and any(ren2[d] != ren[d] for d in ren):
        raise ValueError("the pass reordered the old blocks")
    kind = cur["pass"]
    if kind in ("junk", "trash"):
        want = 1 if kind == "junk" else 2
        if len(new) != want:
            raise ValueError("%s added %d blocks" % (kind, len(new)))
        first = new[0]["id"]
        edges = [(b["id"], i) for b in cur["blocks"] for i, t in enumerate(b["succs"]) if t == first and b["id"] in old]
        if len(edges) != 1:
            raise ValueError("the new block has %d incoming edges from old blocks" % len(edges))
        src, slot = edges[0]
        if [ren2[b["id"]] for b in new] != list(range(n, n + len(new))):
            raise ValueError("new blocks are not appended")
        if kind == "junk":
            return ["PJump %d %d" % (ren[src], slot)], ren2
        d = new[0]
        phi = [i for i in d["instrs"] if i["kind"] == "phi"]
        if d["cond_instr"] < 0 or len(phi) != 1 or phi[0]["id"] != d["cond_phi"] or not phi[0].get("edges") or phi[0]["edges"][0] is None:
            raise ValueError("the trash guard is not  phi(constant) OP constant")
        return ["PTrash %d %d %d %d %s %d [%s]" % (ren[src], slot, nm(("var", d["cond_phi"])), phi[0]["edges"][0], OPS[d["cond_op"]], d["cond_int"],
                                                   "; ".join(mb_cur[new[1]["id"]][0]))], ren2
    if kind == "split":
        if len(new) != 1:
            raise ValueError("split added %d blocks" % len(new))
        nb = new[0]
        if len(nb["preds"]) != 1 or nb["preds"][0] not in old:
            raise ValueError("the second part does not have the first part as its only predecessor")
        j = nb["preds"][0]
        if ren2[nb["id"]] != n:
            raise ValueError("the new block is not appended")
        return ["PSplit %d %d" % (ren[j], len(mb_cur[j][0]))], ren2
    if kind == "flatten":
        entry = cur["blocks"][0]
        ephi = [i for i in entry["instrs"] if i["kind"] == "phi"]
        if entry["id"] in old or entry["term"] != "jump" or len(ephi) != 1 or any(c is None for c in (ephi[0].get("edges") or [None])):
            raise ValueError("Blocks[0] is not a dispatcher entry (jump with one constant phi)")
        fakes = entry["preds"]
        m = len(fakes)
        keys = ephi[0]["edges"]
        if len(set(fakes)) != m or any(f in old or f not in byid for f in fakes):
            raise ValueError("dispatcher predecessors are not %d distinct new blocks" % m)
        chain, c = [], entry["succs"][0]
        while c in byid and c not in old and c not in chain and c != entry["id"] and c not in fakes and len(chain) <= m + 1:
            chain.append(c)
            if byid[c]["term"] != "if":
                break
            c = byid[c]["succs"][1]
        canon = dict(ren)             # the ids Model/Passes.v's flatten gives, before the shuffle
        for k, b in enumerate(fakes):
            canon[b] = n + k
        for k, b in enumerate(chain):
            canon[b] = n + m + k
        canon[entry["id"]] = n + len(fakes) + len(chain)
        if set(canon) != set(byid) or sorted(canon.values()) != list(range(len(byid))):
            raise ValueError("blocks outside old/fake/if-chain/entry")
        sigma = [ren2[d] for d, _ in sorted(canon.items(), key=lambda kv: kv[1])]
        info = cur.get("info") or []
        if [p[0] for p in info] != keys or [p[1] for p in info] != [byid[c]["cond_int"] for c in chain][:len(info)]:
            raise ValueError("dispatcherInfo does not list the stored/compared constants")
        return ["PFlatten %d [%s]" % (nm(("var", ephi[0]["id"])), "; ".join(str(k) for k in keys)),
                "PShuffle [%s]%%nat" % "; ".join("%d" % x for x in sigma)], ren2
    raise ValueError("unknown pass " + kind)


HEADER = """From Verif Require Import Base.Bytes Model.Passes.
Open Scope N_scope.
Definition mkb (b : list instr) (t : term) : block := {| body := b; bterm := t |}.
(* free interpretation: the state is the list of executed instructions; a branch depends on the condition, the history length and a salt *)
Definition tact (a : nat) (s : list nat) : list nat := a :: s.
Definition tcond (salt : nat) (c : nat) (s : list nat) : bool := Nat.odd (Nat.div (c * 7 + length s * 13 + salt * 5 + Nat.modulo (length s * length s) 11) 3).
Definition same (r r' : nat * bool * list nat) : bool :=
  Nat.eqb (fst (fst r)) (fst (fst r')) && Bool.eqb (snd (fst r)) (snd (fst r')) && Nat.eqb (length (snd r)) (length (snd r')) &&
  forallb (fun p => Nat.eqb (fst p) (snd p)) (combine (snd r) (snd r')).
Definition differs (salt : nat) (g : cfg) (start : nat) (real : cfg) (start' : nat) : bool :=
  match run (list nat) tact (tcond salt) g 300 (start, env0, []) with
  | None => false
  | Some r => match run (list nat) tact (tcond salt) real 30000 (start', env0, []) with
              | Some r' => negb (same r r')
              | None => true
              end
  end.
Definition stage_ok (c : list pass * cfg * nat * cfg * nat) : bool :=
  let '(ps, g, start, real, start') := c in
  passes_okb ps (g, start) && cfg_eqb (fst (apply_passes ps (g, start))) real && Nat.eqb (snd (apply_passes ps (g, start))) start'.
"""

PIPELINES = [["flatten"], ["junk", "flatten"], ["split", "split", "junk", "junk", "flatten"], ["trash", "flatten"], ["flatten", "flatten"],
             ["trash", "trash", "split", "junk", "junk", "junk", "flatten", "flatten"], ["junk", "junk", "junk", "junk"], ["split", "trash", "split", "flatten"]]


def run(res, garble, tier, seed):
    """Returns the number of stages compared."""
    rng = random.Random(seed * 7919 + 11)
    nrand = 12 if tier == "quick" else 18
    nseeds = 2 if tier == "quick" else 2
    sources = [("catalogue", CATALOGUE)]
    for i in range(0, nrand, 6):
        sources.append(("random-%d" % i, "package p\n" + "".join(gen_func(rng, "f%d" % (i + j)) for j in range(6))))
    oracle = names_common.Oracle(garble)
    reqs, meta = [], []
    for sname, src in sources:
        for pl in (PIPELINES if tier != "quick" else [PIPELINES[0], PIPELINES[5], PIPELINES[(seed % 6) + 1]]):
            for k in range(nseeds):
                sd = rng.randrange(1, 2**40)
                reqs.append({"op": "cfdump", "s": src, "args": pl, "name": str(sd)})
                meta.append((sname, src, sd, pl))
    outs = oracle.batch(reqs)
    cases, cmeta, sizes = [], [], []
    hist = {"junk": 0, "trash": 0, "split": 0, "flatten": 0, "no-op (too small)": 0, "rejected by ssa2ast": 0, "pass panics": 0}
    for (sname, src, sd, pl), o in zip(meta, outs):
        if "funcs" not in o:
            raise RuntimeError("cfdump failed on %s: %s" % (sname, json.dumps(o)[:500]))
        for f in o["funcs"]:
            st0 = f["stages"][0]
            initial_phis = {i["id"] for b in st0["blocks"] for i in b["instrs"] if i["kind"] == "phi"}
            nm = Namer()
            ren = {b["id"]: k for k, b in enumerate(st0["blocks"])}
            start = st0["blocks"][0]["id"]
            try:
                mb_prev = model_blocks(st0, initial_phis, nm)
            except Rejected:
                continue
            prev = st0
            for t, cur in enumerate(f["stages"][1:], 1):
                where = {"source": src, "function": f["name"], "generator_seed": sd, "passes": pl[:t], "stage": t}
                if cur.get("panic"):
                    hist["pass panics"] += 1     # a garble panic = a failed build: rejected, not silently changed
                    break
                if not cur["ok"] or [b["id"] for b in cur["blocks"]] == [b["id"] for b in prev["blocks"]] and cur["blocks"] == prev["blocks"]:
                    if cur["blocks"] != prev["blocks"]:
                        res.violation("pass-noop-changed:%s" % cur["pass"], "%s reports it did nothing on %s but the graph changed" % (cur["pass"], f["name"]), where)
                        break
                    hist["no-op (too small)"] += 1
                    continue
                try:
                    mb_cur = model_blocks(cur, initial_phis, nm)
                except Rejected:
                    hist["rejected by ssa2ast"] += 1
                    break
                notes = []
                try:
                    p, ren2 = derive_pass(prev, cur, ren, mb_cur, nm)
                except ValueError as e:
                    notes.append(str(e))
                    p = []
                    ren2 = {b["id"]: k for k, b in enumerate(cur["blocks"])}
                start2 = cur["blocks"][0]["id"]
                cases.append("([%s], %s, %d%%nat, %s, %d%%nat)" % ("; ".join(p), coq_cfg(mb_prev, ren), ren[start], coq_cfg(mb_cur, ren2), ren2[start2]))
                cmeta.append((where, notes, cur["pass"]))
                sizes.append(len(prev["blocks"]))
                hist[cur["pass"]] += 1
                prev, mb_prev, ren, start = cur, mb_cur, ren2, start2
    bad = vlib.coq_eval_cases("cfgraph", HEADER, "list pass * cfg * nat * cfg * nat", cases, "(fun c => negb (stage_ok c))", chunk=40)
    flagged = sorted(set(bad) | {i for i, (_, notes, _) in enumerate(cmeta) if notes})
    if flagged:
        # search for an execution on which the real result differs from the input
        sub = [cases[i] for i in flagged[:40]]
        witnesses = {}
        for salt in range(16):
            d = vlib.coq_eval_cases("cfdiff%d" % salt, HEADER, "list pass * cfg * nat * cfg * nat", sub,
                                    "(fun c => let '(p, g, start, real, start') := c in differs %d g start real start')" % salt, chunk=10)
            for j in d:
                witnesses.setdefault(flagged[j], salt)
        reported = set()
        for i in flagged:
            where, notes, kind = cmeta[i]
            key = "%s-graph:%s" % (kind, where["function"])
            if key in reported or len(reported) >= 6:
                continue
            reported.add(key)
            desc = "; ".join(notes) if notes else "the graph the pass produced is not Model/Passes.v's result on its input (or the pass's hypotheses do not hold)"
            replay = dict(where, notes=notes, coq_case=cases[i], obligation="stage_ok: passes_okb && cfg_eqb (apply_passes ps g) real (theorem C11_passes_checked_instance)")
            if i in witnesses:
                replay["trace_interpretation_salt"] = witnesses[i]
                res.violation(key, "%s on %s (generator seed %d, after %s): %s; under the trace interpretation with salt %d the result executes different instructions "
                              "than the input" % (kind, where["function"], where["generator_seed"], where["passes"][:-1], desc, witnesses[i]), replay)
            else:
                res.violation(key, "%s on %s (generator seed %d, after %s): %s" % (kind, where["function"], where["generator_seed"], where["passes"][:-1], desc),
                              replay, found_input=False)
    res.cov["pass_graph_stages"] = len(cases)
    res.cov["pass_graph_histogram"] = hist
    res.cov["pass_graph_block_counts"] = {"min": min(sizes) if sizes else 0, "max": max(sizes) if sizes else 0,
                                          "mean": round(sum(sizes) / max(1, len(sizes)), 1)}
    return len(cases)
