"""C11: correspondence between Model/Flatten.v and internal/ctrlflow.applyFlattening.

The injected oracle (harness/inject/main/internal/ctrlflow/verif_oracle.go) builds SSA for Go
functions the way garble does, runs the real applyFlattening with a seeded generator and dumps the
block graph before and after.  Here the dumped result is renumbered into the model's block ids and
Coq evaluates, per function, [hyps_okb keys g && cfg_eqb (flatten keys g) real]; by theorem
C11_flatten_checked_instance a true answer means the dumped result is equivalent to the dumped input.
When an answer is false, both graphs are executed inside Coq under free (trace) interpretations to
find an execution on which they differ."""
import json, random
import vlib, names_common

CATALOGUE = r'''package p

type T struct{ a, b int }

func loop(n int) int {
	s := 0
	for i := 0; i < n; i++ {
		if i%2 == 0 {
			s += i
		} else {
			s -= 1
		}
	}
	return s
}

func nested(a, b, c int) int {
	r := 0
	if a > b {
		if b > c {
			r = 1
		} else if a > c {
			r = 2
		} else {
			r = 3
		}
	} else {
		for c > 0 {
			c -= 2
			if c == 5 {
				break
			}
			if c == 7 {
				continue
			}
			r += c
		}
	}
	return r*2 + 1
}

func sw(x int) (r int) {
	switch {
	case x < 0:
		r = -1
	case x == 0:
		r = 0
	case x < 10:
		r = 1
		fallthrough
	case x < 100:
		r += 2
	default:
		r = 9
	}
	return
}

func labelled(m [][]int) int {
	t := 0
outer:
	for i := range m {
		for j := range m[i] {
			if m[i][j] < 0 {
				continue outer
			}
			if m[i][j] == 99 {
				break outer
			}
			t += m[i][j]
		}
	}
	return t
}

func pan(x int) int {
	if x < 0 {
		panic("negative")
	}
	if x > 100 {
		return 100
	}
	return x
}

func gotos(n int) int {
	i, s := 0, 0
again:
	if i < n {
		s += i * i
		i++
		goto again
	}
	return s
}

func (t *T) method(k int) int {
	for t.a < k && t.b < k {
		t.a++
		if t.a%3 == 0 {
			t.b += 2
		}
	}
	return t.a + t.b
}

func deferred(xs []int) (n int) {
	defer func() {
		if recover() != nil {
			n = -1
		}
	}()
	for _, x := range xs {
		if x == 0 {
			panic("zero")
		}
		n += 100 / x
	}
	return n
}

func strrange(s string) int {
	n := 0
	for _, c := range s {
		if c == 'a' || c == 'b' && n > 2 {
			n++
		}
	}
	return n
}

func straight(a, b int) int { return a + b }

func two(a int) int {
	if a > 1 {
		return 1
	}
	return 2
}

func infinite(c chan int) {
	for {
		c <- 1
	}
}
'''


def gen_func(rng, name):
    """A random structured function over ints: nested if/else, loops with break/continue, switch,
    early returns and panics."""
    def cond():
        return rng.choice(["x%%%d == %d" % (rng.randint(2, 5), rng.randint(0, 1)), "acc < y", "x > y", "acc%2 == 0", "y != %d" % rng.randint(0, 9),
                           "x > 0 && y > 0", "x < 0 || acc > %d" % rng.randint(1, 50)])

    def simple():
        return rng.choice(["acc += x", "acc -= y", "x++", "y--", "acc = acc*3 + 1", "x, y = y, x", "acc ^= %d" % rng.randint(1, 255)])

    def stmts(depth, in_loop, n):
        out = []
        for _ in range(n):
            k = rng.random()
            if depth <= 0 or k < 0.3:
                out.append(simple())
            elif k < 0.55:
                s = "if %s {\n%s\n}" % (cond(), stmts(depth - 1, in_loop, rng.randint(1, 3)))
                if rng.random() < 0.6:
                    s += " else {\n%s\n}" % stmts(depth - 1, in_loop, rng.randint(1, 2))
                out.append(s)
            elif k < 0.75:
                v = "i%d" % rng.randint(0, 10**6)
                out.append("for %s := 0; %s < %d && %s; %s++ {\n%s\n}" % (v, v, rng.randint(1, 6), cond(), v, stmts(depth - 1, True, rng.randint(1, 3))))
            elif k < 0.85:
                cases = "".join("case %d:\n%s\n" % (c, stmts(depth - 1, in_loop, rng.randint(1, 2))) for c in range(rng.randint(1, 3)))
                out.append("switch x %% 4 {\n%sdefault:\n%s\n}" % (cases, stmts(depth - 1, in_loop, 1)))
            elif k < 0.9 and in_loop:
                out.append("if %s { %s }" % (cond(), rng.choice(["break", "continue"])))
            elif k < 0.95:
                out.append("if %s { return acc + %d }" % (cond(), rng.randint(0, 9)))
            else:
                out.append("if %s { panic(\"p\") }" % cond())
        return "\n".join(out)
    return "func %s(x, y int) int {\nacc := 0\n%s\nreturn acc\n}\n" % (name, stmts(3, False, rng.randint(2, 4)))


def term_of(b, cond_id):
    t, s = b["term"], b["succs"]
    if t == "jump":
        return "TJump %d" % s[0]
    if t == "if":
        return "TIf (%s) %d %d" % (cond_id, s[0], s[1])
    if t == "return":
        return "TRet"
    if t == "panic":
        return "TPanic"
    raise ValueError("block %d has no terminator" % b["id"])


def coq_cfg(blocks):
    return "[" + "; ".join("mkb (%s) (%s)" % (a, t) for a, t in blocks) + "]"


def before_graph(f):
    """The dumped input as a model graph (block i = AOrig i, its condition = COrig i)."""
    bs = sorted(f["before"], key=lambda b: b["id"])
    assert [b["id"] for b in bs] == list(range(len(bs)))
    return [("AOrig %d" % b["id"], term_of(b, "COrig %d" % b["id"])) for b in bs]


def canonical_after(f):
    """Renumber the dumped result into the model's ids: originals keep theirs, fake block k (k-th
    predecessor of the dispatcher entry) = n+k, if-block k of the chain = n+m+k, entry = n+2m.
    Returns (keys, blocks, notes); raises ValueError when the shape is not a dispatcher at all."""
    n = len(f["before"])
    after = {b["id"]: b for b in f["after"]}
    if len(after) != len(f["after"]):
        raise ValueError("a block occurs twice in ssaFunc.Blocks")
    entry = f["after"][0]
    if entry["term"] != "jump" or entry["phi_ints"] is None:
        raise ValueError("Blocks[0] is not a dispatcher entry (jump with a constant phi)")
    fakes = entry["preds"]
    m = len(fakes)
    keys = entry["phi_ints"]
    if len(keys) != m or len(set(fakes)) != m:
        raise ValueError("dispatcher phi has %d edges for %d distinct predecessors" % (len(keys), len(set(fakes))))
    chain, cur = [], entry["succs"][0]
    while cur >= n and cur in after and len(chain) <= m + 2 and cur not in chain and cur != entry["id"] and cur not in fakes:
        chain.append(cur)
        b = after[cur]
        if b["term"] != "if":
            break
        cur = b["succs"][1]
    ren = {i: i for i in range(n)}
    for k, b in enumerate(fakes):
        ren[b] = n + k
    for k, b in enumerate(chain):
        ren[b] = n + m + k
    ren[entry["id"]] = n + len(fakes) + len(chain)
    if len(ren) != len(after) or set(ren) != set(after):
        raise ValueError("blocks outside originals/fakes/if-chain/entry: %s" % sorted(set(after) - set(ren)))
    notes = []
    out = [None] * len(after)
    before = {b["id"]: b for b in f["before"]}
    for bid, b in after.items():
        rb = dict(b, succs=[ren.get(s, 10**6) for s in b["succs"]])
        if bid < n:
            if b["body"] != before[bid]["body"]:
                notes.append("body of original block %d changed" % bid)
            if b["preds"][:len(before[bid]["preds"])] != before[bid]["preds"]:
                notes.append("predecessor list of original block %d changed (phi lowering depends on it)" % bid)
            out[ren[bid]] = ("AOrig %d" % bid, term_of(rb, "COrig %d" % bid))
        elif bid in fakes:
            if b["body"]:
                notes.append("fake block %d has a body" % bid)
            out[ren[bid]] = ("ASetKey %d" % keys[fakes.index(bid)], term_of(rb, "COrig 0"))
        elif bid in chain:
            if not (b.get("cmp_phi") and b.get("cmp_op") == "==" and b.get("cmp_phi_block") == entry["id"] and len(b["body"]) == 1):
                notes.append("if-block %d does not compare the dispatcher phi for equality" % bid)
            out[ren[bid]] = ("ANone", term_of(rb, "CKeyEq %d" % b.get("cmp_int", 0)))
        else:
            if b["body"] != ["phi/ctrflow.phi"]:
                notes.append("entry block has extra instructions")
            out[ren[bid]] = ("ANone", term_of(rb, "COrig 0"))
    info = f.get("info") or []
    if [p[0] for p in info] != keys or [p[1] for p in info] != [after[c].get("cmp_int") for c in chain][:len(info)]:
        notes.append("dispatcherInfo does not list the stored/compared constants")
    return keys, out, notes


def raw_after(f):
    """The dumped result without assuming the dispatcher shape (ids as dumped): used to execute it."""
    n = len(f["before"])
    entry = f["after"][0]
    fakes = entry["preds"] if entry.get("phi_ints") else []
    keys = entry.get("phi_ints") or []
    size = max(b["id"] for b in f["after"]) + 1
    out = [("ANone", "TPanic")] * size
    for b in f["after"]:
        bid = b["id"]
        if bid < n:
            out[bid] = ("AOrig %d" % bid, term_of(b, "COrig %d" % bid))
        elif bid in fakes and fakes.index(bid) < len(keys):
            out[bid] = ("ASetKey %d" % keys[fakes.index(bid)], term_of(b, "COrig 0"))
        elif b["term"] == "if" and b.get("cmp_phi"):
            out[bid] = ("ANone", term_of(b, "CKeyEq %d" % b.get("cmp_int", 0)))
        else:
            out[bid] = ("ANone", term_of(b, "COrig 0"))
    return entry["id"], out


HEADER = """From Verif Require Import Base.Bytes Model.Flatten.
Open Scope N_scope.
Definition mkb (a : action) (t : term) : block := {| baction := a; bterm := t |}.
(* free interpretation: the state is the list of executed original blocks; a branch depends on the block, the history length and a salt *)
Definition tact (a : nat) (s : list nat) : list nat := a :: s.
Definition tcond (salt : nat) (c : nat) (s : list nat) : bool := Nat.odd (Nat.div (c * 7 + length s * 13 + salt * 5 + Nat.modulo (length s * length s) 11) 3).
Definition differs (salt : nat) (g real : cfg) (entry : nat) : bool :=
  match run (list nat) tact (tcond salt) g 400 (0%nat, 0, []) with
  | None => false
  | Some r => match run (list nat) tact (tcond salt) real 40000 (entry, 0, []) with
              | Some r' => negb (Nat.eqb (fst r) (fst r') && forallb (fun p => Nat.eqb (fst p) (snd p)) (combine (snd r) (snd r')) && Nat.eqb (length (snd r)) (length (snd r')))
              | None => true
              end
  end.
"""


def run(res, garble, tier, seed):
    """Returns the number of function instances compared."""
    rng = random.Random(seed * 7919 + 11)
    nrand = 12 if tier == "quick" else 150
    nseeds = 3 if tier == "quick" else 12
    sources = [("catalogue", CATALOGUE)]
    for i in range(0, nrand, 6):
        sources.append(("random-%d" % i, "package p\n" + "".join(gen_func(rng, "f%d" % (i + j)) for j in range(6))))
    oracle = names_common.Oracle(garble)
    reqs, meta = [], []
    for sname, src in sources:
        for k in range(nseeds):
            sd = rng.randrange(1, 2**40)
            reqs.append({"op": "cfdump", "s": src, "s2": "flatten", "name": str(sd)})
            meta.append((sname, src, sd))
    outs = oracle.batch(reqs)
    cases, cmeta, sizes, skipped = [], [], [], 0
    for (sname, src, sd), o in zip(meta, outs):
        if "funcs" not in o:
            raise RuntimeError("cfdump failed on %s: %s" % (sname, json.dumps(o)[:500]))
        for f in o["funcs"]:
            where = {"source": src, "function": f["name"], "generator_seed": sd, "pass": "flatten"}
            if f.get("panic"):
                res.violation("flatten-panic:%s" % f["name"], "applyFlattening panics on function %s (generator seed %d)" % (f["name"], sd), where)
                continue
            n = len(f["before"])
            if not f["ok"]:
                # fewer than three blocks: the function must be left alone
                if n >= 3 or f["after"] != f["before"]:
                    res.violation("flatten-skip:%s" % f["name"], "applyFlattening reports no dispatcher for %s (%d blocks) or changed it anyway" % (f["name"], n), where)
                skipped += 1
                continue
            g = before_graph(f)
            try:
                keys, real, notes = canonical_after(f)
            except ValueError as e:
                keys, real, notes = [], [], [str(e)]
            entry_id, raw = raw_after(f)
            cases.append("(%s, %s, %s, %s, %d%%nat)" % ("[" + "; ".join(str(k) for k in keys) + "]", coq_cfg(g), coq_cfg(real), coq_cfg(raw), entry_id))
            cmeta.append((where, notes, f))
            sizes.append(n)
    bad = vlib.coq_eval_cases("cfgraph", HEADER, "list N * cfg * cfg * cfg * nat", cases,
                              "(fun c => let '(keys, g, real, raw, e) := c in negb (hyps_okb keys g && cfg_eqb (flatten keys g) real))", chunk=60)
    flagged = sorted(set(bad) | {i for i, (_, notes, _) in enumerate(cmeta) if notes})
    if flagged:
        # search for an execution on which the real result differs from the input
        sub = [cases[i] for i in flagged]
        witnesses = {}
        for salt in range(6):
            d = vlib.coq_eval_cases("cfdiff%d" % salt, HEADER, "list N * cfg * cfg * cfg * nat", sub,
                                    "(fun c => let '(keys, g, real, raw, e) := c in differs %d g raw e)" % salt, chunk=20)
            for j in d:
                witnesses.setdefault(flagged[j], salt)
        for i in flagged[:6]:
            where, notes, f = cmeta[i]
            desc = "; ".join(notes) if notes else "the graph applyFlattening produced is not Model/Flatten.v's flatten of its input (or its keys are not distinct and non-zero)"
            replay = dict(where, dump=f, notes=notes, obligation="hyps_okb keys g && cfg_eqb (flatten keys g) real (theorem C11_flatten_checked_instance)")
            if i in witnesses:
                replay["trace_interpretation_salt"] = witnesses[i]
                res.violation("flatten-graph:%s" % where["function"], "applyFlattening on %s (generator seed %d): %s; under the trace interpretation with salt %d the result "
                              "executes different blocks than the input" % (where["function"], where["generator_seed"], desc, witnesses[i]), replay)
            else:
                res.violation("flatten-graph:%s" % where["function"], "applyFlattening on %s (generator seed %d): %s" % (where["function"], where["generator_seed"], desc),
                              replay, found_input=False)
    res.cov["flatten_graph_instances"] = len(cases)
    res.cov["flatten_graph_skipped_small"] = skipped
    res.cov["flatten_graph_block_counts"] = {"min": min(sizes) if sizes else 0, "max": max(sizes) if sizes else 0,
                                             "mean": round(sum(sizes) / max(1, len(sizes)), 1)}
    return len(cases)
