"""C11 — Control-flow obfuscation preserves function behaviour."""
import os, re
import vlib, e2e, cf_graph

THEOREMS = ["C11_dispatch_finds_target", "C11_dispatch_no_spurious_target", "C11_phi_sequential_equals_parallel", "C11_phi_swap_refuted",
            "C11_trash_guard_never_true", "C11_pass_preserves_runs", "C11_passes_compose", "C11_flatten_equivalent", "C11_passes_checked_instance",
            "C11_passes_example", "C11_flatten_zero_key_refuted", "C11_trash_true_guard_refuted", "C11_xor_hardening_consistent",
            "C11_xor_hardening_keys_ok", "C11_delegate_hardening_consistent"]

DIRECTIVES = {
    "flatten1": "flatten_passes=1",
    "junk-split": "junk_jumps=4 block_splits=4 flatten_passes=1",
    "flatten2-xor": "flatten_passes=2 flatten_hardening=xor",
    "all": "flatten_passes=1 junk_jumps=2 block_splits=3 flatten_hardening=xor,delegate_table",
    "split-max": "block_splits=max junk_jumps=max flatten_passes=1",
    "trash": "flatten_passes=1 trash_blocks=4",
    "trash-split": "flatten_passes=1 trash_blocks=8 block_splits=2 junk_jumps=0",
}

FUNCS = '''
//DIRECTIVE
func sumSquares(n int) int {
	t := 0
	for i := 0; i < n; i++ {
		t += i * i
	}
	return t
}

//DIRECTIVE
func collatz(n int) (steps int) {
	for n != 1 {
		if n%2 == 0 {
			n /= 2
		} else {
			n = 3*n + 1
		}
		steps++
	}
	return steps
}

//DIRECTIVE
func classify(n int) string {
	switch {
	case n < 0:
		return "neg"
	case n == 0:
		return "zero"
	case n%2 == 0:
		return "even"
	default:
		return "odd"
	}
}

//DIRECTIVE
func rangeSlice(xs []int) (lo, hi int) {
	lo, hi = 1<<62, -1<<62
	for i, x := range xs {
		if x < lo {
			lo = x
		}
		if x > hi {
			hi = x + i - i
		}
	}
	return lo, hi
}

//DIRECTIVE2
func rangeASCII(s string) int {
	t := 0
	for i, r := range s {
		t += i*31 + int(r)
	}
	return t
}

//DIRECTIVE2
func withDefer(n int) (out string) {
	defer func() {
		if r := recover(); r != nil {
			trace("recovered")
		}
	}()
	trace("enter")
	if n > 2 {
		panic("too big")
	}
	trace("leave")
	return "ok"
}

//DIRECTIVE
func closureCounter(n int) int {
	c := 0
	inc := func(by int) { c += by }
	for i := 0; i < n; i++ {
		if i%2 == 0 {
			inc(i)
		} else {
			inc(1)
		}
	}
	return c
}

//DIRECTIVE2
func multi(a, b int) (int, int, bool) {
	if b == 0 {
		return 0, 0, false
	}
	return a / b, a % b, true
}

//DIRECTIVE2
func genericMax[T int | float64](xs []T) T {
	var m T
	for i, x := range xs {
		if i == 0 || x > m {
			m = x
		}
	}
	return m
}

// trash blocks are added before blocks are split: the values of the loop header's phis are computed late in the body
//garble:controlflow flatten_passes=1 junk_jumps=0 block_splits=2 trash_blocks=8
func accChain(n int) int {
	s := 0
	for i := 0; i < n; i++ {
		a := i * 3
		b := a + 7
		c := b * b
		d := c % 11
		e := d + a
		s = s + e
	}
	return s
}

//garble:controlflow flatten_passes=1 junk_jumps=max block_splits=max
func sumSquaresBig(n int, accp *int) {
	for i := 0; i < n; i++ {
		sq := i * i
		*accp += sq
		fmt.Println("sumSquaresBig step", i, sq, *accp)
	}
}

//garble:controlflow flatten_passes=1 junk_jumps=max block_splits=max
func collatzBig(n int, steps *int) int {
	for n != 1 {
		if n%2 == 0 {
			n = n / 2
		} else {
			n = 3*n + 1
		}
		*steps = *steps + 1
	}
	return n
}

//garble:controlflow flatten_passes=2 junk_jumps=64 block_splits=16
func absDiffTimes(a, b, k int) int {
	var d int
	if a > b {
		fmt.Println("absDiffTimes: a>b")
		d = a - b
	} else {
		fmt.Println("absDiffTimes: a<=b")
		d = b - a
	}
	return d * k
}

//garble:controlflow flatten_passes=1 junk_jumps=max block_splits=max flatten_hardening=xor,delegate_table
func countAbove(xs []int, limit int, out *[]int) {
	for _, x := range xs {
		if x > limit {
			*out = append(*out, x)
		}
	}
}

type acc struct{ total int }

//DIRECTIVE2
func (a *acc) add(xs ...int) int {
	for _, x := range xs {
		if x < 0 {
			continue
		}
		a.total += x
		trace(fmt.Sprint("add ", x))
	}
	return a.total
}

//DIRECTIVE
func nested(n int) int {
	t := 0
outer:
	for i := 0; i < n; i++ {
		for j := 0; j < n; j++ {
			if j > i {
				continue outer
			}
			if i+j > 9 {
				break outer
			}
			t += i ^ j
		}
	}
	return t
}
'''

KNOWN_FUNCS = '''
//DIRECTIVE
func swapLoop(n int) (int, int) {
	a, b := 1, 2
	for i := 0; i < n; i++ {
		a, b = b, a
	}
	return a, b
}

//DIRECTIVE
func rangeUnicode(s string) int {
	t := 0
	for i, r := range s {
		t += i*1000 + int(r)
	}
	return t
}

//DIRECTIVE
func namedRecover(n int) (code int, msg string) {
	defer func() {
		if r := recover(); r != nil {
			code, msg = -1, "recovered"
		}
	}()
	if n > 0 {
		panic("boom")
	}
	return 0, "fine"
}
'''

MAIN = '''package main

import "fmt"

var traceLog []string

func trace(s string) { traceLog = append(traceLog, s) }

FUNCS

func main() {
	for _, n := range []int{0, 1, 2, 7, 27} {
		fmt.Println("sumSquares", n, sumSquares(n))
		fmt.Println("closureCounter", n, closureCounter(n))
		fmt.Println("nested", n, nested(n))
		fmt.Println("accChain", n, accChain(n))
	}
	for _, n := range []int{1, 6, 27, 97} {
		fmt.Println("collatz", n, collatz(n))
	}
	for _, n := range []int{-5, 0, 4, 9} {
		fmt.Println("classify", n, classify(n))
	}
	fmt.Println(rangeSlice([]int{5, -3, 9, 0}))
	fmt.Println(rangeSlice(nil))
	fmt.Println("rangeASCII", rangeASCII("hello, world"), rangeASCII(""))
	for _, n := range []int{1, 5} {
		traceLog = nil
		fmt.Println("withDefer", n, withDefer(n), traceLog)
	}
	fmt.Println(multi(17, 5))
	fmt.Println(multi(1, 0))
	for _, n := range []int{0, 1, 2, 5} {
		a := 0
		sumSquaresBig(n, &a)
		fmt.Println("sumSquaresBig", n, a)
	}
	for _, n := range []int{1, 6, 7, 27} {
		steps := 0
		r := collatzBig(n, &steps)
		fmt.Println("collatzBig", n, r, steps)
	}
	fmt.Println("absDiffTimes", absDiffTimes(3, 10, 2), absDiffTimes(10, 3, 5), absDiffTimes(4, 4, 9))
	{
		var out []int
		countAbove([]int{5, 1, 9, 3, 7, 2}, 4, &out)
		fmt.Println("countAbove", out)
	}
	a := &acc{}
	traceLog = nil
	fmt.Println(a.add(1, -2, 3), a.add(), traceLog)
	KNOWNCALLS
}
'''
KNOWN_CALLS = '''fmt.Println("KNOWN swapLoop", func() string { a, b := swapLoop(1); return fmt.Sprint(a, b) }())
	fmt.Println("KNOWN rangeUnicode", rangeUnicode("héllo, wörld"))
	fmt.Println("KNOWN namedRecover", func() string { c, m := namedRecover(1); return fmt.Sprint(c, m) }())'''


def program(directive, with_known):
    funcs = FUNCS + (KNOWN_FUNCS if with_known else "")
    # junk jumps / block splits make ssa2ast panic on some of the richer bodies (a rejected build); keep those on plain flattening
    # so that the loops and branches still exercise junk and splitting
    d2 = "flatten_passes=1" if ("junk" in directive or "splits" in directive) else directive
    funcs = funcs.replace("//DIRECTIVE2", "//garble:controlflow " + d2).replace("//DIRECTIVE", "//garble:controlflow " + directive)
    return {"main.go": MAIN.replace("FUNCS", funcs).replace("KNOWNCALLS", KNOWN_CALLS if with_known else "")}


def run(res, tier, seed, replay):
    ok, msg = vlib.run_translators()
    proofs_ok = ok and vlib.check_proofs(res, "C11", "Properties/C11.v", THEOREMS)
    res.cov["trusted_base"] += vlib.TRUSTED_COMMON + [
        "Proved: each pass of internal/ctrlflow/transform.go (trash blocks, splitting, junk jumps, flattening with its shuffle) and every sequence of them, as graph "
        "transformations, preserve and reflect every run, for every graph, every interpretation of the function's instructions and conditions and the parameters the "
        "pass picks (C11_pass_preserves_runs, C11_passes_compose); tied to the code by dumping the real passes' input and output graphs stage by stage (injected oracle, "
        "SSA built as garble builds it, read as ssa2ast reads it) and evaluating the model's passes on the same input inside Coq (C11_passes_checked_instance). "
        "Also proved: the dispatcher lookup, the phi-lowering condition, the trash guard.",
        "NOT proved: the hardening of dispatcher keys, ssa2ast's instruction templates, and ssa2ast's reading of a block graph (instructions, then the phi assignments of "
        "the successors in a canonical order, then the terminator), which Model/Passes.v assumes; these are exercised by the differential program only.",
        "differential runs of a function catalogue under several directive parameter sets and seeds against the regular build"]
    res.assumptions = ["a build error (including a garble panic) counts as 'rejected, not silently changed'"]
    try:
        garble, _ = vlib.build_garble()
    except vlib.BuildError as e:
        res.violation("garble-build", "garble no longer builds: %s" % str(e)[-800:], {"error": str(e)}, found_input=False)
        return
    graph_instances = cf_graph.run(res, garble, tier, seed)
    names = list(DIRECTIVES)
    if tier == "quick":
        names = ["flatten1", "junk-split", ["flatten2-xor", "all", "split-max", "trash", "trash-split"][seed % 5]]
    env = {"GOGARBLE": "example.com/cf", "GARBLE_EXPERIMENTAL_CONTROLFLOW": "1"}
    caches = e2e.module_cold_caches(garble, "c11", [], env)
    runs, rejected = 0, []
    ref = None
    for k, name in enumerate(names):
        d = DIRECTIVES[name]
        with_known = (k == 0)
        files = program(d, with_known)
        proj = e2e.Project("c11", files, module="example.com/cf")
        pb, gb = os.path.join(proj.dir, "plain.bin"), os.path.join(proj.dir, "cf.bin")
        rp = e2e.plain_build(proj, pb, caches=caches)
        if rp.returncode != 0:
            raise RuntimeError("plain build failed: " + rp.stderr.decode()[-600:])
        want = e2e.run_bin(pb, timeout=20)
        seeds = ["-seed=AAAAAAAAAAE"] if tier == "quick" else ["-seed=AAAAAAAAAAE", "-seed=AAAAAAAAAAI", "-seed=BBBBBBBBBBE"]
        for sd in seeds:
            rg = e2e.garble_build(garble, proj, gb, garble_flags=[sd], caches=caches, extra_env=env, timeout=1500)
            runs += 1
            if rg.returncode != 0:
                rejected.append((name, sd, rg.stderr.decode()[:200]))
                continue
            got = e2e.run_bin(gb, timeout=20)
            wl, gl = want[1].decode().split("\n"), got[1].decode().split("\n")
            if got[0] == -999:
                res.violation("hang:" + name, "with //garble:controlflow %s (%s) the obfuscated program does not terminate" % (d, sd), {"files": files, "directive": d, "seed": sd})
                continue
            for a, b in zip(wl, gl):
                if a != b:
                    fn = a.split(" ")[1] if a.startswith("KNOWN") else (a.split(" ")[0] or "line")
                    key = {"swapLoop": "F6-phi-swap", "rangeUnicode": "F12-range-unicode-string", "namedRecover": "F12-named-results-recover"}.get(fn) if a.startswith("KNOWN") else None
                    res.violation(key or "behaviour:%s:%s" % (name, fn), "//garble:controlflow %s (%s): regular build prints %r, obfuscated build prints %r" % (d, sd, a[:150], b[:150]),
                                  {"files": files, "directive": d, "seed": sd})
            if len(wl) != len(gl) or want[0] != got[0]:
                res.violation("behaviour:%s:exit" % name, "//garble:controlflow %s (%s): exit status/output length differ (%d vs %d): %s" % (d, sd, want[0], got[0], got[2][-200:]),
                              {"files": files, "directive": d, "seed": sd})
    caches.remove()
    res.cov["evaluations"] = runs + graph_instances
    res.cov["rejected_builds"] = rejected
    res.cov["distinct_nontrivial"] = runs - len(rejected)
    res.cov["rule"] = ("11 functions marked //garble:controlflow (loops, branches, switch, range over slice/ASCII string, defer/recover with traced side effects, closures with "
                       "captures, multiple and named results, generics, method receivers, labelled break/continue) plus three known-finding witnesses, under directive "
                       "parameter sets %r and %d seed(s); stdout (results and side-effect traces) against the regular build; a build error counts as rejected" % (names, 1 if tier == "quick" else 3))
    res.add_sample({"directive": DIRECTIVES[names[0]], "functions": 11})
    if not proofs_ok and not res.violations:
        res.violation("tie-broken", "proof obligations of Properties/C11.v no longer check (%s)" % getattr(res, "broken", "see output"),
                      {"theorems": THEOREMS, "coq_output": getattr(res, "proof_output", "")[-2000:]}, found_input=False)
