"""C02 — The binary carries no original names, paths, positions or build metadata."""
import json, os, re, shlex, shutil, struct, subprocess
import vlib, e2e

THEOREMS = ["C02_trimpath_tempdir_first_bare", "C02_everything_else_is_hashed", "C02_hashed_names_are_digest_text", "C02_link_flags_strip", "C02_trimpath_tempdir_first"]

M = "Qzxj"   # marker stem


def name_shape_dictionary():
    """Identifier fragments that garble's own renaming decision compares names with (string literals of
    obfuscatedObjectName in /repo's current transformer.go): used as prefixes and suffixes of marker names,
    so that a decision keyed on the shape of a name is exercised whatever the shapes currently are."""
    try:
        src = open(os.path.join(vlib.REPO, "transformer.go")).read()
        i = src.index("func (tf *transformer) obfuscatedObjectName(")
        j = src.find("\nfunc ", i + 10)
        body = src[i:j if j > 0 else len(src)]
    except (OSError, ValueError):
        body = ""
    lits = sorted(set(re.findall(r'"([A-Za-z_][A-Za-z0-9_]{0,20})"', body)))
    return lits or ["SET"]


def shape_decls(tag, shapes):
    """(declarations for the library file, a Go expression using all of them, the marker names)"""
    decls, uses, names = [], [], []
    for k, sh in enumerate(shapes):
        sfx_f, pfx_f = "sfxfn%s%s" % (tag, sh), "%spfxfn%s" % (sh, tag)
        sfx_t, sfx_fld, sfx_m = "sfxty%s%s" % (tag, sh), "sfxfld%s%s" % (tag, sh), "sfxmeth%s%s" % (tag, sh)
        exp_t = "Sfxexp%s%s" % (tag, sh)
        decls.append("//go:noinline\nfunc %s(n int) int { return n + %d }\n\n//go:noinline\nfunc %s(n int) int { return n * %d }\n" % (sfx_f, k + 1, pfx_f, k + 2))
        decls.append("type %s struct{ %s int }\n\n//go:noinline\nfunc (v %s) %s() int { return v.%s + %d }\n\ntype %s []int\n" % (sfx_t, sfx_fld, sfx_t, sfx_m, sfx_fld, k, exp_t))
        uses.append("%s(n) + %s(n) + %s{%s: n}.%s() + len(%s{n})" % (sfx_f, pfx_f, sfx_t, sfx_fld, sfx_m, exp_t))
        names += [sfx_f, pfx_f, sfx_t, sfx_fld, sfx_m, exp_t]
    return "\n".join(decls), " + ".join(uses) or "0", names


def marker_module(tag, shapes=()):
    """A module whose every nameable position carries a unique marker; nothing is passed to reflection."""
    sdecls, suse, snames = shape_decls(tag, shapes)
    files = {
        "go.mod": "module modmarker%s.example/rootpkg%s\n\ngo 1.26\n" % (tag, tag),
        "mainfile%s.go" % tag: '''package main

import (
	"os"
	"modmarker%(t)s.example/rootpkg%(t)s/dirmarker%(t)s"
)

type mainType%(t)s struct{ mainField%(t)s int }

func (m mainType%(t)s) unexpMethod%(t)s() int { return m.mainField%(t)s * 2 }

var mainVar%(t)s = mainType%(t)s{21}

//go:noinline
func mainFunc%(t)s(n int) int { return n + mainVar%(t)s.unexpMethod%(t)s() }

func main() {
	r := mainFunc%(t)s(len(os.Args)) + pkgmarker%(t)s.ExportedFunc%(t)s(3) + pkgmarker%(t)s.ExportedVar%(t)s.ExpField%(t)s
	println(r)
	if r < 0 {
		panic("unreachable")
	}
}
''' % {"t": tag},
        "dirmarker%s/libfile%s.go" % (tag, tag): '''package pkgmarker%(t)s

type ExportedType%(t)s struct {
	ExpField%(t)s   int
	unexpField%(t)s int
}

type unexpType%(t)s struct{ inner%(t)s []int }

var ExportedVar%(t)s = ExportedType%(t)s{ExpField%(t)s: 5, unexpField%(t)s: 6}

var unexpVar%(t)s = &unexpType%(t)s{inner%(t)s: []int{1, 2, 3}}

//go:noinline
func (u *unexpType%(t)s) unexpLibMethod%(t)s(k int) int { return u.inner%(t)s[k%%3] + ExportedVar%(t)s.unexpField%(t)s }

//go:noinline
func unexpFunc%(t)s(n int) int { return unexpVar%(t)s.unexpLibMethod%(t)s(n) }

//go:noinline
func ExportedFunc%(t)s(n int) int { return unexpFunc%(t)s(n) + 1 + shapes%(t)s(n) }

//go:noinline
func shapes%(t)s(n int) int { return %(suse)s }

%(sdecls)s
''' % {"t": tag, "suse": suse, "sdecls": sdecls},
    }
    must_go = ["mainType" + tag, "mainField" + tag, "unexpMethod" + tag, "mainVar" + tag, "mainFunc" + tag,
               "ExportedType" + tag, "ExpField" + tag, "unexpField" + tag, "unexpType" + tag, "inner" + tag, "ExportedVar" + tag, "unexpVar" + tag,
               "unexpLibMethod" + tag, "unexpFunc" + tag, "ExportedFunc" + tag,
               "pkgmarker" + tag, "modmarker" + tag, "rootpkg" + tag, "dirmarker" + tag, "mainfile" + tag, "libfile" + tag, "shapes" + tag] + snames
    return files, must_go


def elf_sections(path):
    data = open(path, "rb").read()
    if data[:4] != b"\x7fELF" or data[4] != 2:
        return None
    shoff = struct.unpack_from("<Q", data, 0x28)[0]
    shentsize, shnum, shstrndx = struct.unpack_from("<HHH", data, 0x3A)
    secs = []
    for i in range(shnum):
        off = shoff + i * shentsize
        name_off, = struct.unpack_from("<I", data, off)
        sh_offset, sh_size = struct.unpack_from("<QQ", data, off + 0x18)
        secs.append((name_off, sh_offset, sh_size))
    stroff = secs[shstrndx][1]
    names = []
    for name_off, _, _ in secs:
        end = data.index(b"\0", stroff + name_off)
        names.append(data[stroff + name_off:end].decode())
    return names


def run(res, tier, seed, replay):
    ok, msg = vlib.run_translators()
    proofs_ok = ok and vlib.check_proofs(res, "C02", "Properties/C02.v", THEOREMS)
    res.cov["trusted_base"] += vlib.TRUSTED_COMMON + [
        "`garble -debug` log lines 'transforming link with args' / 'transformed args for link' as the observation of the linker command line",
        "byte scan of the produced ELF binary; a small ELF section-header parser; `go version -m`, `go tool buildid`",
        "NOT carried by a theorem: what the compiler and linker put into a binary given those inputs (the scan covers the instances built)"]
    res.assumptions = ["marker types are never passed to reflection (names that reach reflection are a documented exception)"]
    try:
        garble, _ = vlib.build_garble()
    except vlib.BuildError as e:
        res.violation("garble-build", "garble no longer builds: %s" % str(e)[-800:], {"error": str(e)}, found_input=False)
        return
    shapes = name_shape_dictionary()
    res.cov["name_shapes_from_source"] = shapes
    all_cfgs = [[], ["-tiny"], ["-seed=AAAAAAAAAAE"], ["-literals"]]
    cfgs = [[], all_cfgs[1 + seed % 3]] if tier == "quick" else all_cfgs
    caches = e2e.Caches("c02")
    lits = []
    scanned = 0
    link_lines = 0
    for ci, gflags in enumerate(cfgs):
        tag = M + "abcdefgh"[ci]
        files, must_go = marker_module(tag, shapes)
        srcroot = vlib.sub("c02-%d" % ci)
        pdir = os.path.join(srcroot, "srcdir" + tag)
        shutil.rmtree(pdir, ignore_errors=True)
        os.makedirs(pdir)
        proj = e2e.Project.__new__(e2e.Project)
        proj.dir = pdir
        for rel, content in files.items():
            p = os.path.join(pdir, rel)
            os.makedirs(os.path.dirname(p), exist_ok=True)
            open(p, "w").write(content)
        # TMPDIR inside the source directory for the first configuration, outside for the others
        tmpd = os.path.join(pdir, "tmpdir" + tag) if ci == 0 else os.path.join(srcroot, "tmpdir" + tag)
        os.makedirs(tmpd, exist_ok=True)
        gb = os.path.join(srcroot, "garbled.bin")
        rg = e2e.garble_build(garble, proj, gb, garble_flags=["-debug"] + gflags, caches=caches, extra_env={"TMPDIR": tmpd}, timeout=1500)
        cfgname = " ".join(gflags) or "default"
        if rg.returncode != 0:
            res.violation("build-fails:" + cfgname, "garble %s build of the marker module fails: %s" % (gflags, rg.stderr.decode()[-500:]), {"files": files, "flags": gflags})
            continue
        rcode, out, err = e2e.run_bin(gb)
        if rcode != 0 or out.strip() != b"" and False:
            res.violation("marker-run:" + cfgname, "marker program fails to run: %r" % (err[-200:],), {"files": files, "flags": gflags})
        # ---- binary scan
        needles = must_go + ["srcdir" + tag, "tmpdir" + tag, "garble-shared"]
        present = e2e.contains(gb, needles)
        scanned += len(needles)
        for m in present:
            res.violation("leak:%s:%s" % (cfgname, m[:-len(tag)] if m.endswith(tag) else m), "garble %s build: the binary contains %r" % (gflags, m),
                          {"files": files, "flags": gflags, "marker": m, "tmpdir_inside_source": ci == 0})
        # ---- build metadata
        env = caches.env()
        vm = vlib.run(["go", "version", "-m", gb], env=env)
        txt = (vm.stdout + vm.stderr).decode()
        if re.search(r"\bgo1\.\d+", txt) or "mod\t" in txt or "path\t" in txt or "vcs" in txt:
            res.violation("buildinfo:" + cfgname, "`go version -m` finds build information in the garbled binary: %r" % txt[:300], {"files": files, "flags": gflags})
        bi = vlib.run(["go", "tool", "buildid", gb], env=env)
        if bi.stdout.strip():
            res.violation("buildid:" + cfgname, "the garbled binary carries a build id: %r" % bi.stdout.strip()[:80], {"files": files, "flags": gflags})
        data = open(gb, "rb").read()
        if re.search(rb"go1\.\d+(\.\d+)?", data):
            res.violation("goversion:" + cfgname, "the garbled binary contains the Go version string %r" % re.search(rb"go1\.\d+(\.\d+)?", data).group(0), {"files": files, "flags": gflags})
        secs = elf_sections(gb) or []
        bad_secs = [s for s in secs if s in (".symtab", ".strtab") or s.startswith(".debug_") or s.startswith(".zdebug_")]
        if bad_secs:
            res.violation("sections:" + cfgname, "the garbled binary has symbol/DWARF sections %r" % bad_secs, {"files": files, "flags": gflags})
        # ---- the linker and compiler command lines, from the -debug log
        log = rg.stderr.decode(errors="replace")
        before = re.findall(r"transforming link with args: (.*)", log)
        after = re.findall(r"transformed args for link in \S+: (.*)", log)
        shared = re.findall(r"shared cache loaded in \S+ from (\S+)/main-cache\.bin", log)
        if before and after:
            b, a = before[-1].split(" "), after[-1].split(" ")
            link_lines += 1
            # split the original into flags/args like the model, and find the -X duplicates garble added
            try:
                xi = a.index("-X=runtime.buildVersion=unknown")
            except ValueError:
                xi = None
            if xi is None or a.count("-w") < 1 or a.count("-s") < 1 or not any(t == "-buildid=" for t in a) or any(t.startswith("-buildid=") and t != "-buildid=" for t in a):
                res.violation("link-argv:" + cfgname, "the linker command line lacks -w/-s/-X=runtime.buildVersion=unknown or keeps a build id: %r" % a[-12:],
                              {"files": files, "flags": gflags, "link_argv": a})
            sl = lambda l: "[" + ";".join(vlib.nlist(x.encode()) for x in l) + "]"
            newcfg = a[a.index("-importcfg") + 1] if "-importcfg" in a else ""
            lits.append("(%s, %s, %s)" % (sl(b), sl(a), vlib.nlist(newcfg.encode())))
        comp = re.findall(r"transformed args for compile in \S+: (.*)", log)
        for line in comp:
            toks = line.split(" ")
            tp = [t for t in toks if t.startswith("-trimpath=")]
            if "-trimpath" in toks:
                tp = ["-trimpath=" + toks[toks.index("-trimpath") + 1]]
            if "-dwarf=false" not in toks:
                res.violation("compile-dwarf:" + cfgname, "a compile command line lacks -dwarf=false", {"argv": toks[:20]})
            # cmd/go shortens paths in tool output (./..., $WORK), so compare the directory's base name
            first = tp[0][len("-trimpath="):].split(";")[0] if tp else ""
            if shared and tp and not (first.endswith(os.path.basename(shared[0]) + "=>")):
                res.violation("compile-trimpath:" + cfgname, "garble's temporary directory is not first in -trimpath: %r" % tp[0][:200], {"argv": toks[:20]})
            for t in toks:
                if t.startswith("-p=") or t == "-p":
                    pass
            if ("-p" in toks and any(m in toks[toks.index("-p") + 1] for m in ("pkgmarker" + tag, "modmarker" + tag))):
                res.violation("compile-p:" + cfgname, "a compile command line passes the original import path with -p", {"argv": toks[:20]})
    caches.remove()
    # ---- correspondence of the link flag surgery with the model
    header = ("From Verif Require Import Base.Bytes Model.Flags Model.FlagsGen Model.LinkFlags.\nOpen Scope N_scope.\n"
              "Definition eqsl (a b : list str) : bool := beq (concat (map (fun s => 0 :: s) a)) (concat (map (fun s => 0 :: s) b)) && Nat.eqb (length a) (length b).\n"
              "Fixpoint after_last_dash (l acc : list str) : list str := match l with [] => acc | x :: r => if starts_dash x then after_last_dash r r else after_last_dash r acc end.\n")
    # the model: split the original args with the model's splitter, apply transform_link_flags with the observed duplicates (none here) and cfg
    check = ("(fun c => match c with (b, a, newcfg) => let '(f, args) := split_flags bools b in "
             "negb (eqsl (transform_link_flags f [] newcfg ++ args) a) end)")
    bad = vlib.coq_eval_cases("c02a", header, "list str * list str * str", lits, check) if lits else []
    res.cov["evaluations"] = scanned + link_lines
    res.cov["distinct_nontrivial"] = scanned
    res.cov["markers_scanned"] = scanned
    res.cov["link_command_lines"] = link_lines
    res.cov["rule"] = ("marker module (unique markers in every nameable position: package-level funcs/types/vars, exported and unexported, methods, "
                       "fields, package/module/directory/file names, source dir, TMPDIR inside and outside the source dir) built under %d configuration(s); "
                       "binary scanned for every marker, Go version, build id, module info, symbol/DWARF sections; linker/compiler command lines from "
                       "`garble -debug` compared with LinkFlags.transform_link_flags in Coq" % len(cfgs))
    res.add_sample({"markers": ["mainType" + M + "a", "pkgmarker" + M + "a", "srcdir" + M + "a"], "configs": [" ".join(c) or "default" for c in cfgs]})
    if (bad or not proofs_ok) and not res.violations:
        what = []
        if not proofs_ok:
            what.append("proof obligations of Properties/C02.v no longer check (%s)" % getattr(res, "broken", "see output"))
        if bad:
            what.append("the observed linker command line differs from LinkFlags.transform_link_flags on %d builds" % len(bad))
        res.violation("tie-broken", "; ".join(what), {"theorems": THEOREMS, "cases": lits[:2]}, found_input=False)
