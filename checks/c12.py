"""C12 — Name salting: fixed by -seed, otherwise tied to the build inputs."""
import concurrent.futures, hashlib, json, os
import vlib, e2e
from names_common import *

THEOREMS = ["C12_seeded_name_depends_only_on", "C12_seeded_field_depends_only_on", "C12_seeded_input_injective",
            "C12_unseeded_input_injective", "C12_unseeded_field_salt", "C12_hash_input_ambiguous_refuted"]


def cfg_lit(c):
    return ("{| c_literals := %s; c_tiny := %s; c_ctrlflow := %s; c_seed := %s; c_gogarble := %s; c_binary_id := %s; c_testobf := [] |}"
            % (vlib.coq_bool(c["literals"]), vlib.coq_bool(c["tiny"]), vlib.coq_bool(c["ctrlflow"]), vlib.nlist(c["seed"]),
               vlib.nlist(c["gogarble"].encode()), vlib.nlist(c["binary_id"])))


def expected_salt_input(c, aid):
    s = aid + c["binary_id"] + b" GOGARBLE=" + c["gogarble"].encode()
    if c["literals"]:
        s += b" -literals"
    if c["tiny"]:
        s += b" -tiny"
    if c["seed"]:
        s += b" -seed=" + std_b64(c["seed"]).encode()
    if c["ctrlflow"]:
        s += b" -ctrlflow"
    return s


def run(res, tier, seed, replay):
    r = vlib.rng(seed)
    ok, msg = vlib.run_translators()
    proofs_ok = ok and vlib.check_proofs(res, "C12", "Properties/C12.v", THEOREMS)
    res.cov["trusted_base"] += vlib.TRUSTED_COMMON + [
        "python hashlib.sha256 for digests (the Coq SHA-256 model is validated against the implementation in C16)",
        "stub go: package records with chosen BuildIDs; `garble map` as the observation of names; real toolchain for one edit history"]
    res.assumptions = ["cmd/go's action ID of a package covers its source, tags, GOOS/GOARCH and Go version (the go command's own contract)"]
    try:
        garble, _ = vlib.build_garble()
    except vlib.BuildError as e:
        res.violation("garble-build", "garble no longer builds: %s" % str(e)[-800:], {"error": str(e)}, found_input=False)
        return
    stub = vlib.Stub()
    groups = 4 if tier == "quick" else 30
    runs = []   # (group, variant name, cfg, pkgs[(path, aid, names)])
    for gi in range(groups):
        names = []
        while len(names) < 12:
            n = gen_ident(r)
            if n not in names and n not in ("main", "init", "_") and not n.startswith("Test"):
                names.append(n)
        paths = ["example.com/g%d/p" % gi, "example.com/g%d/q" % gi]
        dirs = []
        for pi, ip in enumerate(paths):
            d = os.path.join(stub.dir, "c12", "g%d" % gi, "p%d" % pi)
            os.makedirs(d, exist_ok=True)
            with open(os.path.join(d, "a.go"), "w") as f:
                f.write("package p\n\n" + "".join("type %s int\n" % n for n in names))
            dirs.append(d)
        aids = [bytes(r.randrange(256) for _ in range(15)) for _ in paths]
        base = {"literals": False, "tiny": False, "ctrlflow": False, "seed": b"", "gogarble": "*", "binary_id": bytes(r.randrange(256) for _ in range(15))}
        seedA = bytes(r.randrange(256) for _ in range(r.choice([8, 9, 15, 20])))   # garble accepts longer seeds and hashes every byte
        seedB = seedA[:-1] + bytes([seedA[-1] ^ 0x41])   # differs from seedA in its last byte only
        variants = [("base", dict(base), aids)]
        for k in ("literals", "tiny", "ctrlflow"):
            v = dict(base); v[k] = True
            variants.append((k, v, aids))
        v = dict(base); v["gogarble"] = "example.com"
        variants.append(("gogarble", v, aids))
        v = dict(base); v["binary_id"] = bytes(r.randrange(256) for _ in range(15))
        variants.append(("binary", v, aids))
        variants.append(("source-edit", dict(base), [bytes(r.randrange(256) for _ in range(15)), aids[1]]))
        for sname, sd in (("seedA", seedA), ("seedB", seedB)):
            v = dict(base); v["seed"] = sd
            variants.append((sname, v, aids))
            for k in ("literals", "tiny"):
                v2 = dict(v); v2[k] = True
                variants.append((sname + "+" + k, v2, aids))
            v2 = dict(v); v2["binary_id"] = bytes(r.randrange(256) for _ in range(15))
            variants.append((sname + "+binary", v2, aids))
            variants.append((sname + "+source-edit", dict(v), [bytes(r.randrange(256) for _ in range(15)), aids[1]]))
            v2 = dict(v); v2["gogarble"] = "example.com"
            variants.append((sname + "+gogarble", v2, aids))
        for vname, cfg, va in variants:
            runs.append((gi, vname, cfg, [(paths[i], va[i], names, dirs[i]) for i in range(2)]))

    def one(run_):
        gi, vname, cfg, pkgs = run_
        recs = [stub_pkg_record(d, ip, "p", ["a.go"], aid) for (ip, aid, names, d) in pkgs]
        flags = []
        if cfg["literals"]:
            flags.append("-literals")
        if cfg["tiny"]:
            flags.append("-tiny")
        if cfg["seed"]:
            flags.append("-seed=" + std_b64(cfg["seed"]))
        env = {"GARBLE_EXPERIMENTAL_CONTROLFLOW": "1"} if cfg["ctrlflow"] else {}
        pr, _ = run_map(garble, stub, recs, flags, gogarble=cfg["gogarble"], binary_id=cfg["binary_id"], extra_env=env)
        return pr.returncode, pr.stdout.decode(errors="replace"), pr.stderr.decode(errors="replace")
    with concurrent.futures.ThreadPoolExecutor(8) as ex:
        outs = list(ex.map(one, runs))

    lits, meta = [], []
    observed = {}   # (group, variant) -> {(path, name): obf}
    for (gi, vname, cfg, pkgs), (rc, out, err) in zip(runs, outs):
        if rc != 0:
            res.violation("map-failed", "garble map failed (%s): %s" % (vname, err[-300:]), {"variant": vname}, found_input=False)
            return
        js = json.loads(out)
        obs = {}
        for (ip, aid, names, d) in pkgs:
            ent = js[ip]
            if cfg["seed"]:
                salt_input = b""
                salt = ip.encode() + b"|"
            else:
                salt_input = expected_salt_input(cfg, aid)
                salt = hashlib.sha256(salt_input).digest()
            items = [(n, True, is_exported(n), ent["objects"].get(n)) for n in names] + [(ip, False, False, ent["path"])]
            for (n, ident, exp, o) in items:
                if o is None:
                    res.violation("map-missing", "garble map lacks %r of %s" % (n, ip), {"name": n}, found_input=False)
                    continue
                obs[(ip, n)] = o
                dg = hashlib.sha256(salt + cfg["seed"] + n.encode()).digest()
                lits.append("(%s, %s, %s, %s, %s, %s, %s, %s, %s)" % (
                    cfg_lit(cfg), vlib.nlist(aid), vlib.nlist(ip.encode()), vlib.nlist(salt_input), vlib.nlist(salt), vlib.nlist(dg),
                    vlib.coq_bool(ident), vlib.coq_bool(exp), vlib.nlist(o.encode())))
                meta.append((gi, vname, ip, n, o))
        observed[(gi, vname)] = obs
    header = "From Verif Require Import Base.Bytes Model.Names.\nOpen Scope N_scope.\n"
    check = ("(fun k => match k with (c, aid, path, sinp, salt, dg, i, e, o) => "
             "negb ((if seed_present c then beq (pkg_salt c path aid) salt else beq (garble_hash_input aid c) sinp) && "
             "beq (name_of_sum dg i e) o) end)")
    bad = vlib.coq_eval_cases("c12a", header, "gcfg * bytes * bytes * bytes * bytes * bytes * bool * bool * str", lits, check)

    # ---- the property on the observations themselves
    checked = 0
    distinct = set()
    for gi in range(groups):
        base = observed[(gi, "base")]
        p, q = sorted({k[0] for k in base})
        # unseeded: every single input change renames p's objects and import path
        for v in ("literals", "tiny", "ctrlflow", "gogarble", "binary", "source-edit"):
            o = observed[(gi, v)]
            same = [k for k in base if k[0] == p and o[k] == base[k]]
            checked += 1
            distinct.add((gi, v))
            if len(same) > 1:   # a single accidental equal name is possible only by hash collision
                res.violation("unseeded-unchanged:" + v, "without -seed, changing only %s leaves names of %s unchanged: %r" % (v, p, same[:3]),
                              {"variant": v, "package": p, "unchanged": [list(k) for k in same]})
            if v == "source-edit":
                moved = [k for k in base if k[0] == q and o[k] != base[k]]
                if moved:
                    res.violation("unseeded-unrelated-edit", "an edit in %s renamed objects of the unrelated package %s" % (p, q), {"moved": moved[:3]})
        for s in ("seedA", "seedB"):
            sb = observed[(gi, s)]
            for v in ("literals", "tiny", "binary", "source-edit", "gogarble"):
                o = observed[(gi, s + "+" + v)]
                diff = [k for k in sb if o[k] != sb[k]]
                checked += 1
                distinct.add((gi, s + v))
                if diff:
                    res.violation("seeded-changed:" + v, "with -seed, changing only %s renames %r" % (v, diff[:3]), {"variant": v, "changed": [list(k) for k in diff]})
            # same identifier in another package, and same package under the other seed, must differ
            same_pq = [n for (ip, n) in sb if ip == p and (q, n) in sb and sb[(p, n)] == sb[(q, n)] and n != p]
            if len(same_pq) > 1:
                res.violation("seeded-same-across-packages", "with -seed, %r get the same name in %s and %s" % (same_pq[:3], p, q), {"names": same_pq})
        a, b = observed[(gi, "seedA")], observed[(gi, "seedB")]
        same_ab = [k for k in a if a[k] == b[k]]
        if len(same_ab) > 1:
            res.violation("seed-ignored", "two different seeds give the same names: %r" % (same_ab[:3]), {"same": [list(k) for k in same_ab]})
    res.cov["evaluations"] = len(lits)
    res.cov["distinct_nontrivial"] = len(distinct)
    res.cov["rule"] = ("groups of two packages x 12 identifiers (ASCII/Unicode) observed through `garble map` under a base configuration and "
                       "single-input variants (-literals, -tiny, controlflow, GOGARBLE, garble binary id, action id of one package, two seeds and "
                       "their variants); non-trivial = a (group, single-difference pair) compared")
    res.cov["single_difference_pairs"] = checked
    for m in meta[:4]:
        res.add_sample({"group": m[0], "variant": m[1], "package": m[2], "name": m[3], "obfuscated": m[4]})

    # ---- real toolchain: an edit in one package, tags, platform
    files = {"main.go": 'package main\n\nimport (\n"example.com/proj/a"\n"example.com/proj/b"\n)\n\nfunc main() { a.FuncA(); b.FuncB() }\n',
             "a/a.go": "package a\n\ntype TypeA struct{ FieldA int }\n\nfunc FuncA() {}\n",
             "a/a_tag.go": "//go:build sometag\n\npackage a\n\nfunc Tagged() {}\n",
             "b/b.go": "package b\n\ntype TypeB struct{ FieldB int }\n\nfunc FuncB() {}\n"}
    proj = e2e.Project("c12", files)
    caches = e2e.Caches("c12")

    def real_map(gflags=(), flags=(), env=None):
        pr = e2e.garble_build(garble, proj, None, pkg="./...", garble_flags=gflags, flags=flags, caches=caches, extra_env=env, command="map")
        if pr.returncode != 0:
            raise RuntimeError("real garble map failed: " + pr.stderr.decode()[-800:])
        return json.loads(pr.stdout)
    m0 = real_map()
    s0 = real_map(["-seed=AAAAAAAAAAE"])
    proj.write("a/a.go", files["a/a.go"] + "\nfunc addedLater() {}\n")
    m1 = real_map()
    s1 = real_map(["-seed=AAAAAAAAAAE"])
    m2 = real_map(flags=["-tags=sometag"])
    s2 = real_map(["-seed=AAAAAAAAAAE"], flags=["-tags=sometag"])
    s3 = real_map(["-seed=AAAAAAAAAAE"], env={"GOOS": "windows", "GOARCH": "arm64"})
    res.cov["real_map_runs"] = 7
    pa, pb_ = "example.com/proj/a", "example.com/proj/b"
    if m0[pa]["objects"]["FuncA"] == m1[pa]["objects"]["FuncA"] or m0[pa]["path"] == m1[pa]["path"]:
        res.violation("real-unseeded-edit", "without -seed an edit of package a does not change its names", {"before": m0[pa], "after": m1[pa]})
    if m0[pb_] != m1[pb_]:
        res.violation("real-unrelated-edit", "an edit of package a renames the unrelated package b", {"before": m0[pb_], "after": m1[pb_]})
    if m1[pa]["objects"]["FuncA"] == m2[pa]["objects"]["FuncA"]:
        res.violation("real-unseeded-tags", "without -seed a build tag that adds a file to package a does not change its names", {})
    for name, s in (("edit", s1), ("tags", s2), ("platform", s3)):
        for pkg in (pa, pb_):
            for k, v in s0[pkg]["objects"].items():
                if k in s[pkg]["objects"] and s[pkg]["objects"][k] != v:
                    res.violation("real-seeded-" + name, "with -seed, %s changes the name of %s.%s" % (name, pkg, k), {"before": v, "after": s[pkg]["objects"][k]})
            if s0[pkg]["path"] != s[pkg]["path"]:
                res.violation("real-seeded-path-" + name, "with -seed, %s changes the import path of %s" % (name, pkg), {})
    caches.remove()

    if (bad or not proofs_ok) and not res.violations:
        what = []
        if not proofs_ok:
            what.append("proof obligations of Properties/C12.v no longer check (%s)" % getattr(res, "broken", "see output"))
        if bad:
            what.append("correspondence Names.pkg_salt/garble_hash_input/name_of_sum vs `garble map` differs on %d names, e.g. %r" % (len(bad), meta[bad[0]]))
        res.violation("tie-broken", "; ".join(what), {"theorems": THEOREMS, "mismatches": [repr(meta[i]) for i in bad[:10]]}, found_input=False)
