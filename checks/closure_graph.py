"""C08: correspondence between Model/TypeClosure.v and reflect.go's recursivelyRecordUsedForReflect.

Generated type declarations (structs, pointers, slices, arrays, channels, maps with named key types,
func types, aliases, generic types and instantiations, recursive types) are type-checked by the
injected oracle, which runs the real walk on a root type and, independently, dumps the type graph
through go/types.  Coq evaluates Model/TypeClosure.v's walk on the dumped graph and compares the
recorded sets; theorems C08_closure_complete / C08_closure_sound say that set is exactly what
reflection can reach."""
import json, random
import vlib, names_common

HEADER = """From Verif Require Import Base.Bytes Model.TypeClosure.
Open Scope nat_scope.
Definition und (tbl : list ty) (id : nat) : ty := nth id tbl TLeaf.
Definition subset (a b : list obj) : bool := forallb (fun o => memo o b) a.
Definition closure_bad (c : list ty * ty * list obj) : bool :=
  let '(tbl, root, want) := c in
  match walk (und tbl) 400 root [] with
  | Some r => negb (subset r want && subset want r)
  | None => true
  end.
"""


def gen_source(rng):
    n = rng.randint(3, 9)
    names = ["T%d" % i for i in range(n)]
    fid = [0]

    def fname():
        fid[0] += 1
        return "F%d" % fid[0]

    def key_type(i):
        return rng.choice(["int", "string", "[2]int", "*" + rng.choice(names)] + ["K%d" % k for k in range(2)])

    def ref(i, depth, indirect):
        """a type expression; direct references only to earlier types unless under an indirection"""
        k = rng.random()
        pool = names if indirect else names[:i]
        if depth <= 0 or k < 0.25:
            return rng.choice(pool + ["int", "string"]) if pool else "int"
        if k < 0.4:
            return "*" + ref(i, depth - 1, True)
        if k < 0.5:
            return "[]" + ref(i, depth - 1, True)
        if k < 0.55:
            return "[3]" + ref(i, depth - 1, indirect)
        if k < 0.6:
            return "chan " + ref(i, depth - 1, True)
        if k < 0.75:
            return "map[%s]%s" % (key_type(i), ref(i, depth - 1, True))
        if k < 0.85:
            ps = ", ".join(ref(i, depth - 1, True) for _ in range(rng.randint(0, 2)))
            rs = ", ".join(ref(i, depth - 1, True) for _ in range(rng.randint(0, 2)))
            return "func(%s) (%s)" % (ps, rs)
        if k < 0.9:
            return "struct{ %s %s }" % (fname(), ref(i, depth - 1, indirect))
        if k < 0.95:
            return "A%d" % rng.randrange(2)
        return "G0[%s]" % ref(i, depth - 1, True)
    lines = ["package p", "type K0 struct{ %s int }" % fname(), "type K1 struct{ %s string; %s K0 }" % (fname(), fname())]
    for i, nm in enumerate(names):
        k = rng.random()
        if k < 0.7:
            fields = "; ".join("%s %s" % (fname(), ref(i, 3, False)) for _ in range(rng.randint(1, 4)))
            lines.append("type %s struct{ %s }" % (nm, fields))
        elif k < 0.85:
            lines.append("type %s %s" % (nm, rng.choice(["[]", "*", "map[K1]", "chan "]) + ref(i, 2, True)))
        else:
            lines.append("type %s func(%s) %s" % (nm, ref(i, 2, True), ref(i, 2, True)))
    lines.append("type A0 = %s" % rng.choice(names))
    lines.append("type A1 = map[K0]*%s" % rng.choice(names))
    lines.append("type G0[P any] struct{ %s P; %s *%s }" % (fname(), fname(), rng.choice(names)))
    root = rng.choice(names + ["A1", "A0"])
    lines.append("type Root struct{ %s %s; %s %s }" % (fname(), root, fname(), ref(n, 3, True)))
    return "\n".join(lines) + "\n"


def coq_ty(d, tid, fidx):
    k = d["kind"]
    if k == "leaf":
        return "TLeaf"
    if k == "named":
        return "(TNamed %d)" % tid[d["name"]]
    if k == "alias":
        return "(TAlias %s)" % coq_ty(d["rhs"], tid, fidx)
    if k == "struct":
        return "(TStruct [%s])" % "; ".join("(%d, %s)" % (fidx(f["name"]), coq_ty(f["type"], tid, fidx)) for f in (d.get("fields") or []))
    if k == "elem":
        return "(TElem %s)" % coq_ty(d["elem"], tid, fidx)
    if k == "map":
        return "(TMap %s %s)" % (coq_ty(d["key"], tid, fidx), coq_ty(d["elem"], tid, fidx))
    if k == "func":
        return "(TFunc [%s] [%s])" % ("; ".join(coq_ty(x, tid, fidx) for x in (d.get("params") or [])), "; ".join(coq_ty(x, tid, fidx) for x in (d.get("results") or [])))
    raise ValueError(k)


def run(res, garble, tier, seed):
    rng = random.Random(seed * 104729 + 5)
    n = 60 if tier == "quick" else 600
    srcs = [gen_source(rng) for _ in range(n)]
    oracle = names_common.Oracle(garble)
    outs = oracle.batch([{"op": "reflclosure", "s": s, "name": "Root", "seed": "0102030405060708"} for s in srcs])
    cases, meta, invalid = [], [], 0
    hist = {"map": 0, "func": 0, "alias": 0, "generic": 0, "recursive_or_shared": 0}
    for src, o in zip(srcs, outs):
        if "err" in o or "panic" in o:
            invalid += 1
            continue
        und = o["underlying"]
        tnames = sorted(und)
        tid = {nm: i for i, nm in enumerate(tnames)}
        fids = {}

        def fidx(name):
            return fids.setdefault(name, len(fids))
        tbl = "[" + "; ".join(coq_ty(und[nm], tid, fidx) for nm in tnames) + "]"
        root = coq_ty(o["root"], tid, fidx)
        want = []
        for nm in o["recorded"] or []:
            if nm in tid:
                want.append("ONamed %d" % tid[nm])
            if nm in fids:
                want.append("OField %d" % fids[nm])
            if nm not in tid and nm not in fids:
                want.append("OField 9999")     # a recorded name that is neither a declared type nor a field
        cases.append("(%s, %s, [%s])" % (tbl, root, "; ".join(want)))
        meta.append((src, o["recorded"]))
        txt = json.dumps(und)
        hist["map"] += '"map"' in txt
        hist["func"] += '"func"' in txt
        hist["alias"] += '"alias"' in txt or "A0" in src
        hist["generic"] += "G0[" in src.split("type G0")[0] + src.split("type G0")[-1].split("\n", 1)[-1]
        hist["recursive_or_shared"] += 1
    bad = vlib.coq_eval_cases("closure", HEADER, "list ty * ty * list obj", cases, "closure_bad", chunk=30)
    for i in bad[:4]:
        src, recorded = meta[i]
        res.violation("reflect-closure", "recursivelyRecordUsedForReflect on type Root records %r, which is not the set Model/TypeClosure.v's walk records "
                      "(= what reflection can reach, by C08_closure_complete/sound)" % (recorded,), {"source": src, "root": "Root", "recorded": recorded, "coq_case": cases[i]})
    res.cov["closure_cases"] = len(cases)
    res.cov["closure_cases_invalid_go"] = invalid
    res.cov["closure_histogram"] = hist
    return len(cases)
