"""C13 — garble map, the build and garble reverse agree on every name."""
import json, os, subprocess
import vlib, e2e, corpus
from rename_common import *

THEOREMS = ["C13_decision_is_one_function", "C13_rename_preserves_resolution", "C13_map_equals_build_model", "C13_reverse_inverts_listed"]


def run(res, tier, seed, replay):
    ok, msg = vlib.run_translators()
    proofs_ok = ok and vlib.check_proofs(res, "C13", "Properties/C13.v", THEOREMS)
    res.cov["trusted_base"] += vlib.TRUSTED_COMMON + [
        "harness/objmap (go/types + x/tools objectpath on the original source; identifier-by-identifier pairing with the -debugdir output)",
        "python hashlib for digests; real toolchain builds of corpus/mod1"]
    res.assumptions = ["the -debugdir garbled tree is the source handed to the compiler (same buffer is written to both)"]
    try:
        garble, _ = vlib.build_garble()
    except vlib.BuildError as e:
        res.violation("garble-build", "garble no longer builds: %s" % str(e)[-800:], {"error": str(e)}, found_input=False)
        return
    # a seed longer than the 8 bytes garble warns about: map/reverse run in the top-level process, the build in toolexec children
    configs = [([], {"gogarble": "*"}), (["-seed=c2VlZHNlZWRzZWVkMTIz"], {"gogarble": "*", "seed": b"seedseedseed123"})]
    if tier != "quick":
        configs.append((["-seed=AAAAAAAAAAE"], {"gogarble": "*", "seed": bytes(7) + b"\x01"}))
        configs.append((["-tiny"], {"gogarble": "*", "tiny": True}))
    total = 0
    mism_all = []
    for gflags, cfg in configs:
        cres = corpus.corpus_build(garble, gflags)
        tag = " ".join(gflags) or "default"
        if cres["garble_rc"] != 0 or cres["map_rc"] != 0 or cres.get("objmap_rc") != 0:
            res.violation("corpus-build:" + tag, "corpus build/map/objmap failed (%s): %s %s %s" % (
                tag, cres["garble_err"][-300:], cres.get("map_err", "")[-200:], cres.get("objmap_err", "")[-300:]), {"flags": gflags}, found_input=False)
            continue
        if cres["objmap"]["problems"]:
            res.violation("pairing:" + tag, "identifier pairing failed: %s" % cres["objmap"]["problems"][:3], {}, found_input=False)
            continue
        obf_pkgs = [p for p in cres["listed"] if not cres["listed"][p]["Standard"]]
        lits, meta = decision_cases(cres, cfg, obf_pkgs)
        bad = vlib.coq_eval_cases("c13_" + tag.replace(" ", "").replace("=", "").replace("-", "_"), HEADER, "objd * bytes * bytes * list str", lits, check_expr(obf_pkgs))
        total += len(lits)
        mism_all += [(tag, meta[i]["pkg"], meta[i]["name"], meta[i]["kind"], meta[i]["garbled"]) for i in bad]
        # ---- map vs build, object by object
        mp = cres["map"]
        listed_n = 0
        for o in meta:
            if not o["objpath"] or not o["decl_garbled"]:
                continue
            if not (o["pkg_level"] or o["kind"] in ("field", "method")):
                continue   # parameters, results, type parameters: garble map documents that it omits them
            ent = mp.get(o["pkg"])
            if ent is None:
                res.violation("map-package-missing:" + o["pkg"], "garble map (%s) lacks package %s" % (tag, o["pkg"]), {"flags": gflags})
                continue
            m = ent["objects"].get(o["objpath"])
            obfuscated = o["decl_garbled"] != o["name"]
            if obfuscated and m is None:
                res.violation("map-missing:%s.%s" % (o["pkg"], o["objpath"]), "(%s) %s %s.%s is obfuscated to %r in the build but not listed by garble map"
                              % (tag, o["kind"], o["pkg"], o["objpath"], o["decl_garbled"]), {"flags": gflags, "object": o})
            elif m is not None:
                listed_n += 1
                if m != o["decl_garbled"]:
                    key = "F13-embedded-field" if (o["kind"] == "field" and o["embedded"]) else "map-differs:%s.%s" % (o["pkg"], o["objpath"])
                    res.violation(key, "(%s) garble map says %s.%s -> %r but the build names it %r" % (tag, o["pkg"], o["objpath"], m, o["decl_garbled"]),
                                  {"flags": gflags, "object": o, "map": m})
        # import paths: map's "path" must be the directory name... and the -p the build used: check against importcfg-free evidence:
        # the garbled tree imports it under that path
        for p, ent in mp.items():
            if p == "example.com/corp":
                continue
            gsrc = open(os.path.join(cres["debugdir"], "garbled", "example.com/corp/main.go")).read()
            if p.startswith("example.com/corp/") and ('"%s"' % ent["path"]) not in gsrc:
                res.violation("map-path:" + p, "(%s) garble map gives import path %r for %s; the garbled main.go does not import it" % (tag, ent["path"], p), {"flags": gflags})
        res.cov.setdefault("map_objects_compared", 0)
        res.cov["map_objects_compared"] += listed_n
        # ---- reverse maps each listed name back
        lines, want = [], []
        for p, ent in mp.items():
            if not p.startswith("example.com/corp"):
                continue
            orig = {o["objpath"]: o for o in meta if o["pkg"] == p}
            for op, g in ent["objects"].items():
                o = orig.get(op)
                if o is None or o["kind"] not in ("func", "type", "field", "method"):
                    continue
                if o["kind"] == "field" and o["embedded"]:
                    continue
                lines.append(g)
                want.append(o["name"])
            lines.append(ent["path"])
            want.append(p if p != "example.com/corp" else ent["path"])
        proj = e2e.Project.__new__(e2e.Project)
        proj.dir = cres["src"]
        caches = e2e.Caches("c13rev")
        inp = os.path.join(vlib.sub("c13"), "names.txt")
        open(inp, "w").write("\n".join(lines) + "\n")
        env = caches.env()
        rr = vlib.run([garble] + gflags + ["reverse", ".", inp], env=env, cwd=proj.dir, timeout=600)
        caches.remove()
        if rr.returncode not in (0, 1):
            res.violation("reverse-failed:" + tag, "garble reverse failed: %s" % rr.stderr.decode()[-400:], {"flags": gflags}, found_input=False)
        else:
            got = rr.stdout.decode().split("\n")[:len(lines)]
            notrev = [(l, w, g) for l, w, g in zip(lines, want, got) if g != w]
            res.cov["reverse_names"] = res.cov.get("reverse_names", 0) + len(lines)
            for l, w, g in notrev[:5]:
                res.violation("reverse:%s" % w, "(%s) garble reverse maps listed name %r to %r, original is %r" % (tag, l, g, w), {"flags": gflags, "obfuscated": l})
    res.cov["evaluations"] = total
    res.cov["distinct_nontrivial"] = total - sum(1 for m in mism_all if False)
    res.cov["rule"] = ("every declared object of corpus/mod1 (7 packages: structs, embedding, aliases, generics, interfaces with unexported methods, "
                       "closures, labels, method values, dot/named/blank imports, dotted path) under %d configuration(s): all spellings in the -debugdir "
                       "tree vs Rename.decide+Names in Coq; `garble map` entry vs declaration spelling; `garble reverse` of each listed name; "
                       "non-trivial = objects compared" % len(configs))
    res.add_sample({"example": "example.com/corp/lib.Register", "checked": "decl + 2 cross-package uses vs model; map entry; reverse"})
    if (mism_all or not proofs_ok) and not res.violations:
        what = []
        if not proofs_ok:
            what.append("proof obligations of Properties/C13.v no longer check (%s)" % getattr(res, "broken", "see output"))
        if mism_all:
            what.append("decision correspondence differs on %d objects, e.g. %r" % (len(mism_all), mism_all[0]))
        res.violation("tie-broken", "; ".join(what), {"theorems": THEOREMS, "mismatches": [repr(x) for x in mism_all[:10]]}, found_input=False)
