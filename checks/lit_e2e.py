"""A generated program with every literal form / syntactic position of the C05 and C09 quantifiers;
built plainly and with `garble -literals`; shared by the two checks (cached per garble binary)."""
import fcntl, hashlib, json, os, random, shutil
import vlib, e2e


def content(r, n, mid):
    """n bytes with a unique marker in front (when it fits) and awkward bytes inside"""
    marker = ("MK%sqzx" % mid).encode()
    pool = b"abcdefghijklmnopqrstuvwxyzABCDEFGHIJKLMNOPQRSTUVWXYZ0123456789 _-\"\\\n\t\x00\xff\xc3\xa9"
    body = bytes(r.choice(pool) for _ in range(n))
    if n >= len(marker):
        body = marker + body[len(marker):]
    return body


def go_str(b):
    out = '"'
    for c in b:
        if c == 34:
            out += '\\"'
        elif c == 92:
            out += "\\\\"
        elif 32 <= c < 127:
            out += chr(c)
        else:
            out += "\\x%02x" % c
    return out + '"'


def go_bytes(b):
    return ", ".join(str(c) for c in b)


def gen_program(seed):
    r = random.Random(seed)
    items = []   # (id, go statement(s) that print, expected bytes, selected?)
    decls, body = [], []
    n = [0]

    def mid():
        n[0] += 1
        return "%03d" % n[0]
    # strings of boundary lengths, in different syntactic positions
    lens = [7, 8, 9, 64, 255, 256, 257, 2048, 2049]
    pos_cycle = ["arg", "var", "return", "slice-elem", "struct-field", "map-key", "closure", "generic", "init", "concat", "pkgvar-sub"]
    k = 0
    for ln in lens + [12, 16, 24, 33, 100, 300]:
        i = mid()
        c = content(r, ln, i)
        sel = 8 <= ln <= 2048
        pos = pos_cycle[k % len(pos_cycle)]
        k += 1
        lit = go_str(c)
        if pos == "arg":
            body.append('p("%s", %s)' % (i, lit))
        elif pos == "var":
            body.append('{ v := %s; p("%s", v) }' % (lit, i))
        elif pos == "return":
            decls.append("func ret%s() string { return %s }" % (i, lit))
            body.append('p("%s", ret%s())' % (i, i))
        elif pos == "slice-elem":
            body.append('p("%s", []string{"x", %s}[1])' % (i, lit))
        elif pos == "struct-field":
            body.append('p("%s", struct{ A int; B string }{1, %s}.B)' % (i, lit))
        elif pos == "map-key":
            body.append('for k := range map[string]int{%s: 1} { p("%s", k) }' % (lit, i))
        elif pos == "closure":
            body.append('func() { func() { p("%s", %s) }() }()' % (i, lit))
        elif pos == "generic":
            decls.append("func gen%s[T any](t T) (T, string) { return t, %s }" % (i, lit))
            body.append('{ _, s := gen%s(1); p("%s", s) }' % (i, i))
        elif pos == "init":
            decls.append("var initv%s string\nfunc init() { initv%s = %s }" % (i, i, lit))
            body.append('p("%s", initv%s)' % (i, i))
        elif pos == "concat":
            h = len(c) // 2
            body.append('p("%s", %s + %s)' % (i, go_str(c[:h]), go_str(c[h:])))
        elif pos == "pkgvar-sub":
            body.append('p("%s", sub.V%s)' % (i, i))
            items.append(("subdecl", "var V%s = %s" % (i, lit), None, None))
        items.append((i, pos + ":string:%d" % ln, c, sel))
    # byte slices / arrays and pointers to them
    for ln in [7, 8, 9, 255, 256, 257, 2048, 2049]:
        for form in ("slice", "array", "ptr-slice", "ptr-array"):
            if form != "slice" and ln in (255, 257, 2049):
                continue
            i = mid()
            c = content(r, ln, i)
            sel = 8 <= ln <= 2048
            if form == "slice":
                body.append('pb("%s", []byte{%s})' % (i, go_bytes(c)))
            elif form == "array":
                body.append('{ a := [%d]byte{%s}; pb("%s", a[:]) }' % (ln + 3, go_bytes(c), i))
                c = c + bytes(3)
            elif form == "ptr-slice":
                body.append('{ a := &[]byte{%s}; pb("%s", *a) }' % (go_bytes(c), i))
            else:
                body.append('{ a := &[%d]byte{%s}; pb("%s", a[:]) }' % (ln, go_bytes(c), i))
            items.append((i, form + ":%d" % ln, c, sel))
    # contexts that must stay constants / link-time targets
    i = mid(); cc = content(r, 20, i)
    decls.append("const constStr%s = %s" % (i, go_str(cc)))
    body.append('p("%s", constStr%s)' % (i, i))
    items.append((i, "const-decl", cc, False))
    i = mid(); ca = content(r, 11, i)
    decls.append("var arrLen%s [len(%s)]int" % (i, go_str(ca)))
    body.append('pb("%s", []byte{byte(len(arrLen%s))})' % (i, i))
    items.append((i, "array-length", bytes([11]), None))
    i = mid(); cl = content(r, 18, i)
    body.append('switch s := os.Getenv("NOPE") + %s; s { case %s: p("%s", s); default: p("%s", "wrong-case") }' % (go_str(cl), go_str(cl), i, i))
    items.append((i, "case-label", cl, True))
    i = mid(); cn = content(r, 22, i)
    decls.append("//go:nosplit\nfunc nosplit%s() string { return %s }" % (i, go_str(cn)))
    body.append('p("%s", nosplit%s())' % (i, i))
    items.append((i, "nosplit", cn, False))
    i = mid(); cx = content(r, 19, i)
    decls.append("var xTarget = %s" % go_str(cx))
    body.append('p("%s", xTarget)' % i)
    injected = b"INJECTED-by-ldflags-X-value"
    items.append((i, "ldflags-X", injected, False))
    i = mid(); cxs = content(r, 21, i)
    body.append('p("%s", sub.XSub)' % i)
    items.append(("subdecl", "var XSub = %s" % go_str(cxs), None, None))
    items.append((i, "ldflags-X-dotted-pkg", b"INJECTED-into-sub-package", False))
    i = mid(); ct = content(r, 17, i)
    decls.append("type myString string")
    body.append('p("%s", string(myString(%s)))' % (i, go_str(ct)))
    items.append((i, "typed-string", ct, None))
    subdecls = [it[1] for it in items if it[0] == "subdecl"]
    items = [it for it in items if it[0] != "subdecl"]
    main = ('package main\n\nimport (\n\t"encoding/hex"\n\t"fmt"\n\t"os"\n\n\t"example.com/lit/sub"\n)\n\nvar _ = sub.Dummy\nvar _ = os.Args\n\n'
            'func p(id, s string) { fmt.Println(id, hex.EncodeToString([]byte(s))) }\nfunc pb(id string, b []byte) { fmt.Println(id, hex.EncodeToString(b)) }\n\n'
            + "\n".join(decls) + "\n\nfunc main() {\n\t" + "\n\t".join(body) + "\n}\n")
    sub = "package sub\n\nvar Dummy = 1\n\n" + "\n".join(subdecls) + "\n"
    files = {"go.mod": "module example.com/lit\n\ngo 1.26\n", "main.go": main, "sub/sub.go": sub}
    return files, items, injected


XFLAG = "-ldflags=-X=main.xTarget=INJECTED-by-ldflags-X-value -X=example.com/lit/sub.XSub=INJECTED-into-sub-package"
SEED_B64 = "bGl0c2VlZHZhbHVlMTIzNA"   # the -seed value itself must not appear in the binary


def literal_e2e(garble, seed=1, gogarble="example.com/lit", use_seed=True):
    key = hashlib.sha256((e2e.sha256_file(garble) + "v4" + str(seed) + gogarble + str(use_seed)).encode()).hexdigest()[:24]
    root = os.path.join(vlib.CACHE, "lit-e2e")
    os.makedirs(root, exist_ok=True)
    out = os.path.join(root, key)
    lock = open(os.path.join(root, key + ".lock"), "w")
    fcntl.flock(lock, fcntl.LOCK_EX)
    try:
        if os.path.exists(os.path.join(out, "done.json")):
            return json.load(open(os.path.join(out, "done.json")))
        vlib.evict_cache_entries(root, key, keep=3)
        shutil.rmtree(out, ignore_errors=True)
        os.makedirs(out)
        files, items, injected = gen_program(seed)
        proj = e2e.Project("lit-%s" % key, files, module="example.com/lit")
        caches = e2e.Caches("lit-" + key)
        pb, gb = os.path.join(out, "plain.bin"), os.path.join(out, "garbled.bin")
        rp = e2e.plain_build(proj, pb, flags=[XFLAG], caches=caches)
        gflags = ["-literals"] + (["-seed=" + SEED_B64] if use_seed else [])
        rg = e2e.garble_build(garble, proj, gb, garble_flags=gflags, flags=[XFLAG], caches=caches, extra_env={"GOGARBLE": gogarble}, timeout=1500)
        res = {"plain_rc": rp.returncode, "plain_err": rp.stderr.decode(errors="replace")[-1500:],
               "garble_rc": rg.returncode, "garble_err": rg.stderr.decode(errors="replace")[-3000:],
               "plain": pb, "garbled": gb, "flags": gflags,
               "items": [[i, k, c.hex() if c is not None else None, s] for (i, k, c, s) in items], "files": files}
        if rp.returncode == 0:
            rc, o, e_ = e2e.run_bin(pb)
            res["plain_out"] = o.decode(errors="replace")
        if rg.returncode == 0:
            rc, o, e_ = e2e.run_bin(gb)
            res["garbled_out"], res["garbled_run_rc"] = o.decode(errors="replace"), rc
        caches.remove()
        json.dump(res, open(os.path.join(out, "done.json"), "w"))
        return res
    finally:
        lock.close()
