"""Reads the Go source the literal obfuscators emit (go/printer output of the BlockStmt) back
into the artefact structures of coq/Model/Literals.v."""
import re

OPS = {"^": "Xor", "+": "Add", "-": "Sub"}


def go_unquote(s):
    """Go interpreted string literal (with quotes) -> bytes"""
    assert s[0] == '"' and s[-1] == '"', s[:20]
    out = bytearray()
    i = 1
    n = len(s) - 1
    simple = {"a": 7, "b": 8, "f": 12, "n": 10, "r": 13, "t": 9, "v": 11, "\\": 92, '"': 34, "'": 39}
    while i < n:
        c = s[i]
        if c != "\\":
            out += c.encode("utf-8")
            i += 1
            continue
        e = s[i + 1]
        if e in simple:
            out.append(simple[e]); i += 2
        elif e == "x":
            out.append(int(s[i + 2:i + 4], 16)); i += 4
        elif e == "u":
            out += chr(int(s[i + 2:i + 6], 16)).encode("utf-8"); i += 6
        elif e == "U":
            out += chr(int(s[i + 2:i + 10], 16)).encode("utf-8"); i += 10
        elif e in "01234567":
            out.append(int(s[i + 1:i + 4], 8)); i += 4
        else:
            raise ValueError("bad escape in %r" % s[i:i + 6])
    return bytes(out)


def find_string_end(s, start):
    i = start + 1
    while s[i] != '"':
        i += 2 if s[i] == "\\" else 1
    return i


class Keys:
    def __init__(self, keys):
        self.v = {k["name"]: (k["value"], k["typ"]) for k in keys}

    def keybyte(self, expr):
        """`byte(garbleExternalKeyN>>S)`, `byte(garbleExternalKeyN)` or `garbleExternalKeyN` -> byte"""
        m = re.fullmatch(r"(?:byte\()?(garbleExternalKey\d+)(?:>>(\d+))?\)?", expr.strip())
        if not m:
            raise ValueError("key expr %r" % expr)
        val, typ = self.v[m.group(1)]
        return (val >> int(m.group(2) or 0)) & 0xFF


def parse_atom(keys, expr):
    """`N`, `byte(N) OP keyexpr`, possibly wrapped in parentheses / byte(...) -> Coq atom literal"""
    e = expr.strip()
    while (e.startswith("(") and e.endswith(")") and balanced(e[1:-1])):
        e = e[1:-1].strip()
    m = re.fullmatch(r"byte\((byte\(\d+\)\s*[\^+-]\s*.*)\)", e)
    if m and balanced(m.group(1)):
        e = m.group(1)
    if re.fullmatch(r"\d+", e):
        return "(%s, None)" % e
    m = re.fullmatch(r"byte\((\d+)\)\s*([\^+-])\s*(.*)", e)
    if not m:
        raise ValueError("atom %r" % expr)
    return "(%s, Some (%s, %d))" % (m.group(1), OPS[m.group(2)], keys.keybyte(m.group(3)))


def balanced(s):
    d = 0
    for c in s:
        d += c == "("
        d -= c == ")"
        if d < 0:
            return False
    return d == 0


def parse_layer(keys, lines, i):
    """lines[i] contains `func() []byte {`; returns (coq layer literal, index after the closing line)"""
    assert "func() []byte {" in lines[i], lines[i]
    l = lines[i + 1].strip()
    assert l.startswith("data := []byte("), l
    q0 = l.index('"')
    q1 = find_string_end(l, q0)
    lit = go_unquote(l[q0:q1 + 1])
    steps = []
    j = i + 2
    while True:
        t = lines[j].strip()
        if t == "return data":
            break
        m = re.fullmatch(r"data\[(\d+)\] = data\[(\d+)\]\s*([\^+-])\s*(.*)", t)
        assert m and m.group(1) == m.group(2), t
        steps.append("(%s%%nat, %s, %d)" % (m.group(1), OPS[m.group(3)], keys.keybyte(m.group(4))))
        j += 1
    assert lines[j + 1].strip().startswith("}()"), lines[j + 1]
    return "(%s, [%s])" % (nl(lit), ";".join(steps)), j + 2


def nl(bs):
    return "[" + ";".join(str(b) for b in bs) + "]"


def split_call_chain(s):
    """`fnc(A)(B)(C)` -> [A, B, C]"""
    assert s.startswith("fnc(")
    out, i = [], 3
    while i < len(s):
        assert s[i] == "(", s[i:i + 10]
        d, j = 0, i
        while True:
            d += s[j] == "("
            d -= s[j] == ")"
            if d == 0:
                break
            j += 1
        out.append(s[i + 1:j])
        i = j + 1
    return out


def split_top_commas(s):
    out, d, cur = [], 0, ""
    for c in s:
        if c in "([":
            d += 1
        if c in ")]":
            d -= 1
        if c == "," and d == 0:
            out.append(cur); cur = ""
        else:
            cur += c
    if cur.strip():
        out.append(cur)
    return out


def extract(case):
    """-> (coq expression computing the decoded bytes as `option bytes`)"""
    keys = Keys(case["keys"])
    lines = case["block"].split("\n")
    obf = case["obf"]
    if obf == "simple":
        kl, i = parse_layer(keys, lines, 1)
        dl, i = parse_layer(keys, lines, i)
        m = re.fullmatch(r"data\[i\] = data\[i\]\s*([\^+-])\s*b", lines[i + 1].strip())
        return "Some (run_simple %s %s %s)" % (kl, dl, OPS[m.group(1)])
    if obf == "swap":
        dl, i = parse_layer(keys, lines, 1)
        m = re.fullmatch(r"positions := \[\.\.\.\]\w+\{(.*)\}", lines[i].strip())
        pos = [p.strip() for p in m.group(1).split(",") if p.strip()]
        m = re.fullmatch(r"localKey := byte\(i\)\s*\+\s*byte\(positions\[i\]\s*\^\s*positions\[i\+1\]\)\s*\+\s*(.*)", lines[i + 2].strip())
        shift = parse_atom(keys, m.group(1))
        m = re.fullmatch(r"data\[positions\[i\]\], data\[positions\[i\+1\]\] = data\[positions\[i\+1\]\]\s*([\^+-])\s*localKey, data\[positions\[i\]\]\s*([\^+-])\s*localKey", lines[i + 3].strip())
        assert m.group(1) == m.group(2)
        n = re.search(r"i < (\d+); i \+= 2", lines[i + 1]).group(1)
        assert int(n) == len(pos)
        return "Some (run_swap %s [%s] %s %s)" % (dl, ";".join(p + "%nat" for p in pos), OPS[m.group(1)], shift)
    if obf == "seed":
        m = re.fullmatch(r"seed := byte\((.*)\)", lines[1].strip())
        seed0 = parse_atom(keys, m.group(1))
        body = "\n".join(lines)
        m = re.search(r"data = append\(data, x\s*([\^+-])\s*seed\)", body)
        op = OPS[m.group(1)]
        chain = [l for l in lines if l.strip().startswith("fnc(")][-1].strip()
        atoms = [parse_atom(keys, a) for a in split_call_chain(chain)]
        return "Some (run_seed %s %s [%s])" % (seed0, op, ";".join(atoms))
    if obf == "shuffle":
        fl, i = parse_layer(keys, lines, 1)
        kl, i = parse_layer(keys, lines, i)
        l = lines[i + 1].strip()
        assert l.startswith("data = append(data, ") and l.endswith(")")
        args = []
        for a in split_top_commas(l[len("data = append(data, "):-1]):
            m = re.fullmatch(r"fullData\[(\d+)\^int\(idxKey\[(\d+)\]\)\]\s*([\^+-])\s*fullData\[(\d+)\^int\(idxKey\[(\d+)\]\)\]", a.strip())
            args.append("(%s, %s%%nat, %s, %s, %s%%nat)" % (m.group(1), m.group(2), OPS[m.group(3)], m.group(4), m.group(5)))
        return "Some (run_shuffle %s %s [%s])" % (fl, kl, ";".join(args))
    if obf == "split":
        i0 = re.fullmatch(r"i := (\d+)", lines[2].strip()).group(1)
        key0 = parse_atom(keys, re.fullmatch(r"decryptKey := int\((.*)\)", lines[3].strip()).group(1))
        exit_ = re.search(r"i != (\d+);", lines[4]).group(1)
        cases = []
        j = 7
        cur = None
        while j < len(lines):
            t = lines[j].strip()
            m = re.fullmatch(r"case (\d+):", t)
            if m:
                if cur:
                    cases.append(cur)
                cur = {"idx": m.group(1)}
                j += 1
                continue
            if cur is None or t in ("}", ""):
                j += 1
                continue
            m = re.fullmatch(r"i = (\d+)", t)
            if m:
                cur["next"] = m.group(1); j += 1; continue
            if t.startswith("data = append(data, func() []byte {"):
                layer, j = parse_layer(keys, lines, j)
                cur["piece"] = "PLayer %s" % layer
                continue
            m = re.fullmatch(r"data = append\(data, (.*)\)", t)
            if m:
                cur["piece"] = "PAtom %s" % parse_atom(keys, m.group(1)); j += 1; continue
            if t.startswith("for y := range data {"):
                m = re.fullmatch(r"data\[y\] = data\[y\]\s*([\^+-])\s*byte\(decryptKey\s*\^\s*y\)", lines[j + 1].strip())
                cur["dec"] = OPS[m.group(1)]
                j += 3
                continue
            raise ValueError("split: unexpected line %r" % t)
        if cur:
            cases.append(cur)
        cl = []
        for c in cases:
            if "dec" in c:
                cl.append("(%s, CDecrypt %s %s)" % (c["idx"], c["next"], c["dec"]))
            else:
                cl.append("(%s, CChunk %s (%s))" % (c["idx"], c["next"], c["piece"]))
        return "run_split %s %s %s [%s]" % (i0, exit_, key0, ";".join(cl))
    raise ValueError(obf)
