"""C06 — Cached builds never go stale."""
import os, re, shutil
import vlib, e2e
import names_common

THEOREMS = ["C06_memo_sound", "C06_noop_rebuild", "C06_key_input_injective", "C06_flags_covered",
            "C06_compile_key_unsound_refuted", "C06_compile_key_sound_without_literals"]

FILES = {
    "main.go": '''package main

import (
	"fmt"

	"example.com/hist/lib"
)

var version = "unset-version-default"

func main() { fmt.Println(lib.Greeting(), lib.Secret(3), version) }
''',
    "lib/lib.go": '''package lib

var greetingText = "hello from the library package"

func Greeting() string { return greetingText }

func Secret(n int) int { return helper(n) * 3 }

func helper(n int) int { return n + 39 }
''',
    "lib/tagged.go": '''//go:build extra

package lib

func init() { greetingText = "hello from the tagged file" }
''',
}



def key_correspondence(res, garble, r, tier):
    """addGarbleToHash (the content of every tool ID and of every package's GarbleActionID, i.e. what keys both
    caches) against Model/Names.v add_garble_to_hash, on random configurations; then pairs of configurations
    that differ in exactly one input must get different keys from the implementation."""
    n = 60 if tier == "quick" else 400
    def rnd_cfg():
        k = r.random()
        seedlen = 0 if k < 0.3 else (8 if k < 0.5 else r.randint(9, 24))
        return {"literals": r.random() < 0.5, "tiny": r.random() < 0.5, "ctrlflow": r.random() < 0.3,
                "seed": bytes(r.randrange(256) for _ in range(seedlen)),
                "gogarble": r.choice(["*", "example.com/a", "example.com/a,b/*", "x"]),
                "binary_id": bytes(r.randrange(256) for _ in range(15)),
                "testobf": r.choice(["", "", "", "simple", "swap"])}
    def req(h, c):
        return {"op": "addgarble", "in": h.hex(), "seed": c["seed"].hex(), "literals": c["literals"], "tiny": c["tiny"], "ctrlflow": c["ctrlflow"],
                "gogarble": c["gogarble"], "binary_id": c["binary_id"].hex(), "testobf": c["testobf"]}
    def coq_cfg(c):
        return ("{| c_literals := %s; c_tiny := %s; c_ctrlflow := %s; c_seed := %s; c_gogarble := %s; c_binary_id := %s; c_testobf := %s |}" % (
            vlib.coq_bool(c["literals"]), vlib.coq_bool(c["tiny"]), vlib.coq_bool(c["ctrlflow"]), vlib.nlist(c["seed"]), vlib.nlist(c["gogarble"].encode()),
            vlib.nlist(c["binary_id"]), vlib.nlist(c["testobf"].encode())))
    orc = names_common.Oracle(garble)
    cfgs = [(bytes(r.randrange(256) for _ in range(r.choice([15, 15, 32]))), rnd_cfg()) for _ in range(n)]
    outs = orc.batch([req(h, c) for h, c in cfgs])
    lits = ["(%s, %s, %s)" % (vlib.nlist(h), coq_cfg(c), vlib.nlist(bytes.fromhex(o["out"]))) for (h, c), o in zip(cfgs, outs)]
    header = "From Verif Require Import Base.Bytes Base.Sha256 Model.Names.\nOpen Scope N_scope.\n"
    bad = vlib.coq_eval_cases("c06key", header, "bytes * gcfg * bytes", lits, "(fun c => negb (beq (add_garble_to_hash (fst (fst c)) (snd (fst c))) (snd c)))", chunk=40)
    # one-input-differs pairs on the implementation
    pairs = []
    for _ in range(n):
        h, c = bytes(r.randrange(256) for _ in range(15)), rnd_cfg()
        d = dict(c)
        dim = r.choice(["literals", "tiny", "ctrlflow", "seed-tail", "seed-head", "seed-presence", "gogarble", "binary_id", "testobf", "action-id"])
        h2 = h
        if dim in ("literals", "tiny", "ctrlflow"):
            d[dim] = not c[dim]
        elif dim == "seed-tail":
            base = c["seed"] if len(c["seed"]) > 8 else bytes(r.randrange(256) for _ in range(r.randint(9, 20)))
            c = dict(c, seed=base)
            d = dict(c, seed=base[:-1] + bytes([base[-1] ^ (1 + r.randrange(255))]))
        elif dim == "seed-head":
            base = c["seed"] if c["seed"] else bytes(r.randrange(256) for _ in range(8))
            c = dict(c, seed=base)
            d = dict(c, seed=bytes([base[0] ^ 1]) + base[1:])
        elif dim == "seed-presence":
            d["seed"] = b"" if c["seed"] else bytes(r.randrange(256) for _ in range(8))
        elif dim == "gogarble":
            d["gogarble"] = c["gogarble"] + "x"
        elif dim == "binary_id":
            d["binary_id"] = bytes([c["binary_id"][0] ^ 1]) + c["binary_id"][1:]
        elif dim == "testobf":
            d["testobf"] = "shuffle" if c["testobf"] != "shuffle" else "seed"
        else:
            h2 = bytes([h[0] ^ 1]) + h[1:]
        pairs.append((dim, h, c, h2, d))
    outs2 = orc.batch([req(h, c) for _, h, c, _, _ in pairs] + [req(h2, d) for _, _, _, h2, d in pairs])
    hist = {}
    for k, (dim, h, c, h2, d) in enumerate(pairs):
        hist[dim] = hist.get(dim, 0) + 1
        if outs2[k]["out"] == outs2[len(pairs) + k]["out"]:
            show = lambda x: {kk: (vv.hex() if isinstance(vv, bytes) else vv) for kk, vv in x.items()}
            res.violation("key-collision:" + dim, "two configurations that differ in %s get the same build hash from addGarbleToHash (so both caches would serve one's results for the other): "
                          "%r vs %r" % (dim, show(c), show(d)), {"action_id": h.hex(), "action_id_2": h2.hex(), "config": show(c), "config_2": show(d), "dimension": dim})
    res.cov["key_correspondence_cases"] = len(lits)
    res.cov["key_pairs"] = hist
    if bad and not any(v[0].startswith("key-collision") for v in res.violations):
        h, c = cfgs[bad[0]]
        res.violation("key-model", "addGarbleToHash differs from Model/Names.v add_garble_to_hash on %d of %d configurations, e.g. seed=%s literals=%s tiny=%s"
                      % (len(bad), len(lits), c["seed"].hex(), c["literals"], c["tiny"]), {"action_id": h.hex(), "config": {k: (v.hex() if isinstance(v, bytes) else v) for k, v in c.items()}},
                      found_input=False)
    return len(lits) + len(pairs)


def run(res, tier, seed, replay):
    r = vlib.rng(seed)
    ok, msg = vlib.run_translators()
    proofs_ok = ok and vlib.check_proofs(res, "C06", "Properties/C06.v", THEOREMS)
    res.cov["trusted_base"] += vlib.TRUSTED_COMMON + [
        "translator: flag registrations of main.go vs the strings appendFlags writes for build hashes (go/parser)",
        "cmd/go's own action keys (source, tags, GOOS/GOARCH, per-action flags) are assumed; SHA-256 collisions are ignored (the key is treated as its input)",
        "history runner: every step built on the shared caches and, independently, from fresh caches; binaries compared by sha256 and stdout"]
    res.assumptions = ["GOGARBLE contains no space (C12's ambiguity counterexample otherwise)"]
    try:
        garble, _ = vlib.build_garble()
    except vlib.BuildError as e:
        res.violation("garble-build", "garble no longer builds: %s" % str(e)[-800:], {"error": str(e)}, found_input=False)
        return
    key_cases = key_correspondence(res, garble, r, tier)
    proj = e2e.Project("c06", FILES, module="example.com/hist")
    shared = e2e.Caches("c06-shared")
    G = "example.com/hist"
    steps = [
        ("default", [], [], G, None),
        ("-tiny", ["-tiny"], [], G, None),
        ("default-again", [], [], G, None),
        ("-literals", ["-literals"], [], G, None),
        ("F7-literals-then-ldflags-X", ["-literals"], ["-ldflags=-X=main.version=injected-later"], G, None),
        ("edit-lib", [], [], G, ("lib/lib.go", "return n + 39", "return n + 40")),
        ("tags", [], ["-tags=extra"], G, None),
        ("seedA", ["-seed=AAAAAAAAAAE"], [], G, None),
        ("gogarble-narrow", [], [], "example.com/hist/lib", None),
        ("ldflags-X-plain", [], ["-ldflags=-X=main.version=v2"], G, None),
        ("seedB", ["-seed=AAAAAAAAAAI"], [], G, None),
        ("ctrlflow", [], [], G, "ctrlflow"),
        # two seeds longer than the 8 bytes garble warns about, equal in their first 8 bytes
        ("seedLongA", ["-seed=AAECAwQFBgcI"], [], G, None),
        ("seedLongB", ["-seed=AAECAwQFBgcJ"], [], G, None),
    ]
    if tier == "quick":
        keep = {"default", "default-again", "-literals", "F7-literals-then-ldflags-X", "edit-lib"}
        steps = [s for s in steps if s[0] in keep]
    builds = 0
    first_default = None
    for name, gflags, flags, gog, edit in steps:
        env_extra = {"GOGARBLE": gog}
        if edit == "ctrlflow":
            env_extra["GARBLE_EXPERIMENTAL_CONTROLFLOW"] = "1"
        elif edit:
            p = os.path.join(proj.dir, edit[0])
            src = open(p).read()
            assert edit[1] in src
            open(p, "w").write(src.replace(edit[1], edit[2]))
        sb = os.path.join(proj.dir, "shared.bin")
        rs = e2e.garble_build(garble, proj, sb, garble_flags=gflags, flags=flags + ["-v"], caches=shared, extra_env=env_extra, timeout=1500)
        cb = os.path.join(proj.dir, "cold.bin")
        if name in ("default", "default-again"):
            # the first step runs on empty caches and is its own cold reference; "default-again" is compared with it below
            rc = rs
            shutil.copy(sb, cb)
            builds += 1
        else:
            cold = e2e.Caches("c06-cold")
            rc = e2e.garble_build(garble, proj, cb, garble_flags=gflags, flags=flags, caches=cold, extra_env=env_extra, timeout=1500)
            cold.remove()
            builds += 2
        if rs.returncode != 0 or rc.returncode != 0:
            res.violation("history-build:" + name, "step %s fails to build (shared %d, cold %d): %s" % (name, rs.returncode, rc.returncode, (rs.stderr + rc.stderr).decode()[-400:]),
                          {"files": FILES, "step": name})
            continue
        so, co = e2e.run_bin(sb)[:2], e2e.run_bin(cb)[:2]
        if e2e.sha256_file(sb) != e2e.sha256_file(cb) or so != co:
            key = name if name.startswith("F7") else "stale:" + name
            res.violation(key, "history step %r on the shared caches gives a different result than a cold build of the same configuration and source: "
                          "shared prints %r, cold prints %r" % (name, so[1][:120], co[1][:120]),
                          {"files": FILES, "history": [s[0] for s in steps[:steps.index((name, gflags, flags, gog, edit)) + 1]], "step": name})
        if name == "default":
            first_default = e2e.sha256_file(sb)
        if name == "default-again":
            compiled = [l for l in rs.stderr.decode().split("\n") if re.match(r"^[\w./-]+$", l.strip()) and l.strip()]
            if first_default and e2e.sha256_file(sb) != first_default:
                res.violation("rebuild-differs", "returning to the first configuration gives another binary than the first time", {"files": FILES})
            # nothing changed since the very first step except an intermediate -tiny build: no package may be recompiled
            if compiled:
                res.violation("noop-recompiles", "rebuilding an already built configuration recompiles %r" % compiled[:5], {"files": FILES, "compiled": compiled})
    shared.remove()
    res.cov["evaluations"] = builds + key_cases
    res.cov["distinct_nontrivial"] = len(steps)
    res.cov["history_steps"] = [s[0] for s in steps]
    res.cov["rule"] = ("one history over shared GOCACHE/GARBLE_CACHE: default, -tiny, default again (must recompile nothing), -literals, -literals with a later "
                       "-ldflags=-X (known finding), a source edit in a dependency, (thorough: tags, two seeds, a narrower GOGARBLE, controlflow), plain -X; each step "
                       "also built from fresh caches and compared bit for bit")
    res.add_sample({"history": [s[0] for s in steps]})
    if not proofs_ok and not res.violations:
        res.violation("tie-broken", "proof obligations of Properties/C06.v no longer check (%s)" % getattr(res, "broken", "see output"),
                      {"theorems": THEOREMS, "coq_output": getattr(res, "proof_output", "")[-2000:]}, found_input=False)
