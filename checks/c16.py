"""C16 — Obfuscated names are well-formed, export-preserving and stable."""
import hashlib, json, os
import vlib
from names_common import *

THEOREMS = ["C16_consts_tie", "C16_name_valid", "C16_export_preserved", "C16_pure",
            "C16_collision_requires_prefix_collision", "C16_head_classes_small", "C16_sha_shape"]


def prop_violations(name, out, ident, exported):
    """The property itself, evaluated on an implementation output."""
    bad = []
    if not (6 <= len(out) <= 12):
        bad.append("length %d not in 6..12" % len(out))
    if any(not (c.isascii() and (c.isalnum() or c == "_")) for c in out):
        bad.append("character outside [A-Za-z0-9_]")
    if out and out[0].isdigit():
        bad.append("starts with a digit")
    if ident and out and (out[0].isascii() and out[0].isupper()) != exported:
        bad.append("exportedness changed (orig exported=%s)" % exported)
    return bad


def run(res, tier, seed, replay):
    r = vlib.rng(seed)
    ok, msg = vlib.run_translators()
    proofs_ok = ok and vlib.check_proofs(res, "C16", "Properties/C16.v", THEOREMS)
    res.cov["trusted_base"] += vlib.TRUSTED_COMMON + [
        "translator translate/gen (hash.go integer constants via go/parser)",
        "python hashlib.sha256 and unicodedata (go/token.IsIdentifier/IsExported re-implemented) as independent oracles",
        "injected oracle harness/inject/main/verif_oracle.go calling hashWithCustomSalt; stub go for `garble map`"]
    res.assumptions = ["SHA-256 collision resistance is NOT assumed: the collision theorem states exactly which sum prefixes must agree",
                       "names reach hashWithCustomSalt as Go strings (UTF-8); is_ident/is_exported are go/token's answers"]

    n_cases = 600 if tier == "quick" else 6000
    n_full = 40 if tier == "quick" else 300
    try:
        garble, _ = vlib.build_garble()
    except vlib.BuildError as e:
        garble = None
        res.violation("oracle-build", "garble with the injected oracle no longer builds: %s" % str(e)[-800:],
                      {"error": str(e)}, found_input=False)
        return

    # ---- corpus first, then generated cases
    cases = []
    corpus = [(b"ab", b"", "Foo"), (b"\x00", b"", "_"), (b"x", b"12345678", "main"), (b"p|", b"\xff" * 8, "É"),
              (b"q", b"", "a-b"), (b"q", b"", "9lives"), (b"q" * 64, b"", "x" * 200)]
    for s, sd, n in corpus:
        cases.append((s, sd, n))
    # force every leading base64 symbol x name class by search over names
    want = {(sym, cls) for sym in range(64) for cls in ("exp", "unexp", "nonid")}
    tries = 0
    while want and tries < 60000:
        tries += 1
        cls = r.choice(("exp", "unexp", "nonid"))
        name = gen_ident(r, cls == "exp") if cls != "nonid" else gen_nonident(r)
        salt = bytes([r.randrange(256)])
        d = hashlib.sha256(salt + name.encode()).digest()
        key = (d[0] >> 2, cls)
        if key in want:
            want.discard(key)
            cases.append((salt, b"", name))
    while len(cases) < n_cases:
        name = gen_ident(r) if r.random() < 0.7 else gen_nonident(r)
        cases.append((gen_salt(r), gen_seed(r), name))
    # purity: repeat a tenth of the cases at random later positions (shared Go globals in between)
    reps = [r.choice(cases) for _ in range(len(cases) // 10)]
    all_cases = cases + reps
    order = list(range(len(all_cases)))
    r.shuffle(order)
    orc = Oracle(garble)
    outs = orc.batch([{"op": "hash", "salt": all_cases[i][0].hex(), "seed": all_cases[i][1].hex(), "name": all_cases[i][2]} for i in order])
    got = {}
    impure = []
    for pos, i in enumerate(order):
        o = outs[pos].get("out")
        if o is None:
            res.violation("oracle-panic", "hashWithCustomSalt panicked on %r: %s" % (all_cases[i], outs[pos]),
                          {"case": repr(all_cases[i])})
            return
        k = all_cases[i]
        if k in got and got[k] != o:
            impure.append((k, got[k], o))
        got[k] = o
    for k, a, b in impure[:3]:
        res.violation("impure", "hashWithCustomSalt%r returned %r and %r in one process" % (k, a, b),
                      {"salt": k[0].hex(), "seed": k[1].hex(), "name": k[2], "outputs": [a, b]})

    # ---- Coq: name_of_sum on the (independently computed) digest, and full hash_custom on a sample
    lits = []
    meta = []
    hist = {"ident_exp": 0, "ident_unexp": 0, "nonident": 0, "unicode": 0, "seeded": 0,
            "digit_fix": 0, "dash_fix": 0, "underscore_first": 0, "lens": {}}
    nontrivial = set()
    for (salt, sd, name) in cases:
        nb = name.encode()
        d = hashlib.sha256(salt + sd + nb).digest()
        ident, exp = is_identifier(name), is_exported(name)
        out = got[(salt, sd, name)]
        hist["ident_exp" if ident and exp else "ident_unexp" if ident else "nonident"] += 1
        hist["unicode"] += any(ord(c) > 127 for c in name)
        hist["seeded"] += bool(sd)
        raw = b64url(d[:9])[:6 + d[9] % 7]
        fired = []
        if raw[0].isdigit():
            hist["digit_fix"] += 1; fired.append("digit")
        if "-" in raw:
            hist["dash_fix"] += 1; fired.append("dash")
        if raw[0] == "_":
            hist["underscore_first"] += 1; fired.append("underscore")
        if ident and (raw[0].isupper() != exp):
            fired.append("case")
        hist["lens"][len(out)] = hist["lens"].get(len(out), 0) + 1
        if fired:
            nontrivial.add((salt, sd, name))
        lits.append("(%s, %s, %s, %s)" % (vlib.nlist(d), vlib.coq_bool(ident), vlib.coq_bool(exp), vlib.nlist(out.encode())))
        meta.append((salt, sd, name, out, ident, exp))
    header = "From Verif Require Import Base.Bytes Model.Names Proofs.NamesProofs.\nOpen Scope N_scope.\n"
    bad = vlib.coq_eval_cases("c16a", header, "bytes * bool * bool * str", lits,
                              "(fun c => match c with (d, i, e, o) => negb (beq (name_of_sum d i e) o) end)")
    full = meta[:len(corpus)] + [meta[i] for i in sorted(r.sample(range(len(meta)), min(n_full, len(meta))))]
    lits2 = ["(%s, %s, %s, %s, %s, %s)" % (vlib.nlist(s), vlib.nlist(sd), vlib.nlist(n.encode()), vlib.coq_bool(i), vlib.coq_bool(e), vlib.nlist(o.encode()))
             for (s, sd, n, o, i, e) in full]
    header2 = header + "From Verif Require Import Base.Sha256.\n"
    bad2 = vlib.coq_eval_cases("c16b", header2, "bytes * bytes * bytes * bool * bool * str", lits2,
                               "(fun c => match c with (s, sd, n, i, e, o) => negb (beq (hash_custom s sd n i e) o) end)", chunk=20)
    res.cov["evaluations"] = len(all_cases) + len(full)
    res.cov["distinct_nontrivial"] = len(nontrivial)
    res.cov["rule"] = ("(salt, seed, name) triples: corpus, one per leading base64 symbol x {exported, unexported, non-identifier} found by "
                       "search, random ASCII/Unicode identifiers, paths, positions; non-trivial = a fix-up (digit, dash, underscore, case) fired")
    res.cov["histogram"] = hist
    res.cov["leading_symbol_classes_missing"] = len(want)
    for m in meta[:4]:
        res.add_sample({"salt": m[0].hex(), "seed": m[1].hex(), "name": m[2], "obfuscated": m[3]})

    # ---- black-box: garble [-seed] map through the stub go
    stub = vlib.Stub()
    nruns = 6 if tier == "quick" else 40
    bb = 0
    for k in range(nruns):
        sd = bytes(r.randrange(256) for _ in range(8)) if k % 2 == 0 else b""
        names = []
        while len(names) < 25:
            n = gen_ident(r)
            if n not in names and n not in ("main", "init", "_") and not n.startswith("Test"):
                names.append(n)
        pdir = os.path.join(stub.dir, "pkg%d" % k)
        os.makedirs(pdir, exist_ok=True)
        with open(os.path.join(pdir, "a.go"), "w") as f:
            f.write("package p\n\n" + "".join("type %s int\n" % n for n in names))  # types always have an objectpath
        ipath = "example.com/mod%d/p" % k
        aid = bytes(r.randrange(256) for _ in range(15))
        bid = bytes(r.randrange(256) for _ in range(15))
        rec = stub_pkg_record(pdir, ipath, "p", ["a.go"], aid)
        flags = ["-seed=" + std_b64(sd)] if sd else []
        pr, _ = run_map(garble, stub, [rec], flags, binary_id=bid)
        if pr.returncode != 0:
            res.violation("map-failed", "garble map failed on a one-file package: %s" % pr.stderr.decode()[-500:],
                          {"flags": flags, "names": names}, found_input=False)
            break
        objs = json.loads(pr.stdout)[ipath]["objects"]
        if sd:
            salt = ipath.encode() + b"|"
        else:
            salt = hashlib.sha256(aid + bid + b" GOGARBLE=*").digest()
        for n in names:
            bb += 1
            out = objs.get(n)
            if out is None:
                res.violation("map-missing", "garble map does not list package-level type %r" % n, {"name": n, "flags": flags})
                continue
            d = hashlib.sha256(salt + sd + n.encode()).digest()
            lits.append("(%s, %s, %s, %s)" % (vlib.nlist(d), vlib.coq_bool(True), vlib.coq_bool(is_exported(n)), vlib.nlist(out.encode())))
            meta.append((salt, sd, n, out, True, is_exported(n)))
    bad3 = vlib.coq_eval_cases("c16c", header, "bytes * bool * bool * str", lits[len(cases):],
                               "(fun c => match c with (d, i, e, o) => negb (beq (name_of_sum d i e) o) end)") if len(lits) > len(cases) else []
    res.cov["evaluations"] += bb
    res.cov["blackbox_map_names"] = bb

    # ---- the property itself on every implementation output (the search for a failing input)
    found = False
    for (salt, sd, name, out, ident, exp) in meta:
        pv = prop_violations(name, out, ident, exp)
        if pv:
            found = True
            res.violation("name:" + "/".join(pv)[:40], "hashWithCustomSalt(salt=%s, seed=%s, %r) = %r: %s" % (salt.hex(), sd.hex(), name, out, "; ".join(pv)),
                          {"salt": salt.hex(), "seed": sd.hex(), "name": name, "obfuscated": out, "is_identifier": ident, "is_exported": exp})
    mism = [meta[i] for i in bad] + [full[i] for i in bad2] + [meta[len(cases) + i] for i in bad3]
    if (mism or not proofs_ok or not ok) and not found and not impure:
        what = []
        if not ok:
            what.append("translator failed: " + msg[:300])
        elif not proofs_ok:
            what.append("proof obligations of Properties/C16.v no longer check (%s)" % getattr(res, "broken", "see output"))
        if mism:
            m = mism[0]
            what.append("correspondence Names.name_of_sum/hash_custom vs hashWithCustomSalt differs on %d cases, e.g. salt=%s seed=%s name=%r impl=%r"
                        % (len(mism), m[0].hex(), m[1].hex(), m[2], m[3]))
        res.violation("tie-broken", "; ".join(what), {"theorems": THEOREMS, "mismatches": [repr(x) for x in mism[:10]],
                                                      "coq_output": getattr(res, "proof_output", "")[-2000:]}, found_input=False)
