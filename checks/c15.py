"""C15 — Identical struct types get identical field names everywhere."""
import hashlib, json, os, shutil, subprocess
import vlib, e2e
from names_common import *

THEOREMS = ["C15_identical_same_hash", "C15_identical_same_field_names", "C15_hash_ignores_tags",
            "C15_hash_stable_under_instantiation", "C15_hash_ignores_package"]

FIELD_NAMES = ["A", "B", "Name", "id", "value", "Next", "mu", "X", "Y", "αβ", "Ñame", "x1"]
TYPES = ["int", "string", "[]byte", "*int", "map[string]int", "float64", "[4]byte", "func(int) string", "chan int", "any"]


def base32(v):
    digits = "0123456789abcdefghijklmnopqrstuv"
    if v == 0:
        return "0"
    s = ""
    while v:
        s = digits[v % 32] + s
        v //= 32
    return s


def gen_struct(r, embeds):
    n = r.choice([0, 1, 2, 2, 3, 4, 6])
    names = r.sample(FIELD_NAMES, min(n, len(FIELD_NAMES)))
    fields = []
    for nm in names:
        fields.append((nm, r.choice(TYPES), r.choice(["", "", 'json:"%s"' % nm.lower(), 'x:"y"'])))
    if embeds and r.random() < 0.4:
        e = r.choice(embeds)
        fields.insert(r.randint(0, len(fields)), (None, r.choice(["", "*"]) + e, r.choice(["", 'json:"-"'])))
    return fields


def render_struct(fields, tparam=None):
    parts = []
    for nm, ty, tag in fields:
        t = ty
        if tparam and ty == "int" and nm is not None:
            t = tparam
        line = ("%s %s" % (nm, t)) if nm else t
        if tag:
            line += " `%s`" % tag
        parts.append(line)
    return "struct {\n\t" + "\n\t".join(parts) + "\n}" if parts else "struct{}"


def gen_packages(r, k):
    """Three packages; p0 declares base types, p1/p2 re-declare identical and near-identical shapes."""
    pkgs = []
    shapes = []
    src0 = "package p0\n\ntype Base struct{ BaseField int }\ntype Other struct{ O string }\n"
    for i in range(4):
        fs = gen_struct(r, ["Base", "Other"])
        shapes.append(fs)
        src0 += "type S%d %s\n" % (i, render_struct(fs))
    gfs = gen_struct(r, [])
    src0 += "type G[T any] %s\n" % render_struct(gfs, "T")
    src0 += "type GI = G[int]\ntype GS = G[string]\n"
    src0 += "var V0 %s\n" % render_struct(shapes[0])
    pkgs.append({"path": "example.com/k%d/p0" % k, "src": src0})
    for pi in (1, 2):
        src = "package p%d\n\nimport \"example.com/k%d/p0\"\n\nvar _ p0.Base\n\n" % (pi, k)
        for i, fs in enumerate(shapes):
            variant = r.choice(["same", "tags", "reorder", "rename", "alias"])
            fs2 = list(fs)
            if variant == "tags":
                fs2 = [(n, t, 'other:"%d"' % j) for j, (n, t, _) in enumerate(fs)]
            elif variant == "reorder" and len(fs2) > 1:
                fs2 = fs2[1:] + fs2[:1]
            elif variant == "rename" and fs2:
                j = r.randrange(len(fs2))
                if fs2[j][0]:
                    fs2[j] = (fs2[j][0] + "Z", fs2[j][1], fs2[j][2])
            fs2 = [(n, (t if n else t.replace("Base", "p0.Base").replace("Other", "p0.Other")), tag) for (n, t, tag) in fs2]
            if variant == "alias":
                src += "type S%d = p0.S%d\n" % (i, i)
            else:
                src += "type S%d %s\n" % (i, render_struct(fs2))
        pkgs.append({"path": "example.com/k%d/p%d" % (k, pi), "src": src})
    return pkgs


def run(res, tier, seed, replay):
    r = vlib.rng(seed)
    ok, msg = vlib.run_translators()
    proofs_ok = ok and vlib.check_proofs(res, "C15", "Properties/C15.v", THEOREMS)
    res.cov["trusted_base"] += vlib.TRUSTED_COMMON + [
        "harness/typeutil/verif_main.go compiled with /repo's bundled_typeutil.go and bundled_typeparams.go copied unmodified",
        "go/types.IdenticalIgnoreTags as the specification of struct identity; stub go + `garble map` for field names; one real build"]
    res.assumptions = ["every call of typeutil_hash in /repo passes a *types.Struct (checked: single call site in hash.go)"]
    # the only call site of typeutil_hash must be hashWithStruct's
    import re
    calls = []
    for fn in os.listdir(vlib.REPO):
        if fn.endswith(".go") and not fn.startswith("bundled_"):
            txt = open(os.path.join(vlib.REPO, fn)).read()
            calls += [(fn, m.start()) for m in re.finditer(r"typeutil_hash\(", txt)]
    res.cov["typeutil_hash_call_sites"] = [c[0] for c in calls]
    # ---- 1. the bundled hasher, compiled as-is
    hdir = vlib.sub("typeutil-harness")
    for f in os.listdir(os.path.join(vlib.VERIF, "harness", "typeutil")):
        shutil.copy(os.path.join(vlib.VERIF, "harness", "typeutil", f), hdir)
    for f in ("bundled_typeutil.go", "bundled_typeparams.go"):
        shutil.copy(os.path.join(vlib.REPO, f), hdir)
    try:
        hbin = vlib.build_go(hdir, os.path.join(vlib.sub("bin"), "typeutil-harness"))
    except vlib.BuildError as e:
        res.violation("harness-build", "bundled_typeutil.go no longer compiles stand-alone with the harness: %s" % str(e)[-600:], {"error": str(e)}, found_input=False)
        return
    n = 40 if tier == "quick" else 600
    lits, meta = [], []
    ident_pairs = 0
    hist = {"structs": 0, "identical_pairs": 0, "instances": 0, "embedded": 0, "tagged": 0, "empty": 0}
    nontrivial = set()
    all_sets = []
    for k in range(n):
        pkgs = gen_packages(r, k)
        pr = subprocess.run([hbin], input=json.dumps(pkgs).encode(), stdout=subprocess.PIPE, stderr=subprocess.PIPE)
        if pr.returncode != 0:
            raise RuntimeError("typeutil harness failed: %s\n%s" % (pr.stderr.decode()[-500:], pkgs))
        js = json.loads(pr.stdout)
        for st in js["structs"]:
            st["fields"] = st["fields"] or []
        js["identical"] = js["identical"] or []
        all_sets.append((pkgs, js))
        for st in js["structs"]:
            hist["structs"] += 1
            hist["embedded"] += any(f["embedded"] for f in st["fields"])
            hist["tagged"] += any(f["tag"] for f in st["fields"])
            hist["empty"] += not st["fields"]
            fl = "[" + ";".join("{| f_name := %s; f_embedded := %s; f_tag := %s; f_pkg := %s; f_type := tt |}" % (
                vlib.nlist(f["name"].encode()), vlib.coq_bool(f["embedded"]), vlib.nlist(f["tag"].encode()), vlib.nlist(f["pkg"].encode()))
                for f in st["fields"]) + "]"
            lits.append("(%s, %d)" % (fl, st["hash"]))
            meta.append((k, st))
        for i, j in js["identical"]:
            hist["identical_pairs"] += 1
            a, b = js["structs"][i], js["structs"][j]
            nontrivial.add((k, i, j))
            if a["hash"] != b["hash"]:
                res.violation("identical-different-hash", "go/types calls %s.%s and %s.%s identical (ignoring tags) but typeutil_hash differs: %d vs %d"
                              % (a["pkg"], a["obj"], b["pkg"], b["obj"], a["hash"], b["hash"]), {"packages": pkgs, "a": a, "b": b})
        for st in js["structs"]:
            if st["kind"] == "instance" and st["origin"] >= 0:
                hist["instances"] += 1
                o = js["structs"][st["origin"]]
                if o["hash"] != st["hash"]:
                    res.violation("instance-different-hash", "the instantiation %s.%s hashes differently from its generic origin %s: %d vs %d"
                                  % (st["pkg"], st["obj"], o["obj"], st["hash"], o["hash"]), {"packages": pkgs, "instance": st, "origin": o})
    header = "From Verif Require Import Base.Bytes Model.Names Model.TypeShape.\nOpen Scope N_scope.\n"
    bad = vlib.coq_eval_cases("c15a", header, "list (field unit) * N", lits, "(fun c => negb (struct_hash (fst c) =? snd c))")
    res.cov["evaluations"] = len(lits)

    # ---- 2. black box: field names through `garble map` (seeded and unseeded), identical structs in different packages
    try:
        garble, _ = vlib.build_garble()
    except vlib.BuildError as e:
        res.violation("garble-build", "garble no longer builds: %s" % str(e)[-800:], {"error": str(e)}, found_input=False)
        return
    stub = vlib.Stub()
    nb = 6 if tier == "quick" else 60
    lits2, meta2 = [], []
    for k in range(nb):
        sd = bytes(r.randrange(256) for _ in range(8)) if k % 2 == 0 else b""
        bid = bytes(r.randrange(256) for _ in range(15))
        shapes = [gen_struct(r, []) for _ in range(3)]
        recs = []
        for pi in range(2):
            d = os.path.join(stub.dir, "c15", "k%d" % k, "p%d" % pi)
            os.makedirs(d, exist_ok=True)
            src = "package p%d\n\n" % pi
            for i, fs in enumerate(shapes):
                fs2 = fs if pi == 0 else [(nm, t, 'z:"%d"' % j) for j, (nm, t, _) in enumerate(fs)]
                src += "type S%d %s\n" % (i, render_struct(fs2))
            src += "type G[T any] %s\ntype GI = G[int]\nvar VI GI\n" % render_struct(shapes[0], "T")
            open(os.path.join(d, "a.go"), "w").write(src)
            recs.append(stub_pkg_record(d, "example.com/f%d/p%d" % (k, pi), "p%d" % pi, ["a.go"], bytes([pi + 1]) * 15))
        flags = ["-seed=" + std_b64(sd)] if sd else []
        pr, _ = run_map(garble, stub, recs, flags, binary_id=bid)
        if pr.returncode != 0:
            res.violation("map-failed", "garble map failed on struct packages: %s" % pr.stderr.decode()[-400:], {}, found_input=False)
            break
        js = json.loads(pr.stdout)
        per_pkg = []
        for pi in range(2):
            objs = js["example.com/f%d/p%d" % (k, pi)]["objects"]
            per_pkg.append(objs)
            for i, fs in enumerate(shapes + [shapes[0]]):
                tname = "S%d" % i if i < len(shapes) else "G"
                # model hash of this shape (python transcription, itself checked against Coq and the impl above)
                h = 9059
                for idx, (nm, t, _) in enumerate(fs):
                    hs = 0
                    for byte in nm.encode():
                        hs = ((hs ^ byte) * 16777619) % (1 << 32)
                    h = (h + (idx + 1) * hs) % (1 << 32)
                salt = base32(h).encode()
                if not sd:
                    salt = hashlib.sha256(salt + bid + b" GOGARBLE=*").digest()
                for idx, (nm, t, _) in enumerate(fs):
                    key = "%s.UF%d" % (tname, idx)
                    o = objs.get(key)
                    if o is None:
                        continue
                    dg = hashlib.sha256(salt + sd + nm.encode()).digest()
                    lits2.append("(%s, %s, %s)" % (vlib.nlist(dg), vlib.coq_bool(is_exported(nm)), vlib.nlist(o.encode())))
                    meta2.append((k, pi, key, nm, o))
        # identical structs across the two packages: same field names
        for key, o in per_pkg[0].items():
            if ".UF" in key and key in per_pkg[1] and per_pkg[1][key] != o:
                res.violation("cross-package-field", "identical structs in two packages get different names for %s: %r vs %r" % (key, o, per_pkg[1][key]),
                              {"key": key, "seed": sd.hex()})
    bad2 = vlib.coq_eval_cases("c15b", header, "bytes * bool * str", lits2,
                               "(fun c => match c with (d, e, o) => negb (beq (name_of_sum d true e) o) end)") if lits2 else []
    res.cov["evaluations"] += len(lits2)
    res.cov["blackbox_field_names"] = len(lits2)
    res.cov["distinct_nontrivial"] = len(nontrivial)
    res.cov["rule"] = ("three-package sets of struct types (shared field-name pool, embedded fields, tags, generic type + instantiations, anonymous "
                       "struct variables; variants: same/retagged/reordered/renamed/aliased) hashed by the unmodified bundled hasher; non-trivial = a pair "
                       "go/types.IdenticalIgnoreTags calls identical")
    res.cov["histogram"] = hist
    for m in meta[:3]:
        res.add_sample({"pkg": m[1]["pkg"], "obj": m[1]["obj"], "fields": [f["name"] for f in m[1]["fields"]], "hash": m[1]["hash"]})

    # ---- 3. real toolchain: conversions, assignments, literals and selections between identical structs
    files = {
        "main.go": '''package main

import (
	"fmt"
	"example.com/proj/a"
	"example.com/proj/b"
)

type Local struct {
	Name  string `json:"n"`
	Count int
	a.Base
}

type Pair[T any] struct{ First, Second T }

func main() {
	x := a.Rec{Name: "x", Count: 3, Base: a.Base{ID: 7}}
	y := b.Rec(x)
	z := Local(y)
	anon := struct {
		Name  string
		Count int
		a.Base
	}(z)
	anon.Count++
	w := a.Rec(anon)
	p := Pair[int]{1, 2}
	q := b.IntPair(p)
	fmt.Println(x.Name, y.Count, z.ID, anon.Count, w.Base.ID, q.First+q.Second, b.Sum(a.Rec(z)), a.FromAnon(struct{ X, Y int }{3, 4}))
}
''',
        "a/a.go": '''package a

type Base struct{ ID int }

type Rec struct {
	Name  string `yaml:"name"`
	Count int
	Base
}

func FromAnon(v struct{ X, Y int }) int { return v.X*10 + v.Y }
''',
        "b/b.go": '''package b

import "example.com/proj/a"

type Rec struct {
	Name  string
	Count int `db:"count"`
	a.Base
}

type IntPair struct{ First, Second int }

func Sum(r a.Rec) int { return r.Count + r.ID + len(r.Name) }
''',
    }
    proj = e2e.Project("c15", files)
    caches = e2e.Caches("c15")
    pb, gb = os.path.join(proj.dir, "plain.bin"), os.path.join(proj.dir, "garbled.bin")
    rp = e2e.plain_build(proj, pb, caches=caches)
    if rp.returncode != 0:
        raise RuntimeError("plain build failed: " + rp.stderr.decode()[-800:])
    for gflags in ([], ["-seed=AAAAAAAAAAE"]):
        rg = e2e.garble_build(garble, proj, gb, garble_flags=gflags, caches=caches)
        if rg.returncode != 0:
            res.violation("e2e-build:" + " ".join(gflags), "garble %s build fails on conversions between identical structs: %s" % (gflags, rg.stderr.decode()[-500:]),
                          {"files": files, "flags": gflags})
        elif e2e.run_bin(pb)[:2] != e2e.run_bin(gb)[:2]:
            res.violation("e2e-behaviour:" + " ".join(gflags), "conversion program prints %r plainly but %r garbled" % (e2e.run_bin(pb)[1], e2e.run_bin(gb)[1]),
                          {"files": files, "flags": gflags})
    res.cov["e2e_builds"] = 3
    caches.remove()

    mism = [("struct_hash", meta[i][1]["obj"], meta[i][1]["hash"]) for i in bad] + [("field name", meta2[i]) for i in bad2]
    if (mism or not proofs_ok) and not res.violations:
        what = []
        if not proofs_ok:
            what.append("proof obligations of Properties/C15.v no longer check (%s)" % getattr(res, "broken", "see output"))
        if mism:
            what.append("correspondence TypeShape.struct_hash / field names vs implementation differs on %d cases, e.g. %r" % (len(mism), mism[0]))
        res.violation("tie-broken", "; ".join(what), {"theorems": THEOREMS, "mismatches": [repr(x) for x in mism[:10]]}, found_input=False)
