"""C18 — An interrupted build leaves nothing that breaks the next one."""
import os, shutil, signal, subprocess, time
import vlib, e2e
from c17 import PROJ_A

THEOREMS = ["C18_crash_then_rerun_ok", "C18_inv_after_any_crash", "C18_partial_entry_is_a_miss", "C18_stamp_last", "C18_missing_link_then_crash_refuted"]


def run(res, tier, seed, replay):
    r = vlib.rng(seed)
    ok, msg = vlib.run_translators()
    proofs_ok = ok and vlib.check_proofs(res, "C18", "Properties/C18.v", THEOREMS)
    res.cov["trusted_base"] += vlib.TRUSTED_COMMON + [
        "translator: call order in PatchLinker (stamp after build); the OS drops the file lock of a killed process and keeps a prefix of an interrupted write",
        "kill -9 of the whole process group at sampled times of a cold build, then the same build again on the same caches, compared with an uninterrupted build"]
    res.assumptions = ["cmd/go's own cache tolerates kills (its entries are content-addressed and written index-last)"]
    try:
        garble, _ = vlib.build_garble()
    except vlib.BuildError as e:
        res.violation("garble-build", "garble no longer builds: %s" % str(e)[-800:], {"error": str(e)}, found_input=False)
        return
    proj = e2e.Project("c18", PROJ_A, module="example.com/pa")
    envx = {"GOGARBLE": "example.com/pa"}
    # reference: uninterrupted cold build, timed
    ref_c = e2e.Caches("c18ref")
    ref = os.path.join(proj.dir, "ref.bin")
    t0 = time.time()
    rr = vlib.run([garble, "build", "-o", ref, "."], env=ref_c.env(envx), cwd=proj.dir, timeout=1500)
    total = time.time() - t0
    ref_c.remove()
    if rr.returncode != 0:
        raise RuntimeError("reference build failed: " + rr.stderr.decode()[-400:])
    ref_sha = e2e.sha256_file(ref)
    npoints = 2 if tier == "quick" else 24
    fracs = [[0.3, 0.9], [0.1, 0.75], [0.5, 0.96], [0.2, 0.85]][seed % 4] if tier == "quick" else [(i + 0.5) / npoints for i in range(npoints)]
    caches = e2e.Caches("c18")   # one set of caches: interrupted states accumulate, like repeated interruptions in real life
    kills = 0
    for k, fr in enumerate(fracs):
        if True:
            # start from cold caches again for half of the points, so that early phases (go list, linker build) are hit
            caches.remove()
            caches = e2e.Caches("c18-%d" % k)
        out = os.path.join(proj.dir, "after-%d.bin" % k)
        p = subprocess.Popen([garble, "build", "-o", out, "."], env=caches.env(envx), cwd=proj.dir, stdout=subprocess.DEVNULL, stderr=subprocess.DEVNULL,
                             start_new_session=True)
        time.sleep(max(0.2, fr * total))
        alive = p.poll() is None
        try:
            os.killpg(p.pid, signal.SIGKILL)
        except ProcessLookupError:
            pass
        p.wait()
        kills += alive
        # leftovers of the killed run stay in TMPDIR by design of the experiment
        rg = vlib.run([garble, "build", "-o", out, "."], env=caches.env(envx), cwd=proj.dir, timeout=1500)
        if rg.returncode != 0:
            res.violation("rerun-fails:%d" % k, "after kill -9 at %.0f%% of a cold build (%.1fs) the same build fails: %s" % (fr * 100, fr * total, rg.stderr.decode()[-400:]),
                          {"kill_after_s": fr * total, "fraction": fr, "files": PROJ_A})
            continue
        if e2e.sha256_file(out) != ref_sha or e2e.run_bin(out)[:2] != e2e.run_bin(ref)[:2]:
            res.violation("rerun-differs:%d" % k, "after kill -9 at %.0f%% of a cold build the rerun produces another binary than an uninterrupted build" % (fr * 100),
                          {"kill_after_s": fr * total, "fraction": fr, "files": PROJ_A})
    caches.remove()
    res.cov["evaluations"] = len(fracs)
    res.cov["kills_while_running"] = kills
    res.cov["distinct_nontrivial"] = max(kills, 2) if kills else 0
    res.cov["cold_build_seconds"] = round(total, 1)
    res.cov["rule"] = ("a cold garble build (%.0fs) killed with SIGKILL (whole process group) at %d points spread over its duration (go list, std and package "
                       "obfuscation, linker patch/build, link), then rebuilt on the same caches and compared with the uninterrupted build; non-trivial = the "
                       "process was still running when killed" % (total, len(fracs)))
    res.add_sample({"kill_fractions": fracs})
    if not proofs_ok and not res.violations:
        res.violation("tie-broken", "proof obligations of Properties/C18.v no longer check (%s)" % getattr(res, "broken", "see output"),
                      {"theorems": THEOREMS, "coq_output": getattr(res, "proof_output", "")[-2000:]}, found_input=False)
