"""C18 — An interrupted build leaves nothing that breaks the next one."""
import os, shutil, signal, subprocess, time
import vlib, e2e
from c17 import PROJ_A

THEOREMS = ["C18_crash_then_rerun_ok", "C18_inv_after_any_crash", "C18_partial_entry_is_a_miss", "C18_stamp_last", "C18_crash_search_clean",
            "C18_crash_search_finds_stamp_first", "C18_missing_link_then_crash_refuted"]


def model_crash_search():
    """Model/Linker.v crash_search on the call order regenerated from /repo: (description, raw) of a bad kill point, or None."""
    d = vlib.sub("c18-search")
    path = os.path.join(d, "Search.v")
    open(path, "w").write("From Verif Require Import Base.Bytes Model.Linker.\nFrom Verif Require Gen.LinkerProtocol.\n"
                          "Definition found := Eval vm_compute in crash_search Gen.LinkerProtocol.patch_linker_calls.\nPrint found.\n")
    r = subprocess.run(["timeout", "300", "coqc", "-Q", vlib.COQ, "Verif", path], cwd=d, stdout=subprocess.PIPE, stderr=subprocess.STDOUT)
    out = r.stdout.decode(errors="replace")
    import re
    m = re.search(r"found\s*=\s*(.*?)\s*:\s*option", out, re.S)
    if r.returncode != 0 or not m:
        return ("crash_search could not be evaluated", out[-500:])
    txt = " ".join(m.group(1).split())
    if txt.startswith("None"):
        return None
    init = {"SStale, KStale": "a linker and stamp of another Go/garble version are in GARBLE_CACHE/tool", "SNone, KAbsent": "GARBLE_CACHE/tool is empty",
            "SCurrent, KCurrent": "a current linker is cached"}
    for k, v in init.items():
        if k in txt:
            n = re.search(r"(\d+)%nat", txt)
            return ("%s; the build is killed after disk effect #%s of PatchLinker's calls in their current order; the next run finds a matching stamp next to a linker "
                    "that is not this version's complete linker and uses it" % (v, n.group(1) if n else "?"), txt)
    return ("bad kill point: " + txt, txt)


def stale_linker_history(res, garble, proj, envx, ref_sha, ref):
    """The history crash_search describes, on the implementation: another version's linker and stamp in the cache, the build
    killed while PatchLinker rebuilds the linker, then the same build again.  Returns True if it ran."""
    caches = e2e.Caches("c18-stale")
    env = caches.env(envx)
    tool = os.path.join(env["GARBLE_CACHE"], "tool")
    os.makedirs(tool, exist_ok=True)
    stock = vlib.run(["go", "tool", "-n", "link"], env=env).stdout.decode().strip()
    if not stock or not os.path.exists(stock):
        caches.remove()
        return False
    shutil.copy(stock, os.path.join(tool, "link"))
    os.chmod(os.path.join(tool, "link"), 0o755)
    open(os.path.join(tool, "link.version"), "w").write("go1.0.0 another-garble-version\n")
    planted = e2e.sha256_file(os.path.join(tool, "link"))
    out = os.path.join(proj.dir, "after-stale.bin")
    p = subprocess.Popen([garble, "build", "-o", out, "."], env=env, cwd=proj.dir, stdout=subprocess.DEVNULL, stderr=subprocess.DEVNULL, start_new_session=True)
    # wait until PatchLinker has started on the linker sources (overlay.json in the shared temp dir), then a little longer
    t0, seen = time.time(), False
    while time.time() - t0 < 600 and p.poll() is None:
        for root, dirs, files in os.walk(env["TMPDIR"]):
            if "overlay.json" in files and "linker-src" in root:
                seen = True
                break
            if root.count(os.sep) - env["TMPDIR"].count(os.sep) > 2:
                dirs[:] = []
        if seen:
            break
        time.sleep(0.2)
    time.sleep(1.5)
    alive = p.poll() is None
    try:
        os.killpg(p.pid, signal.SIGKILL)
    except ProcessLookupError:
        pass
    p.wait()
    stamp_after = open(os.path.join(tool, "link.version")).read().strip() if os.path.exists(os.path.join(tool, "link.version")) else ""
    rg = vlib.run([garble, "build", "-o", out, "."], env=env, cwd=proj.dir, timeout=1500)
    ctx = {"history": ["plant the stock cmd/link and a foreign link.version in GARBLE_CACHE/tool", "garble build, kill -9 of the process group 1.5 s after linker-src/overlay.json appears",
                       "garble build again on the same caches"], "killed_while_running": alive and seen, "stamp_after_kill": stamp_after, "files": PROJ_A}
    if rg.returncode != 0:
        res.violation("stale-linker-rerun-fails", "with another version's linker cached, a kill during the linker rebuild makes the next build fail: %s" % rg.stderr.decode()[-300:], ctx)
    else:
        link_now = e2e.sha256_file(os.path.join(tool, "link")) if os.path.exists(os.path.join(tool, "link")) else ""
        if link_now == planted or e2e.sha256_file(out) != ref_sha or e2e.run_bin(out)[:2] != e2e.run_bin(ref)[:2]:
            res.violation("stale-linker-reused", "with another version's linker cached, after a kill during the linker rebuild the next build %s (stamp after the kill: %r)"
                          % ("keeps using the other version's linker" if link_now == planted else "produces another binary than an uninterrupted build", stamp_after), ctx)
    caches.remove()
    res.cov["stale_linker_history_killed_in_window"] = bool(alive and seen)
    return True


def run(res, tier, seed, replay):
    r = vlib.rng(seed)
    ok, msg = vlib.run_translators()
    proofs_ok = ok and vlib.check_proofs(res, "C18", "Properties/C18.v", THEOREMS)
    res.cov["trusted_base"] += vlib.TRUSTED_COMMON + [
        "translator: call order in PatchLinker (stamp after build); the OS drops the file lock of a killed process and keeps a prefix of an interrupted write",
        "kill -9 of the whole process group at sampled times of a cold build, then the same build again on the same caches, compared with an uninterrupted build"]
    res.assumptions = ["cmd/go's own cache tolerates kills (its entries are content-addressed and written index-last)"]
    try:
        garble, _ = vlib.build_garble()
    except vlib.BuildError as e:
        res.violation("garble-build", "garble no longer builds: %s" % str(e)[-800:], {"error": str(e)}, found_input=False)
        return
    proj = e2e.Project("c18", PROJ_A, module="example.com/pa")
    envx = {"GOGARBLE": "example.com/pa"}
    # reference: uninterrupted cold build, timed
    ref_c = e2e.Caches("c18ref")
    ref = os.path.join(proj.dir, "ref.bin")
    t0 = time.time()
    rr = vlib.run([garble, "build", "-o", ref, "."], env=ref_c.env(envx), cwd=proj.dir, timeout=1500)
    total = time.time() - t0
    ref_c.remove()
    if rr.returncode != 0:
        raise RuntimeError("reference build failed: " + rr.stderr.decode()[-400:])
    ref_sha = e2e.sha256_file(ref)
    search = None
    if not proofs_ok or tier != "quick":
        # the model's own search for a bad kill point in the current call order, then that history on the implementation
        search = model_crash_search() if ok else None
        if search:
            res.cov["model_crash_search"] = search[0]
        stale_linker_history(res, garble, proj, envx, ref_sha, ref)
    npoints = 2 if tier == "quick" else 24
    fracs = [[0.3, 0.9], [0.1, 0.75], [0.5, 0.96], [0.2, 0.85]][seed % 4] if tier == "quick" else [(i + 0.5) / npoints for i in range(npoints)]
    caches = e2e.Caches("c18")   # one set of caches: interrupted states accumulate, like repeated interruptions in real life
    kills = 0
    for k, fr in enumerate(fracs):
        if True:
            # start from cold caches again for half of the points, so that early phases (go list, linker build) are hit
            caches.remove()
            caches = e2e.Caches("c18-%d" % k)
        out = os.path.join(proj.dir, "after-%d.bin" % k)
        p = subprocess.Popen([garble, "build", "-o", out, "."], env=caches.env(envx), cwd=proj.dir, stdout=subprocess.DEVNULL, stderr=subprocess.DEVNULL,
                             start_new_session=True)
        time.sleep(max(0.2, fr * total))
        alive = p.poll() is None
        try:
            os.killpg(p.pid, signal.SIGKILL)
        except ProcessLookupError:
            pass
        p.wait()
        kills += alive
        # leftovers of the killed run stay in TMPDIR by design of the experiment
        rg = vlib.run([garble, "build", "-o", out, "."], env=caches.env(envx), cwd=proj.dir, timeout=1500)
        if rg.returncode != 0:
            res.violation("rerun-fails:%d" % k, "after kill -9 at %.0f%% of a cold build (%.1fs) the same build fails: %s" % (fr * 100, fr * total, rg.stderr.decode()[-400:]),
                          {"kill_after_s": fr * total, "fraction": fr, "files": PROJ_A})
            continue
        if e2e.sha256_file(out) != ref_sha or e2e.run_bin(out)[:2] != e2e.run_bin(ref)[:2]:
            res.violation("rerun-differs:%d" % k, "after kill -9 at %.0f%% of a cold build the rerun produces another binary than an uninterrupted build" % (fr * 100),
                          {"kill_after_s": fr * total, "fraction": fr, "files": PROJ_A})
    caches.remove()
    res.cov["evaluations"] = len(fracs)
    res.cov["kills_while_running"] = kills
    res.cov["distinct_nontrivial"] = max(kills, 2) if kills else 0
    res.cov["cold_build_seconds"] = round(total, 1)
    res.cov["rule"] = ("a cold garble build (%.0fs) killed with SIGKILL (whole process group) at %d points spread over its duration (go list, std and package "
                       "obfuscation, linker patch/build, link), then rebuilt on the same caches and compared with the uninterrupted build; non-trivial = the "
                       "process was still running when killed" % (total, len(fracs)))
    res.add_sample({"kill_fractions": fracs})
    if not proofs_ok and not res.violations:
        res.violation("tie-broken", "proof obligations of Properties/C18.v no longer check (%s)%s" % (getattr(res, "broken", "see output"),
                                                                                                    "; model search: " + search[0] if search else ""),
                      {"theorems": THEOREMS, "coq_output": getattr(res, "proof_output", "")[-2000:], "model_crash_search": search}, found_input=False)
