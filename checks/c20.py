"""C20 — Command lines are split the way the go command splits them."""
import json, os, subprocess
import vlib
from names_common import Oracle, stub_pkg_record, run_map, b64url

THEOREMS = ["C20_tables_agree", "C20_split_matches_go", "C20_split_partition", "C20_go_args_passthrough",
            "C20_forwarded_spec", "C20_forward_table_covers_build_flags", "C20_garble_flags_rejected",
            "C20_no_false_reject", "C20_unknown_rejected_for_reverse_map", "C20_source_tie",
            "C20_test_flags_after_packages_refuted"]

VALUES = ["-race", "-modcacherw", "-tags", "-v", "x", "./out", "a,b", "-tiny", "-s -w", "-X=main.version=1.0-debug", "a=b", "regexp.*", "4", "-", "--", "a-seed", "main.go",
          "-debugdir=x", "./..."]
PKGS = [".", "./...", "./cmd/x", "example.com/p", "main.go", "x.go", "./a/b"]


def slist(l):
    return "[" + ";".join(vlib.nlist(s.encode()) for s in l) + "]"


def gen_argv(r, tables, command, malformed=False):
    flags = [f for f in tables["go_flags"] if f["build"] or command == "test"]
    if command != "test":
        flags = [f for f in flags if f["build"]]
    out = []
    n = r.choice([0, 1, 1, 2, 2, 3, 4, 6])
    for _ in range(n):
        f = r.choice(flags)
        dd = "--" if r.random() < 0.25 else "-"
        if f["bool"]:
            form = r.random()
            if form < 0.8:
                out.append(dd + f["name"])
            else:
                out.append(dd + f["name"] + "=" + r.choice(["true", "false", "1"]))
        else:
            v = r.choice(VALUES)
            if r.random() < 0.5:
                out.append(dd + f["name"] + "=" + v)
            else:
                out += [dd + f["name"], v]
    if malformed:
        k = r.choice(["unknown", "trailing", "ddash", "dash", "garble", "garblev"])
        if k == "unknown":
            out.insert(r.randint(0, len(out)), "-nosuchflag")
        elif k == "trailing":
            out.append("-p")
            return out
        elif k == "ddash":
            out.append("--")
        elif k == "dash":
            out.append("-")
        elif k == "garble":
            out.insert(r.randint(0, len(out)), r.choice(["-tiny", "--literals", "-seed=AAAAAAAAAAA", "-debugdir=x", "--debug"]))
        else:
            out += ["-ldflags", r.choice(["-tiny", "-seed=abc"])]
    npk = r.choice([0, 1, 1, 1, 2])
    for _ in range(npk):
        out.append(r.choice(PKGS))
    if command == "test" and r.random() < 0.15 and npk > 0:
        out += r.choice([["-run", "X"], ["-v"], ["-count=1"]])
    return out


def run(res, tier, seed, replay):
    r = vlib.rng(seed)
    ok, msg = vlib.run_translators()
    proofs_ok = ok and vlib.check_proofs(res, "C20", "Properties/C20.v", THEOREMS)
    res.cov["trusted_base"] += vlib.TRUSTED_COMMON + [
        "translator translate/gen: forwardBuildFlags/booleanFlags/rxGarbleFlag/garbleBuildFlags via go/parser; go's documented flags from "
        "`go help build|testflag|test` and their arity probed on the real go command ('flag needs an argument')",
        "go_parse in Model/Flags.v is a transcription of package flag's parseOne (the go command's documented splitting rule)",
        "injected oracle (splitFlagsFromArgs, filterForwardBuildFlags, flagValue, flagSetValue, rxGarbleFlag); stub go recording argv"]
    res.assumptions = ["the go command parses build/run flags with package flag (stop at first non-flag) and test flags with testflag.go's loop",
                       "a lone '-' or '--' in flag position is outside the documented fragment (go_parse = None)"]
    tables = json.load(open(os.path.join(vlib.sub("gen-out"), "flagtables.json"))) if ok else None
    if not ok:
        res.violation("translator", "translator failed: " + msg[:500], {"msg": msg}, found_input=False)
        return
    try:
        garble, _ = vlib.build_garble()
    except vlib.BuildError as e:
        res.violation("oracle-build", "garble with the injected oracle no longer builds: %s" % str(e)[-800:], {"error": str(e)}, found_input=False)
        return

    n_or = 500 if tier == "quick" else 8000
    n_bb = 120 if tier == "quick" else 1500
    # ---------------- corpus (witnesses of past/known findings first)
    corpus = [("build", ["--v", "-o", "x1.bin", "./cmd/x"]),
              ("build", ["-ldflags=-X=main.version=1.0-debug", "./cmd/x"]),
              ("build", ["-tags=a-tiny", "."]),
              ("test", ["-artifacts", "./x"]),
              ("test", [".", "-run", "TestAdd"]),
              ("build", ["-tags", "-tiny", "./x"]),
              ("build", ["--tiny", "."]), ("build", ["-seed=AAAAAAAAAAA", "."]),
              ("run", ["-race", "main.go", "-v"]), ("run", [".", "a", "-b", "c"]), ("run", ["main.go", "x.go", "y", "z.go"]), ("run", ["-tags", "t", "./cmd/x", "arg"]),
              ("build", []), ("test", ["-c", "-o", "t.bin"])]
    cases = list(corpus)
    while len(cases) < n_or:
        cmd = r.choice(["build", "build", "test", "run"])
        cases.append((cmd, gen_argv(r, tables, cmd, malformed=r.random() < 0.2)))
    orc = Oracle(garble)
    reqs = []
    for cmd, argv in cases:
        reqs.append({"op": "split", "args": argv})
    outs = orc.batch(reqs)
    splits = [(o["flags"], o["args"]) for o in outs]
    outs2 = orc.batch([{"op": "filter", "args": s[0]} for s in splits])
    outs3 = orc.batch([{"op": "rxgarble", "s": t} for s in splits for t in s[0]])
    rx_it = iter(outs3)
    # flagValue / flagSetValue on the same flag lists
    fv_reqs, fv_meta = [], []
    for (flags, _) in splits[:200]:
        for name in ["-tags", "-ldflags", "-p", "-o"]:
            fv_reqs.append({"op": "flagvalue", "args": flags, "s": name})
            fv_reqs.append({"op": "flagsetvalue", "args": flags, "s": name, "s2": "NEW"})
            fv_meta.append((flags, name))
    outs4 = orc.batch(fv_reqs)

    header = ("From Verif Require Import Base.Bytes Model.Flags Model.FlagsGen Proofs.FlagsProofs.\nFrom Verif Require Gen.FlagTables Gen.StdTables.\nOpen Scope N_scope.\n"
              "Definition eqsl (a b : list str) : bool := beq (concat (map (fun s => 0 :: s) a)) (concat (map (fun s => 0 :: s) b)) && Nat.eqb (length a) (length b).\n")
    lits = []
    hist = {"build": 0, "test": 0, "run": 0, "len": {}, "valued_consumed": 0, "ddash": 0, "inline_eq": 0, "malformed_or_rejected": 0}
    nontrivial = set()
    for (cmd, argv), (f, a), o2 in zip(cases, splits, outs2):
        hist[cmd] += 1
        hist["len"][len(argv)] = hist["len"].get(len(argv), 0) + 1
        rx = [next(rx_it)["out"] for _ in f]
        lits.append("(%s, %s, %s, %s, %s, %s, %s)" % (
            vlib.coq_bool(cmd == "test"), slist(argv), slist(f), slist(a), slist(o2["flags"]),
            vlib.nlist(o2["unknown"].encode()), "[" + ";".join(vlib.coq_bool(x) for x in rx) + "]"))
        if any(t.startswith("--") for t in argv):
            hist["ddash"] += 1
        if any("=" in t and t.startswith("-") for t in argv):
            hist["inline_eq"] += 1
        if len(f) > sum(1 for t in f if t.startswith("-")):
            hist["valued_consumed"] += 1
            nontrivial.add((cmd, tuple(argv)))
    # 1. correspondence: model == implementation
    corr = ("(fun c => match c with (istest, argv, f, a, fw, unk, rx) => "
            "negb (eqsl (fst (split_flags bools argv)) f && eqsl (snd (split_flags bools argv)) a && "
            "eqsl (fst (filter_forward fwd bools f)) fw && beq (snd (filter_forward fwd bools f)) unk && "
            "beq (map (fun b : bool => if b then 1 else 0) (map rx_garble f)) (map (fun b : bool => if b then 1 else 0) rx)) end)")
    bad_corr = vlib.coq_eval_cases("c20a", header, "bool * list str * list str * list str * list str * str * list bool", lits, corr)
    # 2. the property on the implementation's outputs: go's own split, forwarding spec, no false reject
    prop = ("(fun c => match c with (istest, argv, f, a, fw, unk, rx) => "
            "match (if istest : bool then go_test_split go_defs argv else go_split go_defs argv) with "
            "| Some ga => match go_parse go_defs f with "
            "  | Some tsr => negb (eqsl (fst ga) f && eqsl (snd ga) a && eqsl fw (flat_map (fwd_tok fwd) (fst tsr))) "
            "  | None => true end "
            "| None => false end end)")
    bad_prop = vlib.coq_eval_cases("c20b", header, "bool * list str * list str * list str * list str * str * list bool", lits, prop)
    # flagValue/flagSetValue correspondence
    lits4 = []
    for i, (flags, name) in enumerate(fv_meta):
        lits4.append("(%s, %s, %s, %s)" % (slist(flags), vlib.nlist(name.encode()), vlib.nlist(outs4[2 * i]["out"].encode()), slist(outs4[2 * i + 1]["flags"])))
    bad_fv = vlib.coq_eval_cases("c20c", header, "list str * str * str * list str", lits4,
                                 "(fun c => match c with (fl, n, v, fs) => negb (beq (flag_value fl n) v && eqsl (flag_set_value fl n [78;69;87]) fs) end)")

    def is_f9(cmd, argv):
        # a flag token after the first non-flag argument of a `test` command line
        seen_pkg = False
        for t in argv:
            if not t.startswith("-"):
                seen_pkg = True
            elif seen_pkg:
                return cmd == "test"
        return False

    for i in bad_prop:
        cmd, argv = cases[i]
        f, a = splits[i]
        key = "F9-test-flags-after-packages" if is_f9(cmd, argv) and not any(x for x in []) else "split:" + " ".join(argv)[:60]
        res.violation(key, "garble %s %s: garble splits flags=%r packages=%r, forwards %r to `go list`; the go command's rule differs"
                      % (cmd, " ".join(argv), f, a, outs2[i]["flags"]),
                      {"command": cmd, "argv": argv, "garble_flags": f, "garble_packages": a, "forwarded": outs2[i]["flags"]})
    res.cov["evaluations"] = len(cases) + len(fv_meta)

    # ---------------- black box through the stub go: what `go list` and the go command really receive
    stub = vlib.Stub()
    pdir = os.path.join(stub.dir, "bbpkg")
    os.makedirs(pdir, exist_ok=True)
    open(os.path.join(pdir, "a.go"), "w").write("package p\n")
    rec = stub_pkg_record(pdir, "example.com/p", "p", ["a.go"], b"\x02" * 15)
    bb_cases = list(corpus)
    while len(bb_cases) < n_bb:
        cmd = r.choice(["build", "test", "run"])
        bb_cases.append((cmd, gen_argv(r, tables, cmd, malformed=r.random() < 0.25)))
    bb_lits, bb_meta = [], []
    procs = []
    import concurrent.futures
    def one(case):
        cmd, argv = case
        pr, log = run_map(garble, stub, [rec], [], argv, pkgs=(), command=cmd)
        return case, pr.returncode, pr.stderr.decode(errors="replace"), log
    with concurrent.futures.ThreadPoolExecutor(8) as ex:
        results = list(ex.map(one, bb_cases))
    rejected = 0
    for (cmd, argv), rc, err, log in results:
        lists = [e["argv"] for e in log if e["argv"][:1] == ["list"]]
        gos = [e["argv"] for e in log if e["argv"][:1] == [cmd]]
        gos = [g for g in gos if not (len(g) == 2 and g[1] == "-h")]
        reject = "garble flags must precede command" in err
        helped = any(t in ("-h", "-help", "--help") for t in argv)
        if reject or helped:
            rejected += 1
        largv = lists[0] if lists else []
        gargv = gos[0] if gos else []
        # strip the folded-in linknamed std packages (checked against the table in C14) and the garble path
        toolexec = next((t for t in gargv if t.startswith("-toolexec=")), "")
        bb_lits.append("(%s, %s, %s, %s, %s, %s)" % (vlib.nlist(cmd.encode()), slist(argv), slist(largv), slist(gargv),
                                                   vlib.nlist(toolexec.encode()), vlib.coq_bool(reject)))
        bb_meta.append((cmd, argv, largv, gargv, reject, rc, err[-300:]))
    hist["malformed_or_rejected"] = rejected
    bbcheck = ("(fun c => match c with (cmd, argv, largv, gargv, tx, rej) => "
               "let expect_rej := garble_flag_after_command bools argv in "
               "if has_help_flag (fst (split_flags bools argv)) then false else "
               "if expect_rej || rej then negb (Bool.eqb expect_rej rej) else "
               "let la := list_args Gen.FlagTables.garble_build_flags fwd bools cmd [] argv in "
               "negb (eqsl (firstn (length la) largv) la && "
               "forallb (fun x => mem x Gen.StdTables.runtime_and_linknamed) (skipn (length la) largv) && "   # nothing of the user's but the listed packages; the rest is the folded-in std list
               "eqsl gargv (go_args Gen.FlagTables.garble_build_flags bools cmd tx [] argv)) end)")
    bad_bb = vlib.coq_eval_cases("c20d", header, "str * list str * list str * list str * str * bool", bb_lits, bbcheck)
    # property on black-box observations: a command line the go command accepts must not be rejected,
    # and garble's own flags in flag position (known by construction of the corpus/generator) must be
    bbprop = ("(fun c => match c with (cmd, argv, largv, gargv, tx, rej) => "
              "match go_parse go_defs argv with Some _ => rej | None => false end end)")
    bad_bbprop = vlib.coq_eval_cases("c20e", header, "str * list str * list str * list str * str * bool", bb_lits, bbprop)
    for i in bad_bbprop:
        cmd, argv, largv, gargv, reject, rc, err = bb_meta[i]
        res.violation("false-reject:" + " ".join(argv)[:50], "garble %s %s is rejected (%s) although the go command accepts this command line"
                      % (cmd, " ".join(argv), err.strip()[-120:]), {"command": cmd, "argv": argv, "stderr": err})
    for (cmd, argv, largv, gargv, reject, rc, err) in bb_meta:
        if argv and argv[0].lstrip("-").split("=")[0] in ("literals", "tiny", "debug", "debugdir", "seed") and argv[0].startswith("-") \
                and not argv[0].startswith("---") and not reject:
            res.violation("garble-flag-accepted:" + " ".join(argv)[:50], "garble %s %s: garble's own flag after the command is not rejected"
                          % (cmd, " ".join(argv)), {"command": cmd, "argv": argv, "go_argv": gargv})
    # property on black-box observations (python, independent): go argv must end with the user's argv unchanged
    for (cmd, argv, largv, gargv, reject, rc, err) in bb_meta:
        if gargv and argv and gargv[-len(argv):] != argv:
            res.violation("passthrough:" + " ".join(argv)[:50], "garble %s %s ran `go %s`: the user's arguments are not passed unchanged"
                          % (cmd, " ".join(argv), " ".join(gargv)), {"command": cmd, "argv": argv, "go_argv": gargv})
    # reverse / map: flags the go command does not know (or that are not build flags) must be rejected
    um_cases = [("map", ["-badflag", "foo", "."], True), ("reverse", ["-badflag", "foo", "."], True),
                ("map", ["-run", "TestFoo", "."], True), ("map", ["-badflag=foo", "."], True), ("map", ["-tags", "x", "."], False)]
    for _ in range(30 if tier == "quick" else 300):
        cmd = r.choice(["map", "reverse"])
        argv = [t for t in gen_argv(r, tables, "build") if t.startswith("-") or True]
        f_, a_ = [], []
        # keep only the flag part of a well-formed build command line, then add an unknown flag in flag position
        flagpart = []
        for t in argv:
            if not t.startswith("-") and not (flagpart and flagpart[-1].startswith("-") and "=" not in flagpart[-1]
                                              and not any(g["name"] == flagpart[-1].lstrip("-") and g["bool"] for g in tables["go_flags"])):
                break
            flagpart.append(t)
        bad = r.random() < 0.7
        ins = r.choice([["-badflag", "foo"], ["-badflag=foo"], ["-run", "X"], ["-count=1"], ["-o", "-race"], ["-exec", "-modcacherw"]]) if bad else []
        # only forwarded build flags are acceptable to reverse/map
        fl = []
        i = 0
        ok_so_far = True
        um_cases.append((cmd, ins + ["."], bad)) if r.random() < 0.5 else um_cases.append((cmd, ["-tags", "t"] + ins + ["."], bad))
    def one_um(case):
        cmd, argv, expect_reject = case
        pr, log = run_map(garble, stub, [rec], [], argv, pkgs=(), command=cmd)
        return case, pr.returncode, pr.stderr.decode(errors="replace")
    with concurrent.futures.ThreadPoolExecutor(8) as ex:
        um_results = list(ex.map(one_um, um_cases))
    for (cmd, argv, expect_reject), rc, err in um_results:
        rejected_ = rc != 0 and ("flag provided but not defined" in err)
        if expect_reject and not rejected_:
            res.violation("unknown-flag-accepted:" + " ".join(argv)[:50], "garble %s %s: a flag that is not a build flag is accepted instead of rejected (exit %d, stderr %r)"
                          % (cmd, " ".join(argv), rc, err[-200:]), {"command": cmd, "argv": argv, "exit": rc, "stderr": err})
        if not expect_reject and "flag provided but not defined" in err:
            res.violation("build-flag-rejected:" + " ".join(argv)[:50], "garble %s %s: a build flag is rejected" % (cmd, " ".join(argv)),
                          {"command": cmd, "argv": argv, "exit": rc, "stderr": err})
    res.cov["evaluations"] += len(bb_cases) + len(um_cases)
    res.cov["blackbox_runs"] = len(bb_cases) + len(um_cases)
    for i in bad_bb:
        cmd, argv, largv, gargv, reject, rc, err = bb_meta[i]
        # classify with the spec: is this a case where the spec (go's rule) is violated, or only the model?
        key = "F9-test-flags-after-packages" if is_f9(cmd, argv) else "bb:" + " ".join(argv)[:60]
        if key.startswith("F9"):
            res.violation(key, "", {})
    res.cov["distinct_nontrivial"] = len(nontrivial)
    res.cov["rule"] = ("argv of length 0..14 over go's documented flags (from `go help`) in -f v / -f=v / --f / --f=v spellings, values that look like flags, "
                       "paths or garble flags, package patterns and file names; 20% malformed (unknown flag, missing value, '-', '--', garble flags); "
                       "non-trivial = a valued flag consumed a separate value token")
    res.cov["histogram"] = hist
    for c in cases[len(corpus):len(corpus) + 4]:
        res.add_sample({"command": c[0], "argv": c[1]})

    mism = [("split/filter/rx", cases[i]) for i in bad_corr] + [("flagvalue", fv_meta[i]) for i in bad_fv] + \
           [("blackbox argv", bb_meta[i][:4]) for i in bad_bb if not is_f9(bb_meta[i][0], bb_meta[i][1])]
    if (mism or not proofs_ok) and not res.violations:
        what = []
        if not proofs_ok:
            what.append("proof obligations of Properties/C20.v no longer check (%s)" % getattr(res, "broken", "see output"))
        if mism:
            what.append("correspondence Model/Flags.v vs implementation differs on %d cases, e.g. %s %r" % (len(mism), mism[0][0], mism[0][1]))
        res.violation("tie-broken", "; ".join(what), {"theorems": THEOREMS, "mismatches": [repr(x) for x in mism[:10]],
                                                      "coq_output": getattr(res, "proof_output", "")[-2000:]}, found_input=False)
