"""C08 — Types that reach reflection keep their original names at run time."""
import json, os, shutil, subprocess
import vlib, e2e, closure_graph

THEOREMS = ["C08_replacer_priority_is_first_match", "C08_restores_name_at_position", "C08_analyse_order_refuted",
            "C08_closure_complete", "C08_closure_sound"]

FILES = {
    "main.go": '''package main

import (
	"encoding/json"
	"fmt"
	"reflect"
	"sort"
	"strings"

	"example.com/refl/lib"
)

type Direct struct {
	Alpha int
	beta  string
	Inner NestedInner
}

type NestedInner struct{ Gamma []lib.Leaf }

type ViaHelper struct{ Delta map[string]*PtrTarget }
type PtrTarget struct{ Epsilon int }

type ViaIface struct{ Zeta [2]ArrElem }
type ArrElem struct{ Eta bool }

type Embedded struct {
	lib.Base
	Theta int
}

type Generic[T any] struct{ Iota T }
type GenArg struct{ Kappa int }

type Aliased = AliasTarget
type AliasTarget struct{ Lambda string }

type JSONDoc struct {
	Name  string            `json:"name"`
	Items []JSONItem        `json:"items"`
	Meta  map[string]string `json:"meta,omitempty"`
	skip  int
}
type JSONItem struct {
	ID    int
	Label string `json:"label"`
}

type Variadic struct{ Mu int }

func describe(t reflect.Type) string {
	for t.Kind() == reflect.Pointer || t.Kind() == reflect.Slice || t.Kind() == reflect.Array {
		t = t.Elem()
	}
	var names []string
	if t.Kind() == reflect.Struct {
		for i := 0; i < t.NumField(); i++ {
			f := t.Field(i)
			names = append(names, f.Name+":"+f.Type.String())
		}
	}
	return t.String() + "{" + strings.Join(names, ",") + "}"
}

func helper(v any) string        { return describe(reflect.TypeOf(v)) }
func helper2(v any) string       { return helper(v) }
func variadic(vs ...any) string  { return describe(reflect.TypeOf(vs[0])) }
func byValueOf(v any) string     { return reflect.ValueOf(v).Type().String() }

type MapKey struct{ KeyField int }
type MapVal struct{ ValField int }
type FuncArg struct{ ArgField int }
type FuncRes struct{ ResField int }
type FuncHolder struct{ Fn func(FuncArg) FuncRes }

type shower interface{ show(v any) string }
type showImpl struct{}

func (showImpl) show(v any) string { return describe(reflect.TypeOf(v)) }

func main() {
	fmt.Println("direct", describe(reflect.TypeOf(Direct{})))
	fmt.Println("helper", helper2(ViaHelper{}))
	var s shower = showImpl{}
	fmt.Println("iface-dispatch", s.show(&ViaIface{}))
	fmt.Println("embedded-lib-qualifier", helper(Embedded{}), helper([]lib.FromLib{}))
	fmt.Println("generic-type-argument", helper(Generic[GenArg]{}))
	fmt.Println("alias-variadic-valueof", helper(Aliased{}), variadic(Variadic{}, 1), byValueOf(&PtrTarget{}))
	fmt.Println("anonymous", helper(struct{ Anon1, Anon2 int }{}))
	mt := reflect.TypeOf(map[MapKey]MapVal{})
	fmt.Println("map-key", mt.String(), describe(mt.Key()), describe(mt.Elem()))
	ft := reflect.TypeOf(FuncHolder{}).Field(0).Type
	fmt.Println("func-signature", ft.String(), describe(ft.In(0)), describe(ft.Out(0)))
	doc := JSONDoc{Name: "n", Items: []JSONItem{{1, "a"}, {2, "b"}}, Meta: map[string]string{"k": "v"}}
	b, _ := json.Marshal(doc)
	fmt.Println("json-marshal", string(b))
	var back JSONDoc
	err := json.Unmarshal([]byte(`{"name":"x","items":[{"ID":7,"label":"q"}]}`), &back)
	fmt.Println("json-unmarshal", err, back.Name, len(back.Items), back.Items[0].ID, back.Items[0].Label)
	fmt.Println("cross-package-lib-qualifier", lib.ReflectInLib(lib.DeclaredInLib{}), lib.ReflectAny(MainDeclared{}))
	f, ok := reflect.TypeOf(Direct{}).FieldByName("Alpha")
	fmt.Println("field-by-name", f.Name, ok, reflect.ValueOf(Direct{Alpha: 5}).FieldByName("Alpha").Int())
	var names []string
	m := reflect.TypeOf(&MethodHolder{})
	for i := 0; i < m.NumMethod(); i++ {
		names = append(names, m.Method(i).Name)
	}
	sort.Strings(names)
	fmt.Println("methods", names, fmt.Sprintf("%T", Direct{}))
	fmt.Println("fmt-plus-v", fmt.Sprintf("%+v", PlusV{true}))
}

type MainDeclared struct{ Nu int }

type PlusV struct{ Xi bool }

type MethodHolder struct{}

func (*MethodHolder) ExportedOne() {}
func (*MethodHolder) ExportedTwo() {}
''',
    "lib/lib.go": '''package lib

import "reflect"

type Leaf struct{ LeafField int }
type Base struct{ BaseField string }
type FromLib struct{ FromLibField float64 }
type DeclaredInLib struct{ InLib int }

func ReflectInLib(v DeclaredInLib) string { return reflect.TypeOf(v).String() + ":" + reflect.TypeOf(v).Field(0).Name }

func ReflectAny(v any) string {
	t := reflect.TypeOf(v)
	return t.String() + ":" + t.Field(0).Name
}
''',
}

F10 = {
    "main.go": '''package main

import (
	"fmt"
	"reflect"
)

type T struct{ FieldOfT int }

func g(v any) string { return reflect.TypeOf(v).String() + ":" + reflect.TypeOf(v).Field(0).Name }

func h(a, b any) string { return reflect.TypeOf(a).String() + "/" + g(b) }

func main() { fmt.Println(h(1, T{1})) }
''',
}


def gen_pairs(r):
    alphabet = [b"a", b"b", b"ab", b"abc", b"x", b"\x00", b"\xff", b"name", b"Name", b"na"]
    n = r.choice([0, 1, 2, 3, 5, 8, 20])
    pairs = []
    for _ in range(n):
        klen = r.choice([1, 1, 2, 3, 6, 12])
        k = b"".join(r.choice(alphabet) for _ in range(klen))[:max(1, klen)] if r.random() < 0.7 else bytes(r.randrange(256) for _ in range(klen))
        v = b"".join(r.choice(alphabet) for _ in range(r.choice([0, 1, 2, 4])))
        pairs += [k, v]
    if n and r.random() < 0.3:   # a repeated key with another value
        pairs += [pairs[0], b"DUP"]
    keys = pairs[0::2]
    inputs = []
    for _ in range(4):
        parts = []
        for _ in range(r.choice([0, 1, 3, 8])):
            parts.append(r.choice(keys) if keys and r.random() < 0.6 else r.choice(alphabet + [b" ", b"."]))
        inputs.append(b"".join(parts))
    return pairs, inputs


def run(res, tier, seed, replay):
    r = vlib.rng(seed)
    ok, msg = vlib.run_translators()
    proofs_ok = ok and vlib.check_proofs(res, "C08", "Properties/C08.v", THEOREMS)
    res.cov["trusted_base"] += vlib.TRUSTED_COMMON + [
        "harness/replacer/verif_main.go compiled with /repo's reflect_abi_code.go copied unmodified; strings.NewReplacer as the reference",
        "NOT proved: the trie data structure (prefix compression, byte tables) of the run-time replacer refines the priority lookup (checked by correspondence only); "
        "the closure of recursivelyRecordUsedForReflect (exercised by the differential program only)"]
    res.assumptions = ["name-table keys are non-empty (obfuscated names have 6..12 characters)"]
    # ---- (a) the replacer source, verbatim, against strings.NewReplacer and the Coq specification
    hdir = vlib.sub("replacer-harness")
    for f in os.listdir(os.path.join(vlib.VERIF, "harness", "replacer")):
        shutil.copy(os.path.join(vlib.VERIF, "harness", "replacer", f), hdir)
    shutil.copy(os.path.join(vlib.REPO, "reflect_abi_code.go"), hdir)
    try:
        hbin = vlib.build_go(hdir, os.path.join(vlib.sub("bin"), "replacer-harness"))
    except vlib.BuildError as e:
        res.violation("harness-build", "reflect_abi_code.go no longer compiles stand-alone: %s" % str(e)[-600:], {"error": str(e)}, found_input=False)
        return
    n = 150 if tier == "quick" else 3000
    cases = [gen_pairs(r) for _ in range(n)]
    cases += [([b"ab", b"1", b"abc", b"2", b"a", b"3"], [b"abcab", b"aab", b"abc"]), ([b"abc", b"2", b"ab", b"1"], [b"abcab"]),
              ([b"xY12ab", b"Real", b"xY12abZZ", b"Longer"], [b"*pkg.xY12abZZ{xY12ab int}"])]
    pr = subprocess.run([hbin], input=json.dumps([{"pairs": [p.hex() for p in ps], "inputs": [i.hex() for i in ins]} for ps, ins in cases]).encode(),
                        stdout=subprocess.PIPE, stderr=subprocess.PIPE)
    if pr.returncode != 0:
        res.violation("replacer-crash", "the injected replacer crashes on a generated table: %s" % pr.stderr.decode()[-400:], {}, found_input=True)
        return
    outs = json.loads(pr.stdout)
    lits, meta = [], []
    overlapping = 0
    for (ps, ins), o in zip(cases, outs):
        keys = ps[0::2]
        ov = any(a != b and b.startswith(a) for a in keys for b in keys)
        for inp, (mine, std) in zip(ins, o):
            if mine != std:
                res.violation("replacer-differs", "the injected replacer and strings.NewReplacer disagree: pairs %r input %r -> %r vs %r"
                              % ([p.hex() for p in ps][:8], inp, bytes.fromhex(mine), bytes.fromhex(std)), {"pairs": [p.hex() for p in ps], "input": inp.hex()})
            overlapping += ov
            pl = "[" + ";".join("(%s, %s)" % (vlib.nlist(ps[i]), vlib.nlist(ps[i + 1])) for i in range(0, len(ps), 2)) + "]"
            lits.append("(%s, %s, %s)" % (pl, vlib.nlist(inp), vlib.nlist(bytes.fromhex(mine))))
            meta.append((ps, inp, mine))
    header = "From Verif Require Import Base.Bytes Model.Position Model.Reflect.\nOpen Scope N_scope.\n"
    bad = vlib.coq_eval_cases("c08a", header, "list (str * str) * str * str", lits,
                              "(fun c => match c with (ps, i, o) => negb (beq (naive_replace ps i) o && beq (prio_replace ps i) o) end)")
    res.cov["evaluations"] = len(lits)
    res.cov["replacer_cases"] = len(lits)
    res.cov["replacer_cases_with_prefix_sharing_keys"] = overlapping
    # ---- reflection differential on a real build
    try:
        garble, _ = vlib.build_garble()
    except vlib.BuildError as e:
        res.violation("garble-build", "garble no longer builds: %s" % str(e)[-800:], {"error": str(e)}, found_input=False)
        return
    closure_cases = closure_graph.run(res, garble, tier, seed)
    proj = e2e.Project("c08", FILES, module="example.com/refl")
    caches = e2e.Caches("c08")
    pb, gb = os.path.join(proj.dir, "plain.bin"), os.path.join(proj.dir, "garbled.bin")
    rp = e2e.plain_build(proj, pb, caches=caches)
    if rp.returncode != 0:
        raise RuntimeError("plain build failed: " + rp.stderr.decode()[-800:])
    want = e2e.run_bin(pb)
    cfgs = [([], "example.com/refl")] + ([(["-seed=AAAAAAAAAAE"], "*"), (["-tiny"], "example.com/refl")] if tier != "quick" else [])
    lines = 0
    for gflags, gog in cfgs:
        rg = e2e.garble_build(garble, proj, gb, garble_flags=gflags, caches=caches, extra_env={"GOGARBLE": gog}, timeout=1500)
        tag = " ".join(gflags + [gog])
        if rg.returncode != 0:
            res.violation("build:" + tag, "garble build of the reflection program fails: %s" % rg.stderr.decode()[-500:], {"files": FILES, "flags": gflags, "gogarble": gog})
            continue
        got = e2e.run_bin(gb)
        pl, gl = want[1].decode().split("\n"), got[1].decode().split("\n")
        for i, (a, b) in enumerate(zip(pl, gl)):
            lines += 1
            if a != b:
                label = a.split(" ")[0]
                res.violation("reflect:" + label, "(%s) reflection output %r: regular %r, obfuscated %r" % (tag, label, a[:200], b[:200]),
                              {"files": FILES, "flags": gflags, "gogarble": gog, "line": i, "label": label})
        if want[0] != got[0]:
            res.violation("reflect-exit:" + tag, "exit status differs: %d vs %d (%s)" % (want[0], got[0], got[2][-200:]), {"files": FILES, "flags": gflags})
    # ---- known finding F10: the order-dependent propagation (repeated fresh builds)
    p10 = e2e.Project("c08f10", F10, module="example.com/f10")
    pb10 = os.path.join(p10.dir, "plain.bin")
    e2e.plain_build(p10, pb10, caches=caches)
    want10 = e2e.run_bin(pb10)[1]
    reps = 4 if tier == "quick" else 16
    for k in range(reps):
        shutil.rmtree(caches.garble_cache, ignore_errors=True)
        os.makedirs(caches.garble_cache)
        gb10 = os.path.join(p10.dir, "g%d.bin" % k)
        rg = e2e.garble_build(garble, p10, gb10, flags=["-a"] if False else [], caches=caches, extra_env={"GOGARBLE": "example.com/f10"})
        if rg.returncode == 0 and e2e.run_bin(gb10)[1] != want10:
            res.violation("F10-propagation-order", "", {})
            break
        # force main to be recompiled next time
        p10.write("main.go", F10["main.go"] + "\n// rebuild %d\n" % k)
    caches.remove()
    res.cov["evaluations"] += lines + reps + closure_cases
    res.cov["reflection_output_lines"] = lines
    res.cov["distinct_nontrivial"] = overlapping + lines
    res.cov["rule"] = ("(a) generated replacement tables (prefix-sharing, overlapping and repeated keys, all byte values, empty values) x inputs made of keys and noise: "
                       "reflect_abi_code.go verbatim vs strings.NewReplacer vs naive_replace/prio_replace in Coq; (b,c) a program reflecting on structs declared in two "
                       "packages through direct calls, helpers, interfaces, pointers, slices, arrays, maps, variadics, generics, aliases, anonymous structs, "
                       "encoding/json, FieldByName and method listing, under %d configuration(s); the F10 witness rebuilt %d times; non-trivial = prefix-sharing "
                       "tables + output lines" % (len(cfgs), reps))
    res.add_sample({"pairs": [p.decode(errors="replace") for p in cases[-1][0]], "input": cases[-1][1][0].decode(), "output": bytes.fromhex(outs[-1][0][0]).decode()})
    mism = [(meta[i][0][:6], meta[i][1]) for i in bad]
    if (mism or not proofs_ok) and not res.violations:
        what = []
        if not proofs_ok:
            what.append("proof obligations of Properties/C08.v no longer check (%s)" % getattr(res, "broken", "see output"))
        if mism:
            what.append("the replacer specification differs from the implementation on %d cases, e.g. %r" % (len(mism), mism[0]))
        res.violation("tie-broken", "; ".join(what), {"theorems": THEOREMS, "mismatches": [repr(x) for x in mism[:10]]}, found_input=False)
