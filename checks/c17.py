"""C17 — Concurrent garble processes never interfere."""
import os, shutil, subprocess, time
import vlib, e2e

THEOREMS = ["C17_run_sees_complete", "C17_mutual_exclusion", "C17_linker_inv", "C17_protocol_order"]

PROJ_A = {"main.go": 'package main\n\nimport (\n\t"fmt"\n\t"strings"\n)\n\nfunc helperA(n int) string { return strings.Repeat("a", n) }\n\nfunc main() { fmt.Println("project A", helperA(3)) }\n'}
PROJ_B = {"main.go": 'package main\n\nimport (\n\t"fmt"\n\t"sort"\n)\n\ntype pair struct{ k, v int }\n\nfunc main() { s := []pair{{2, 1}, {1, 2}}; sort.Slice(s, func(i, j int) bool { return s[i].k < s[j].k }); fmt.Println("project B", s[0].v) }\n'}


def run(res, tier, seed, replay):
    ok, msg = vlib.run_translators()
    proofs_ok = ok and vlib.check_proofs(res, "C17", "Properties/C17.v", THEOREMS)
    res.cov["trusted_base"] += vlib.TRUSTED_COMMON + [
        "translator: the order of the calls Lock/checkVersion/fileExists/applyPatches/buildLinker/writeVersion in PatchLinker and PatchLinker/defer unlock/Run in mainErr (go/ast)",
        "the OS: flock is exclusive and dropped when the holder dies; per-invocation temp dirs come from MkdirTemp; cmd/go's own locking of GOCACHE",
        "concurrent real builds from a linker-less GARBLE_CACHE compared with solo builds"]
    res.assumptions = ["all processes use one garble and Go version (two alternating versions are outside the property's quantifier)"]
    try:
        garble, _ = vlib.build_garble()
    except vlib.BuildError as e:
        res.violation("garble-build", "garble no longer builds: %s" % str(e)[-800:], {"error": str(e)}, found_input=False)
        return
    pa = e2e.Project("c17a", PROJ_A, module="example.com/pa")
    pb = e2e.Project("c17b", PROJ_B, module="example.com/pb")
    caches = e2e.Caches("c17")
    env_a = caches.env({"GOGARBLE": "example.com/pa"})
    env_b = caches.env({"GOGARBLE": "example.com/pb"})
    # N concurrent top-level builds on cold, linker-less shared caches: two identical, one with another flag, one other project
    jobs = [("a1", pa, [], env_a, ["-p", "1"]), ("a2", pa, [], env_a, ["-p", "4"]), ("a-tiny", pa, ["-tiny"], env_a, []), ("b1", pb, [], env_b, ["-p", "2"])]
    if tier != "quick":
        jobs += [("a3", pa, [], env_a, ["-p", "16"]), ("b2", pb, ["-seed=AAAAAAAAAAE"], env_b, [])]
    procs = []
    for name, proj, gflags, env, flags in jobs:
        out = os.path.join(proj.dir, name + ".bin")
        p = subprocess.Popen([garble] + gflags + ["build"] + flags + ["-o", out, "."], env=env, cwd=proj.dir, stdout=subprocess.PIPE, stderr=subprocess.PIPE)
        procs.append((name, proj, gflags, env, out, p))
        time.sleep(0.3)
    # late-comers: as soon as the first process has stamped the linker, further builds arrive one after the other while the
    # processes that queued on the lock are still running (they must neither disturb nor be disturbed)
    stamp = os.path.join(env_a["GARBLE_CACHE"], "tool", "link.version")
    late, t0 = [], time.time()
    while time.time() - t0 < 900 and any(p.poll() is None for *_, p in procs):
        if os.path.exists(stamp) and len(late) < (6 if tier == "quick" else 16):
            k = len(late)
            proj, env = (pa, env_a) if k % 2 == 0 else (pb, env_b)
            out = os.path.join(proj.dir, "late-%d.bin" % k)
            sd = "-seed=" + "ABCDEFGHIJKLMNOP"[k] * 10 + "E"
            lp = subprocess.Popen([garble, sd, "build", "-o", out, "."], env=env, cwd=proj.dir, stdout=subprocess.PIPE, stderr=subprocess.PIPE)
            late.append((k, proj, sd, out, lp))
            time.sleep(1.0)
        else:
            time.sleep(0.2)
    for k, proj, sd, out, lp in late:
        so, se = lp.communicate(timeout=1800)
        want = b"project A" if proj is pa else b"project B"
        if lp.returncode != 0:
            res.violation("late-build-fails", "a build started after the linker was stamped, while builds that queued on the lock were still running, fails (exit %d): %s"
                          % (lp.returncode, se.decode(errors="replace")[-400:]), {"jobs": [j[0] for j in jobs], "late_comer": k, "seed_flag": sd})
        elif want not in e2e.run_bin(out)[1]:
            res.violation("late-build-broken", "a build started after the linker was stamped produces a binary that does not run correctly", {"late_comer": k, "seed_flag": sd})
    res.cov["late_comers"] = len(late)
    results = {}
    for name, proj, gflags, env, out, p in procs:
        so, se = p.communicate(timeout=1800)
        results[name] = (p.returncode, se.decode(errors="replace"))
        if p.returncode != 0:
            res.violation("concurrent-build-fails:" + name, "concurrent build %s fails (exit %d): %s" % (name, p.returncode, se.decode()[-400:]),
                          {"jobs": [j[0] for j in jobs], "job": name})
    # second phase: everything is compiled now; forget the linker only (the state after a garble or Go upgrade) and start
    # several link-only builds at the same moment, so that all but one queue on the linker lock; when the first has stamped
    # the linker, more builds keep arriving while the queued ones are still at work
    if all(rc == 0 for rc, _ in results.values()):
        shutil.rmtree(os.path.join(env_a["GARBLE_CACHE"], "tool"), ignore_errors=True)
        wave = []
        for k in range(5):
            proj, env = (pa, env_a) if k % 2 == 0 else (pb, env_b)
            out = os.path.join(proj.dir, "wave-%d.bin" % k)
            wave.append((k, proj, out, subprocess.Popen([garble, "build", "-ldflags=-X=main.absent=w%d" % k, "-o", out, "."], env=env, cwd=proj.dir,
                                                        stdout=subprocess.PIPE, stderr=subprocess.PIPE)))
        t0, nlate = time.time(), 0
        while time.time() - t0 < 900 and any(p.poll() is None for *_, p in wave[:5]):
            if os.path.exists(stamp) and nlate < (8 if tier == "quick" else 30):
                k = 5 + nlate
                proj, env = (pa, env_a) if k % 2 == 0 else (pb, env_b)
                out = os.path.join(proj.dir, "wave-%d.bin" % k)
                wave.append((k, proj, out, subprocess.Popen([garble, "build", "-ldflags=-X=main.absent=w%d" % k, "-o", out, "."], env=env, cwd=proj.dir,
                                                            stdout=subprocess.PIPE, stderr=subprocess.PIPE)))
                nlate += 1
                time.sleep(0.5)
            else:
                time.sleep(0.1)
        for k, proj, out, wp in wave:
            so, se = wp.communicate(timeout=1800)
            want = b"project A" if proj is pa else b"project B"
            if wp.returncode != 0:
                res.violation("linkerless-wave-fails", "with the packages cached and no patched linker, 5 builds started together plus builds arriving after the linker was stamped: "
                              "build #%d fails (exit %d): %s" % (k, wp.returncode, se.decode(errors="replace")[-300:]), {"wave": len(wave), "build": k})
            elif want not in e2e.run_bin(out)[1]:
                res.violation("linkerless-wave-broken", "build #%d of the linker-less wave produces a binary that does not run correctly" % k, {"wave": len(wave), "build": k})
        res.cov["linkerless_wave_builds"] = len(wave)
    # solo reference builds afterwards, each from its own fresh caches
    solo = e2e.Caches("c17solo")   # the references are built one after the other, never concurrently
    refs = {}
    for name, proj, gflags, env, out, p in procs:
        if results[name][0] != 0:
            continue
        rk = (proj.dir, tuple(gflags))
        ref = os.path.join(proj.dir, "solo-%d.bin" % len(refs)) if rk not in refs else refs[rk]
        if rk not in refs:
            r = vlib.run([garble] + gflags + ["build", "-o", ref, "."], env=solo.env({"GOGARBLE": env["GOGARBLE"]}), cwd=proj.dir, timeout=1500)
            if r.returncode != 0:
                raise RuntimeError("solo build failed: " + r.stderr.decode()[-400:])
            refs[rk] = ref
        if e2e.sha256_file(ref) != e2e.sha256_file(out) or e2e.run_bin(ref)[:2] != e2e.run_bin(out)[:2]:
            res.violation("concurrent-differs:" + name, "the binary of %s built concurrently with %r differs from the one it produces alone" % (name, [j[0] for j in jobs]),
                          {"jobs": [j[0] for j in jobs], "job": name})
        if tier == "quick" and name != "a1":
            pass
    solo.remove()
    left = [x for x in os.listdir(caches.tmp) if x.startswith("garble-shared")]
    if left:
        res.violation("tempdirs-left", "concurrent builds leave %r in the shared TMPDIR" % left, {})
    caches.remove()
    res.cov["evaluations"] = 2 * len(jobs)
    res.cov["distinct_nontrivial"] = len(jobs)
    res.cov["rule"] = ("%d top-level garble builds started together on empty shared GOCACHE(std snapshot)/GARBLE_CACHE/TMPDIR without a patched linker: the same "
                       "project twice with different -p, once with -tiny, and another project; each compared with its solo build from fresh caches" % len(jobs))
    res.add_sample({"jobs": [j[0] for j in jobs]})
    if not proofs_ok and not res.violations:
        res.violation("tie-broken", "proof obligations of Properties/C17.v no longer check (%s)" % getattr(res, "broken", "see output"),
                      {"theorems": THEOREMS, "coq_output": getattr(res, "proof_output", "")[-2000:]}, found_input=False)
