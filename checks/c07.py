"""C07 — Missing or damaged cache entries are recomputed, never trusted."""
import json, os, shutil, subprocess
import vlib, e2e

THEOREMS = ["C07_get_file_sound", "C07_get_file_hit", "C07_load_independent_of_cache"]
XFLAGS = ["-ldflags=-X=main.version=v1.2.3-injected"]


def gen_faults(r):
    kinds = ["DelIndex", "DelData", "EmptyIndex", "EmptyData", "TruncIndex", "TruncData"]
    n = r.choice([0, 1, 1, 1, 2, 3])
    out = []
    for _ in range(n):
        k = r.choice(kinds)
        out.append([k, r.choice([0, 1, 5, 50, 1000])] if k.startswith("Trunc") else [k])
    return out


def fault_lit(f):
    return "%s %d" % (f[0], f[1]) if len(f) > 1 else f[0]


def cache_files(d):
    out = []
    for root, _, files in os.walk(d):
        for f in files:
            out.append(os.path.join(root, f))
    return sorted(out)


def run(res, tier, seed, replay):
    r = vlib.rng(seed)
    ok, msg = vlib.run_translators()
    proofs_ok = ok and vlib.check_proofs(res, "C07", "Properties/C07.v", THEOREMS)
    res.cov["trusted_base"] += vlib.TRUSTED_COMMON + [
        "harness/cachefault: the real github.com/rogpeppe/go-internal/cache (version of /repo's go.mod) driven through fault sequences on disk",
        "fault enumeration on real builds: files of GARBLE_CACHE deleted / emptied / truncated, then an edit forcing recompilation, then a rebuild compared "
        "(sha256, stdout) with the cold reference",
        "same-size corruption is outside the property; cmd/go's own cache reader is trusted"]
    res.assumptions = ["a truncation yields a strict prefix; the index record has fixed width, so no strict prefix of it parses"]
    # ---- 1. the real cache package against get_file
    try:
        hbin = vlib.build_go(os.path.join(vlib.VERIF, "harness", "cachefault"), os.path.join(vlib.sub("bin"), "cachefault"))
    except vlib.BuildError as e:
        res.violation("harness-build", "cache fault harness does not build: %s" % str(e)[-500:], {}, found_input=False)
        return
    n = 300 if tier == "quick" else 5000
    cases = []
    for _ in range(n):
        d = bytes(r.randrange(256) for _ in range(r.choice([0, 1, 2, 10, 100, 1000])))
        cases.append((d, gen_faults(r)))
    pr = subprocess.run([hbin], input=json.dumps([{"data": d.hex(), "faults": f} for d, f in cases]).encode(), stdout=subprocess.PIPE, stderr=subprocess.PIPE)
    if pr.returncode != 0:
        raise RuntimeError("cachefault failed: " + pr.stderr.decode()[-500:])
    outs = json.loads(pr.stdout)
    lits = []
    changed = 0
    for (d, fs), o in zip(cases, outs):
        hit = o["hit"]
        if hit and bytes.fromhex(o["data"]) != d:
            res.violation("cache-wrong-bytes", "GetFile reports a hit with other bytes after faults %r on a %d-byte entry" % (fs, len(d)), {"data": d.hex(), "faults": fs})
        changed += (not hit)
        lits.append("(%s, [%s], %s)" % (vlib.nlist(d), ";".join(fault_lit(f) for f in fs), vlib.coq_bool(hit)))
    header = "From Verif Require Import Base.Bytes Model.PkgCache.\nOpen Scope N_scope.\n"
    bad = vlib.coq_eval_cases("c07a", header, "bytes * list fault * bool", lits,
                              "(fun c => match c with (d, fs, hit) => negb (Bool.eqb (match get_file (fold_left apply_fault fs (put d)) with Hit _ => true | Miss => false end) hit) end)")
    res.cov["evaluations"] = len(cases)
    res.cov["cache_fault_sequences"] = len(cases)
    # ---- 2. fault enumeration on a real build (asm with go_asm.h names, linkname, reflection users)
    try:
        garble, _ = vlib.build_garble()
    except vlib.BuildError as e:
        res.violation("garble-build", "garble no longer builds: %s" % str(e)[-800:], {"error": str(e)}, found_input=False)
        return
    pdir = vlib.sub("c07-mod2")
    shutil.rmtree(pdir, ignore_errors=True)
    shutil.copytree(os.path.join(vlib.VERIF, "corpus", "mod2"), pdir)
    proj = e2e.Project.__new__(e2e.Project)
    proj.dir = pdir
    caches = e2e.Caches("c07")
    gflags = ["-seed=AAAAAAAAAAE"]
    env_extra = {"GOGARBLE": "example.com/corp2"}
    ref = os.path.join(pdir, "ref.bin")
    rg = e2e.garble_build(garble, proj, ref, garble_flags=gflags, flags=XFLAGS, caches=caches, extra_env=env_extra, timeout=1500)
    if rg.returncode != 0:
        res.violation("cold-build", "cold garble build fails: %s" % rg.stderr.decode()[-400:], {}, found_input=False)
        return
    ref_sha, ref_out = e2e.sha256_file(ref), e2e.run_bin(ref)[:2]
    builds = 1
    gfiles = cache_files(os.path.join(caches.garble_cache, "build"))
    tool_files = cache_files(os.path.join(caches.garble_cache, "tool")) if os.path.isdir(os.path.join(caches.garble_cache, "tool")) else []
    plan = []
    for f in gfiles:
        for kind in ("delete", "empty", "truncate"):
            plan.append(([f], kind))
    r.shuffle(plan)
    quota = 10 if tier == "quick" else len(plan)
    # always include: every data file emptied with its index intact, in one go; whole build cache removed; pairs
    special = [([f for f in gfiles if f.endswith("-d")], "empty"), ([f for f in gfiles if f.endswith("-a")], "delete"), (gfiles, "delete")]
    if tier != "quick":
        special += [(r.sample(gfiles, min(3, len(gfiles))), r.choice(["delete", "empty", "truncate"])) for _ in range(10)]
        special += [([f], "delete") for f in tool_files if not f.endswith(".lock")][:3]
    else:
        special += [([f], "delete") for f in tool_files if f.endswith("link") or "link" in os.path.basename(f)][:1]
    plan = [(f, k, True) for f, k in special] + [(f, k, tier != "quick") for f, k in plan[:quota]]
    # the whole build cache lost while cmd/go's cache still has every dependency compiled, then only main (and the edited
    # dependency) recompiled: main must recover what it needs about dependencies that are NOT recompiled (wrap reaches
    # reflection only through encoding/json)
    plan.insert(1, (["ALL"], "delete", False))
    edits = 0
    leaf = os.path.join(pdir, "asmlib", "add.go")
    main_go = os.path.join(pdir, "internal", "secret", "secret.go")   # edited file: a dependency of main (main.go itself carries injected code whose positions would move)
    main_src = open(main_go).read()
    for files, kind, force_all in plan:
        if files == ["ALL"]:
            files = cache_files(os.path.join(caches.garble_cache, "build"))
        for f in files:
            if not os.path.exists(f):
                continue
            if kind == "delete":
                os.remove(f)
            elif kind == "empty":
                open(f, "w").close()
            else:
                sz = os.path.getsize(f)
                os.truncate(f, sz // 2)
        # force the packages to be recompiled under the same action IDs: cmd/go's cache is wiped for
        # them by an edit that is then reverted? no: an appended comment changes the action ID; so use -a instead
        out_bin = os.path.join(pdir, "after.bin")
        if force_all:
            # every package recompiled under the same action IDs: its own entries are read again
            open(main_go, "w").write(main_src)
            extra = ["-a"]
        else:
            # secret and main are recompiled (an appended comment); main reads the entries of its other dependencies
            edits += 1
            open(main_go, "w").write(main_src + "\n// edit %d\n" % edits)
            extra = []
        rg = e2e.garble_build(garble, proj, out_bin, garble_flags=gflags, flags=XFLAGS + extra, caches=caches, extra_env=env_extra, timeout=1500)
        builds += 1
        what = "%s %d file(s) of GARBLE_CACHE (%s)" % (kind, len(files), ", ".join(os.path.relpath(f, caches.garble_cache) for f in files[:3]))
        if rg.returncode != 0:
            res.violation("rebuild-fails:%s:%d" % (kind, len(files)), "after %s the rebuild fails: %s" % (what, rg.stderr.decode()[-400:]),
                          {"fault": kind, "files": [os.path.relpath(f, caches.garble_cache) for f in files], "module": "corpus/mod2", "flags": gflags})
            # restore a consistent cache for the next faults
            shutil.rmtree(caches.garble_cache, ignore_errors=True)
            os.makedirs(caches.garble_cache)
            e2e.garble_build(garble, proj, out_bin, garble_flags=gflags, flags=XFLAGS + ["-a"], caches=caches, extra_env=env_extra, timeout=1500)
            gfiles = cache_files(os.path.join(caches.garble_cache, "build"))
            continue
        if e2e.sha256_file(out_bin) != ref_sha or e2e.run_bin(out_bin)[:2] != ref_out:
            res.violation("rebuild-differs:%s:%d" % (kind, len(files)), "after %s the rebuild produces another binary or output than the cold build" % what,
                          {"fault": kind, "files": [os.path.relpath(f, caches.garble_cache) for f in files], "module": "corpus/mod2", "flags": gflags})
    # ---- 3. the whole build cache lost, then main.go itself edited: only main is recompiled and must recover what it needs about
    #         every dependency from cmd/go's cache (wrap reaches reflection only through encoding/json); compared with a cold build
    #         of the edited source
    open(main_go, "w").write(main_src)
    shutil.rmtree(os.path.join(caches.garble_cache, "build"), ignore_errors=True)
    mg = os.path.join(pdir, "main.go")
    msrc = open(mg).read()
    assert '"svc"' in msrc
    open(mg, "w").write(msrc.replace('"svc"', '"svc-edited"'))
    out1, out2 = os.path.join(pdir, "edited-warm.bin"), os.path.join(pdir, "edited-cold.bin")
    r1 = e2e.garble_build(garble, proj, out1, garble_flags=gflags, flags=XFLAGS, caches=caches, extra_env=env_extra, timeout=1500)
    cold = e2e.Caches("c07cold")
    r2 = e2e.garble_build(garble, proj, out2, garble_flags=gflags, flags=XFLAGS, caches=cold, extra_env=env_extra, timeout=1500)
    cold.remove()
    builds += 2
    if r1.returncode != 0 or r2.returncode != 0:
        res.violation("lost-cache-edit-main-fails", "GARBLE_CACHE/build deleted, main.go edited: the rebuild fails (warm %d, cold %d): %s"
                      % (r1.returncode, r2.returncode, (r1.stderr + r2.stderr).decode()[-300:]), {"module": "corpus/mod2", "flags": gflags})
    elif e2e.run_bin(out1)[:2] != e2e.run_bin(out2)[:2] or e2e.sha256_file(out1) != e2e.sha256_file(out2):
        res.violation("lost-cache-edit-main", "GARBLE_CACHE/build deleted (cmd/go's cache intact), then main.go edited: the rebuild prints %r, a cold build of the same source prints %r"
                      % (e2e.run_bin(out1)[1][-120:], e2e.run_bin(out2)[1][-120:]),
                      {"module": "corpus/mod2", "flags": gflags, "history": ["cold build", "rm -r GARBLE_CACHE/build", "edit main.go", "build"]})
    open(mg, "w").write(msrc)
    caches.remove()
    res.cov["evaluations"] += builds
    res.cov["fault_rebuilds"] = builds - 1
    res.cov["garble_cache_files"] = len(gfiles)
    res.cov["distinct_nontrivial"] = changed + builds - 1
    res.cov["rule"] = ("(1) random entries x fault sequences (delete/empty/truncate of index and data file, up to 3 in sequence) on the real cache package vs get_file in "
                       "Coq; non-trivial = the faults turned the hit into a miss. (2) corpus/mod2 (asm with go_asm.h names, linkname, -X) built cold, then for "
                       "%d fault sets over the files of GARBLE_CACHE (all data files emptied with indexes intact, all indexes deleted, whole cache deleted, "
                       "linker binary deleted, sampled single files) a forced rebuild (-a) compared with the reference" % (builds - 1))
    res.add_sample({"data_len": len(cases[0][0]), "faults": cases[0][1], "hit": outs[0]["hit"]})
    if (bad or not proofs_ok) and not res.violations:
        what = []
        if not proofs_ok:
            what.append("proof obligations of Properties/C07.v no longer check (%s)" % getattr(res, "broken", "see output"))
        if bad:
            what.append("get_file differs from the real cache package on %d fault sequences, e.g. %r" % (len(bad), cases[bad[0]][1]))
        res.violation("tie-broken", "; ".join(what), {"theorems": THEOREMS}, found_input=False)
