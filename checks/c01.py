"""C01 — Obfuscated builds behave exactly like regular builds."""
import hashlib, json, os, re, shutil
import vlib, e2e, corpus
from rename_common import *
from names_common import Oracle, is_exported

THEOREMS = ["C01_rename_preserves_resolution", "C01_rename_no_capture", "C01_interfaces_preserved", "C01_entry_points_kept",
            "C01_exported_methods_kept", "C01_tests_kept", "C01_plain_packages_kept", "C01_linkname_function_agrees",
            "C01_linkname_unknown_unchanged", "C01_asm_passthrough", "C01_asm_local_reference", "C01_asm_go_agree",
            "C01_x_flag_duplicate", "C01_x_flag_unknown_package"]
RUN_ARGS = [[], ["a", "b"], ["fail"], ["panic"]]
XFLAGS = ["-ldflags=-X=main.version=v1.2.3-injected -X=example.com/corp2/internal/secret.Channel=beta-channel-injected"]


def linkname_cases(r, n):
    """(request, coq literal pieces) for transformLinkname against Linkname.linkname_rewrite"""
    cases = []
    seed = bytes(7) + b"\x05"
    pkgs_all = [("runtime", False, True), ("example.com/a", True, False), ("example.com/b", True, False), ("example.com/b/sub", True, False),
                ("plainpkg", False, False), ("lib", True, False), ("lib_test", True, False), ("notdep.org/z", True, False), ("sync/atomic", True, True)]
    names = ["helper", "Exported", "init", "x_y", "Add64", "T", "meth"]
    for i in range(n):
        cur = r.choice(["example.com/a", "plainpkg"])
        deps = [p for p, _, _ in pkgs_all if p not in (cur, "notdep.org/z", "runtime")]
        r.shuffle(deps)
        deps = deps[:r.randint(2, len(deps))]
        pk = []
        for p, obf, std in pkgs_all:
            pk.append({"path": p, "name": p.split("/")[-1], "to_obf": obf, "standard": std, "aid": "%02x" % (len(pk) + 1) * 15,
                       "imports": (deps if p == cur else [])})
        kind = r.random()
        tgt_pkg = r.choice([p for p, _, _ in pkgs_all] + ["unknown.org/q", "example"])
        nm = r.choice(names)
        if kind < 0.5:
            new = tgt_pkg + "." + nm
        elif kind < 0.65:
            new = tgt_pkg + ".(*T)." + nm
        elif kind < 0.8:
            new = tgt_pkg + ".T." + nm
        elif kind < 0.85:
            new = ""
        elif kind < 0.9:
            new = r.choice(["main.main", "runtime..inittask", "madeup_symbol", "_cgo_xyz"])
        else:
            new = tgt_pkg + "." + nm
        local = r.choice(["localFn", "Exp", "x"])
        req = {"op": "linkname", "seed": seed.hex(), "gogarble": "*", "binary_id": "07" * 15, "pkgs": pk, "cur": cur, "s": local, "s2": new}
        # what listPackage answers (python transcription of the dependency rule; the hashing and the
        # rewriting stay in the Coq model)
        known = {p["path"]: p for p in pk}
        lookup = []
        for p in known:
            if p == cur:
                res_ = "Found %s" % vlib.coq_bool(known[p]["to_obf"])
            elif p in deps or p == "runtime":
                res_ = "Found %s" % vlib.coq_bool(known[p]["to_obf"])
            else:
                res_ = "NotDependency"
            lookup.append("(%s, %s)" % (vlib.nlist(p.encode()), res_))
        cases.append((req, cur, known[cur]["to_obf"], local, new, "[" + ";".join(lookup) + "]", seed))
    return cases



def intrinsics_of_repo():
    """(path, name) pairs of compilerIntrinsics in /repo's go_std_tables.go (for the generator only; the model uses the regenerated Gen/StdTables.v)"""
    try:
        src = open(os.path.join(vlib.REPO, "go_std_tables.go")).read()
        body = src[src.index("var compilerIntrinsics"):]
        body = body[:body.index("\n}\n")]
    except (OSError, ValueError):
        return []
    out, cur = [], None
    for line in body.split("\n"):
        m = re.match(r'\s*"([^"]+)":\s*\{', line)
        if m:
            cur = m.group(1)
            continue
        m = re.match(r'\s*"([^"]+)":\s*true', line)
        if m and cur:
            out.append((cur, m.group(1)))
    return out


def asm_cases(r, n):
    """assembly-like texts for replaceAsmNames: local and qualified references, multi-dot package paths, names next to
    punctuation, non-ASCII letters, stray middle dots; qualified packages are always dependencies (otherwise listPackage panics)"""
    intr = intrinsics_of_repo()
    names = ["add", "Add", "privateAdd", "x1", "_under", "tbl", "memmove", "Ctz64", "main", "init", "A", "z9_"]
    cases = []
    for _ in range(n):
        seed = bytes(r.randrange(256) for _ in range(8))
        deps_all = [("example.com/asm/lib", True, False), ("example.com/asm/plain", False, False), ("test/with.many.dots/main/imported", True, False),
                    ("runtime", r.random() < 0.5, True), ("internal/cpu", r.random() < 0.5, True), ("internal/runtime/atomic", True, True), ("math/bits", True, True)]
        cur = ("example.com/asm/cur", "cur", r.random() < 0.8)
        pk = [{"path": cur[0], "name": cur[1], "to_obf": cur[2], "standard": False, "aid": "11" * 15, "imports": [d[0] for d in deps_all]}]
        for k, (p, obf, std) in enumerate(deps_all):
            pk.append({"path": p, "name": p.split("/")[-1], "to_obf": obf, "standard": std, "aid": "%02x" % (k + 2) * 15, "imports": []})
        def ref():
            k = r.random()
            nm = r.choice(names)
            if k < 0.4:
                return "\u00b7" + nm
            if k < 0.5:
                return cur[1] + "\u00b7" + nm
            if k < 0.6 and intr:
                p, nm2 = r.choice(intr)
                if p in [d[0] for d in deps_all]:
                    return p.replace("/", "\u2215").replace(".", "\u00b7") + "\u00b7" + nm2
            d = r.choice(deps_all)
            return d[0].replace("/", "\u2215").replace(".", "\u00b7") + "\u00b7" + nm
        lines = []
        for _ in range(r.randint(1, 6)):
            k = r.random()
            if k < 0.3:
                lines.append("TEXT %s(SB),$0-24" % ref())
            elif k < 0.5:
                lines.append("\t%s %s(SB)" % (r.choice(["CALL", "JMP"]), ref()))
            elif k < 0.6:
                lines.append("DATA %s<>+0(SB)/8, $%d" % (ref(), r.randint(0, 9)))
            elif k < 0.7:
                lines.append("// comment a.b/c %s, then %s." % (ref(), ref()))
            elif k < 0.8:
                lines.append("\tMOVQ $0, ret+16(FP)")
            elif k < 0.85:
                # a non-ASCII name is scanned with unicode.IsLetter; hashing it is C16's subject, so it is referenced only where names are kept
                lines.append("\tLEAQ \u00b7h\u00e9llo\u4e16(SB), AX // \u00e9t\u00e9" if not cur[2] else "\tLEAQ \u00b7hello9(SB), AX // \u00e9t\u00e9 \u4e16")
            elif k < 0.9:
                lines.append(r.choice(["\u00b7", "\u00b7\u00b7x(SB)", "x \u00b7 y", "(\u00b7f+8)(SB)", "$\u00b7g<>(SB)", "\u00b7a\u2215b(SB)"]))
            else:
                lines.append("#include \"textflag.h\"")
        text = "\n".join(lines) + ("\n" if r.random() < 0.8 else "")
        req = {"op": "asmnames", "seed": seed.hex(), "gogarble": "*", "binary_id": "07" * 15, "pkgs": pk, "cur": cur[0], "s": text}
        table = "[" + ";".join("(%s, Found %s)" % (vlib.nlist(p["path"].encode()), vlib.coq_bool(p["to_obf"])) for p in pk) + "]"
        cases.append((req, seed, cur, table, text))
    return cases



def linkx_cases(r, n):
    """linker command lines with -X flags in both spellings: main.name, dotted import paths, unobfuscated and unknown packages,
    values containing '=' and '.', a flag without '=', other linker flags around them"""
    cases = []
    for _ in range(n):
        seed = bytes(r.randrange(256) for _ in range(8))
        pkgs_all = [("example.com/corp2", "main", True), ("example.com/dotted.name/pkg", "pkg", True), ("example.com/corp2/internal/secret", "secret", True),
                    ("example.com/plain", "plain", False), ("v2.example.org/a.b/c.d", "d", r.random() < 0.7)]
        pk = [{"path": p, "name": nm, "to_obf": obf, "standard": False, "aid": "%02x" % (k + 1) * 15, "imports": []} for k, (p, nm, obf) in enumerate(pkgs_all)]
        flags = ["-o", "out.bin", "-buildid=" + r.choice(["abc/def", "", "x"])]
        for _ in range(r.randint(0, 4)):
            path = r.choice(["main", "main", "example.com/dotted.name/pkg", "example.com/corp2/internal/secret", "example.com/plain", "v2.example.org/a.b/c.d",
                             "unknown.org/q", "example.com/corp2"])
            name = r.choice(["version", "Channel", "buildTag", "X"])
            val = r.choice(["v1.2.3", "a=b", "", "with space", "-X=nested.x=y", "1.0-debug"])
            k = r.random()
            full = "%s.%s=%s" % (path, name, val) if k < 0.9 else "%s.%s" % (path, name)     # the latter has no '=': skipped
            flags += ["-X=" + full] if r.random() < 0.6 else ["-X", full]
            if r.random() < 0.3:
                flags.append(r.choice(["-extld=gcc", "-buildmode=exe", "-s", "-w"]))
        args = ["main.a"]
        req = {"op": "translink", "seed": seed.hex(), "gogarble": "*", "binary_id": "07" * 15, "pkgs": pk, "cur": "example.com/corp2", "args": flags + args}
        table = "[" + ";".join("(%s, Found %s)" % (vlib.nlist(p["path"].encode()), vlib.coq_bool(p["to_obf"])) for p in pk) + "]"
        cases.append((req, seed, table, flags + args))
    return cases


def run(res, tier, seed, replay):
    r = vlib.rng(seed)
    ok, msg = vlib.run_translators()
    proofs_ok = ok and vlib.check_proofs(res, "C01", "Properties/C01.v", THEOREMS)
    res.cov["trusted_base"] += vlib.TRUSTED_COMMON + [
        "harness/objmap pairing of the -debugdir tree; injected oracle for transformLinkname; python hashlib",
        "NOT carried by any theorem: that the Go compiler/linker give alpha-equivalent programs equal behaviour, go/printer, useAllImports, the "
        "assembly rewriter (differential runs only)"]
    res.assumptions = ["no_clash (no hash collision among the names visible in one scope chain) is the documented caveat; C16 bounds it"]
    try:
        garble, _ = vlib.build_garble()
    except vlib.BuildError as e:
        res.violation("garble-build", "garble (with oracle) no longer builds: %s" % str(e)[-800:], {"error": str(e)}, found_input=False)
        return
    # ---------------- 1. decision correspondence on the corpus (default flags)
    cres = corpus.corpus_build(garble, [])
    mism = []
    if cres["garble_rc"] != 0:
        res.violation("corpus-garble-build", "garble build of corpus/mod1 fails while go build succeeds: %s" % cres["garble_err"][-600:],
                      {"module": "corpus/mod1", "flags": []})
    elif cres.get("objmap_rc") != 0 or cres["objmap"]["problems"]:
        res.violation("pairing", "identifier pairing failed: %s %s" % (cres.get("objmap_err", "")[-300:], (cres.get("objmap") or {}).get("problems")), {}, found_input=False)
    else:
        obf_pkgs = [p for p in cres["listed"] if not cres["listed"][p]["Standard"]]
        lits, meta = decision_cases(cres, {"gogarble": "*"}, obf_pkgs)
        bad = vlib.coq_eval_cases("c01a", HEADER, "objd * bytes * bytes * list str", lits, check_expr(obf_pkgs))
        mism += [("decision", meta[i]["pkg"], meta[i]["name"], meta[i]["kind"], meta[i]["garbled"]) for i in bad]
        res.cov["evaluations"] += len(lits)
        res.cov["corpus_objects"] = len(lits)
        # consistency across packages is a direct consequence the property needs: one spelling per object
        for o in meta:
            if len(o["garbled"]) != 1:
                res.violation("inconsistent:%s.%s" % (o["pkg"], o["name"]), "%s %s.%s is spelled %r in different places of the obfuscated module"
                              % (o["kind"], o["pkg"], o["name"], o["garbled"]), {"object": o})
    # ---------------- 2. linkname rewriting against the model
    orc = Oracle(garble)
    lcases = linkname_cases(r, 60 if tier == "quick" else 600)
    outs = orc.batch([c[0] for c in lcases])
    llits = []
    for (req, cur, cur_obf, local, new, lookup, sd), o in zip(lcases, outs):
        if "panic" in o:
            res.violation("linkname-panic", "transformLinkname panics on //go:linkname %s %s: %s" % (local, new, o["panic"]), {"request": req})
            continue
        llits.append("(%s, %s, %s, %s, %s, %s, %s, %s)" % (vlib.nlist(sd), vlib.nlist(cur.encode()), vlib.coq_bool(cur_obf), lookup,
                                                       vlib.nlist(local.encode()), vlib.nlist(new.encode()), vlib.nlist(o["local"].encode()), vlib.nlist(o["new"].encode())))
    lheader = ("From Verif Require Import Base.Bytes Model.Flags Model.Names Model.Scope Model.Rename Model.Linkname.\nFrom Verif Require Gen.StdTables.\nOpen Scope N_scope.\n"
               "Definition cfg (sd : bytes) := {| c_literals := false; c_tiny := false; c_ctrlflow := false; c_seed := sd; c_gogarble := [42]; c_binary_id := []; c_testobf := [] |}.\n"
               "Definition hn (sd : bytes) (p n : str) := hash_with_package (cfg sd) p [] n (ascii_ident n) (ascii_exported n).\n"
               "Definition keepl := Gen.StdTables.keep_switch_paths ++ Gen.StdTables.intrinsic_pkgs ++ Gen.StdTables.runtime_and_linknamed.\n"
               "Fixpoint lk (t : list (str * lookup_result)) (p : str) : lookup_result := match t with [] => NotFound | (k, v) :: r => if beq k p then v else lk r p end.\n"
               "Definition ip (sd : bytes) (t : list (str * lookup_result)) (p : str) : str := "
               "match lk t p with Found true => if mem p keepl then p else hn sd p p | _ => p end.\n")
    lcheck = ("(fun c => match c with (sd, cur, cobf, t, local, new, ol, on) => "
              "let r := linkname_rewrite (lk t) (hn sd) (ip sd t) Gen.StdTables.intrinsics cur cobf ascii_exported local new in "
              "negb (beq (fst r) ol && beq (snd r) on) end)")
    badl = vlib.coq_eval_cases("c01b", lheader, "bytes * str * bool * list (str * lookup_result) * str * str * str * str", llits, lcheck, chunk=10)
    mism += [("linkname", lcases[i][3], lcases[i][4], outs[i]) for i in badl]
    res.cov["evaluations"] += len(llits)
    res.cov["linkname_cases"] = len(llits)


    # ---------------- 2b. the assembly rewriter against the model
    import unicodedata
    acases = asm_cases(r, 60 if tier == "quick" else 500)
    aouts = orc.batch([c[0] for c in acases])
    alits, apanics = [], 0
    for (req, sd, cur, table, text), o in zip(acases, aouts):
        if "panic" in o:
            apanics += 1
            continue
        cps = sorted(set(ord(ch) for ch in text + o["out"]))
        letters = [c for c in cps if unicodedata.category(chr(c)).startswith("L")]
        digits = [c for c in cps if unicodedata.category(chr(c)) == "Nd"]
        runes = lambda t: "[" + ";".join(str(ord(ch)) for ch in t) + "]"
        alits.append("(%s, %s, %s, %s, %s, %s, %s, %s, %s)" % (vlib.nlist(sd), vlib.nlist(cur[0].encode()), vlib.nlist(cur[1].encode()), vlib.coq_bool(cur[2]), table,
                                                           "[" + ";".join(map(str, letters)) + "]", "[" + ";".join(map(str, digits)) + "]", runes(text), runes(o["out"])))
    aheader = lheader.replace("Model.Rename Model.Linkname.", "Model.Rename Model.Linkname Model.Asm.") + (
        "Definition lkp (sd : bytes) (t : list (str * lookup_result)) (p : str) : bool * str * str := "
        "(match lk t p with Found b => b | _ => false end, ip sd t p, p).\n"
        "Definition memn (c : N) (l : list N) : bool := existsb (N.eqb c) l.\n")
    acheck = ("(fun c => match c with (sd, cur, cname, cobf, t, letters, digits, text, out) => "
              "negb (beq (replace_asm_names (fun x => memn x letters) (fun x => memn x digits) (lkp sd t) (hn sd) Gen.StdTables.intrinsics cname cur cobf (ip sd t cur) text) out) end)")
    bada = vlib.coq_eval_cases("c01c", aheader, "bytes * str * str * bool * list (str * lookup_result) * list N * list N * str * str", alits, acheck, chunk=10)
    mism += [("asm", acases[i][4], aouts[i].get("out")) for i in bada]
    res.cov["evaluations"] += len(alits)
    res.cov["asm_cases"] = len(alits)
    res.cov["asm_cases_skipped_listPackage_panic"] = apanics

    # ---------------- 2c. transformLink's flag surgery, in particular the -X duplicates, against the model
    xcases = linkx_cases(r, 50 if tier == "quick" else 500)
    xouts = orc.batch([c[0] for c in xcases])
    xlits = []
    for (req, sd, table, argv), o in zip(xcases, xouts):
        if "panic" in o or "err" in o:
            res.violation("link-flags-panic", "transformLink fails on %r: %s" % (argv, o.get("panic") or o.get("err")), {"request": req})
            continue
        xlits.append("(%s, %s, %s, %s)" % (vlib.nlist(sd), table, "[" + ";".join(vlib.nlist(a.encode()) for a in ["-importcfg=IN"] + argv) + "]",
                                           "[" + ";".join(vlib.nlist(a.encode()) for a in o["flags"]) + "]"))
    xheader = lheader.replace("Model.Rename Model.Linkname.", "Model.Rename Model.Linkname Model.FlagsGen Model.LinkFlags.") + (
        "Definition eqsl (a b : list str) : bool := beq (concat (map (fun s => 0 :: s) a)) (concat (map (fun s => 0 :: s) b)) && Nat.eqb (length a) (length b).\n"
        "Definition s_cur : str := %s.\nDefinition s_cfg : str := %s.\n" % (vlib.nlist(b"example.com/corp2"), vlib.nlist(b"CFG")) +
        # the package being linked is named main: its obfuscated import path is "main" also when it is addressed by its import path
        "Definition lkx (sd : bytes) (t : list (str * lookup_result)) (p : str) : option (str * str) := "
        "match lk t p with Found _ => Some (if beq p s_cur then s_mainpkg else ip sd t p, p) | _ => None end.\n")
    xcheck = ("(fun c => match c with (sd, t, argv, out) => let '(f, args) := split_flags bools argv in "
              "negb (eqsl (transform_link_flags f (x_dups (lkx sd t) (s_mainpkg, s_cur) (hn sd) f) s_cfg ++ args) out) end)")
    badx = vlib.coq_eval_cases("c01d", xheader, "bytes * list (str * lookup_result) * list str * list str", xlits, xcheck, chunk=10)
    mism += [("link-flags", xcases[i][3], xouts[i].get("flags")) for i in badx]
    res.cov["evaluations"] += len(xlits)
    res.cov["link_flag_cases"] = len(xlits)

    # ---------------- 3. differential runs: plain vs garbled, every argv, several configurations
    def diff_runs(tag, plain_bin, garbled_bin, argvs, ctx):
        n = 0
        for argv in argvs:
            a, b = e2e.run_bin(plain_bin, argv), e2e.run_bin(garbled_bin, argv)
            n += 1
            # stderr of a panic names positions/goroutines; compare stdout and exit status only
            if a[0] != b[0] or a[1] != b[1]:
                res.violation("behaviour:%s:%s" % (tag, " ".join(argv)), "%s with args %r: plain exit %d stdout %r; garbled exit %d stdout %r"
                              % (tag, argv, a[0], a[1][-300:], b[0], b[1][-300:]), dict(ctx, argv=argv))
        return n
    nruns = 0
    if cres["garble_rc"] == 0:
        nruns += diff_runs("mod1/default", cres["plain"], cres["garbled"], RUN_ARGS, {"module": "corpus/mod1", "flags": []})
    all_cfgs = [["-tiny"], ["-seed=AAAAAAAAAAE"], ["-literals"], ["-literals", "-tiny", "-seed=c2VlZHNlZWRzZWVk"]]
    cfgs = [all_cfgs[seed % len(all_cfgs)]] if tier == "quick" else all_cfgs
    caches = corpus.corpus_caches(cres)
    builds = 1
    plan = []
    if tier == "quick":
        # mod2 (asm, linkname, -X) always under -literals, where -X and literal obfuscation interact; mod1 under a rotating configuration
        plan = [(["-literals"], "mod2", XFLAGS, None), (all_cfgs[seed % len(all_cfgs)], "mod1", [], None)]
    else:
        plan = [(g, m, f, None) for g in all_cfgs for (m, f) in (("mod1", []), ("mod2", XFLAGS))]
    # a narrow GOGARBLE scope: plain packages embed, convert, alias and instantiate types of obfuscated ones and the other way round
    narrow = ["example.com/corp/shapes,example.com/corp/gen", "example.com/corp/lib,example.com/corp/util", "example.com/corp,example.com/corp/iface"]
    # (built with -tags=narrowscope, which leaves out the one construct known not to survive a scope boundary, see F14 below)
    plan.append(([], "mod1", ["-tags=narrowscope"], narrow[0]))      # main (plain) embeds shapes.Point and instantiates gen types with it
    if tier != "quick":
        plan += [([], "mod1", ["-tags=narrowscope"], g) for g in narrow[1:]]
    for gflags, mod, pkgflags, gogarble in plan:
        if True:
            src = os.path.join(vlib.VERIF, "corpus", mod)
            pdir = vlib.sub("c01-" + mod)
            shutil.rmtree(pdir, ignore_errors=True)
            shutil.copytree(src, pdir)
            proj = e2e.Project.__new__(e2e.Project)
            proj.dir = pdir
            pb, gb = os.path.join(pdir, "plain.bin"), os.path.join(pdir, "garbled.bin")
            rp = e2e.plain_build(proj, pb, flags=pkgflags, caches=caches)
            if rp.returncode != 0:
                raise RuntimeError("plain build of %s failed: %s" % (mod, rp.stderr.decode()[-500:]))
            rg = e2e.garble_build(garble, proj, gb, garble_flags=gflags, flags=pkgflags, caches=caches, timeout=1500,
                                  extra_env=({"GOGARBLE": gogarble} if gogarble else None))
            builds += 1
            tag = "%s/%s%s" % (mod, " ".join(gflags), (" GOGARBLE=" + gogarble) if gogarble else "")
            if rg.returncode != 0:
                res.violation("garble-build-fails:" + tag, "garble %s build of corpus/%s fails while go build succeeds: %s" % (gflags, mod, rg.stderr.decode()[-600:]),
                              {"module": "corpus/" + mod, "flags": gflags, "go_flags": pkgflags})
                continue
            nruns += diff_runs(tag, pb, gb, RUN_ARGS if mod == "mod1" else [[]], {"module": "corpus/" + mod, "flags": gflags, "go_flags": pkgflags})
    # known finding F14: an anonymous struct type used on both sides of a GOGARBLE boundary
    if tier != "quick" or seed % 2 == 1:
        pdir = vlib.sub("c01-mod1")
        proj = e2e.Project.__new__(e2e.Project)
        proj.dir = pdir
        rg = e2e.garble_build(garble, proj, os.path.join(pdir, "f14.bin"), caches=caches, timeout=1500, extra_env={"GOGARBLE": narrow[0]})
        builds += 1
        if rg.returncode != 0:
            if b"cannot use struct" in rg.stderr:
                res.violation("F14-anon-struct-gogarble-boundary", "GOGARBLE=%s garble build of corpus/mod1 fails while go build succeeds: %s" % (narrow[0], rg.stderr.decode()[-300:]),
                              {"module": "corpus/mod1", "gogarble": narrow[0], "construct": "sh.Converted(struct{ X, Y int }{7, 8}) in a package outside GOGARBLE"})
            else:
                res.violation("garble-build-fails:mod1/untagged GOGARBLE=" + narrow[0], "garble build of corpus/mod1 with GOGARBLE=%s fails: %s" % (narrow[0], rg.stderr.decode()[-400:]),
                              {"module": "corpus/mod1", "gogarble": narrow[0]})
    for gflags in (cfgs if tier != "quick" else cfgs[:1]):
        if True:
            # garble run / garble test on mod1
            pdir = vlib.sub("c01-mod1")
            proj = e2e.Project.__new__(e2e.Project)
            proj.dir = pdir
            open(os.path.join(pdir, "util", "util_test.go"), "w").write(
                'package util\n\nimport "testing"\n\nfunc TestTwice(t *testing.T) { if Twice(2) != 4 { t.Fatal("bad") } }\nfunc TestClampFails(t *testing.T) { if Clamp(5, 0, 3) != 99 { t.Fatal("expected failure") } }\n')
            env = caches.env()
            pt = vlib.run(["go", "test", "./util"], env=env, cwd=pdir)
            gt = vlib.run([garble] + gflags + ["test", "./util"], env=env, cwd=pdir, timeout=1500)
            if pt.returncode != gt.returncode or (b"--- FAIL: TestClampFails" in pt.stdout) != (b"--- FAIL: TestClampFails" in gt.stdout):
                res.violation("test-verdicts:" + " ".join(gflags), "go test and garble %s test disagree: %d vs %d" % (gflags, pt.returncode, gt.returncode),
                              {"flags": gflags, "garble_out": gt.stdout.decode()[-500:] + gt.stderr.decode()[-500:]})
            pr_ = vlib.run(["go", "run", ".", "a"], env=env, cwd=pdir)
            gr_ = vlib.run([garble] + gflags + ["run", ".", "a"], env=env, cwd=pdir, timeout=1500)
            if pr_.returncode != gr_.returncode or pr_.stdout != gr_.stdout:
                res.violation("run-differs:" + " ".join(gflags), "go run and garble %s run disagree" % gflags, {"flags": gflags, "garble_err": gr_.stderr.decode()[-500:]})
    res.cov["evaluations"] += nruns
    res.cov["differential_runs"] = nruns
    res.cov["garble_builds"] = builds
    res.cov["distinct_nontrivial"] = res.cov.get("corpus_objects", 0) + len(llits)
    res.cov["rule"] = ("(1) every identifier occurrence of corpus/mod1 in the -debugdir tree vs Rename.decide+Names in Coq; (2) generated //go:linkname "
                       "directives (functions, methods with pointer/value receivers, exported/unexported, unknown/non-dependency/_test/plain packages, special "
                       "symbols) vs Linkname.linkname_rewrite in Coq; (3) stdout+exit status of plain vs garbled binaries of corpus/mod1 (4 argvs) and "
                       "corpus/mod2 (assembly with go_asm.h offsets and a Go call, linknamed func and var, -ldflags=-X into main and a dotted package) "
                       "under %d configuration(s)" % (len(cfgs) + 1))
    res.add_sample({"module": "corpus/mod1", "argv": ["panic"], "compared": "stdout + exit status"})
    res.add_sample({"linkname": lcases[0][3] + " " + lcases[0][4], "rewritten": outs[0]})
    if (mism or not proofs_ok) and not res.violations:
        what = []
        if not proofs_ok:
            what.append("proof obligations of Properties/C01.v no longer check (%s)" % getattr(res, "broken", "see output"))
        if mism:
            what.append("correspondence differs on %d cases, e.g. %r" % (len(mism), mism[0]))
        res.violation("tie-broken", "; ".join(what), {"theorems": THEOREMS, "mismatches": [repr(x) for x in mism[:10]]}, found_input=False)
