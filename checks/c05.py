"""C05 — Obfuscated literals evaluate to their original values."""
import json, os, subprocess
import vlib, e2e, lit_extract, lit_e2e
from names_common import Oracle

THEOREMS = ["C05_layer_roundtrip", "C05_atom_roundtrip", "C05_simple_roundtrip", "C05_swap_roundtrip", "C05_seed_roundtrip",
            "C05_shuffle_roundtrip", "C05_split_roundtrip", "C05_wrap_roundtrip", "C05_array_roundtrip", "C05_consts",
            "C05_linker_var_of_own_package", "C05_linker_var_of_other_package"]


def grid(r, tier):
    lens = [8, 9, 10, 15, 16, 17, 31, 64, 255, 256, 257] + ([300, 1024, 2048, 2055] if tier != "quick" else [300])
    out = []
    for ln in lens:
        kinds = ["random", "zeros", "ff", "ascii"] if tier != "quick" or ln <= 64 else ["random"]
        for kind in kinds:
            if kind == "random":
                d = bytes(r.randrange(256) for _ in range(ln))
            elif kind == "zeros":
                d = bytes(ln)
            elif kind == "ff":
                d = b"\xff" * ln
            else:
                d = ("héllo wörld \"q\" \\ \n" * (ln // 8 + 1)).encode()[:ln]
            out.append(d)
    return out



def linkvars_correspondence(res, orc, r, tier):
    """computeLinkerVariableStrings (which variables of the package being compiled -ldflags=-X sets, and to what) against
    Model/LinkFlags.v linker_var_strings, on generated packages (main and not, dotted import paths) and flag lists."""
    n = 50 if tier == "quick" else 400
    cases, reqs = [], []
    for _ in range(n):
        path, name = r.choice([("example.com/corp2", "main"), ("example.com/dotted.name/pkg", "pkg"), ("v2.example.org/a.b/c.d", "d"), ("main", "main"), ("plain", "plain")])
        vars_ = r.sample(["version", "Channel", "buildTag", "X", "other"], r.randint(1, 4))
        src = "package %s\n\n%s\nfunc notAVar() {}\nconst aConst = \"c\"\ntype aType int\n" % (name, "\n".join('var %s = "default"' % v for v in vars_))
        toks = []
        for _ in range(r.randint(0, 5)):
            p2 = r.choice([path, path, "main", "example.com/other", "example.com/dotted", "v2.example"])
            nm = r.choice(["version", "Channel", "buildTag", "X", "other", "notAVar", "aConst", "missing"])
            val = r.choice(["v1.2.3", "a=b", "", "1.0-debug", "x.y"])
            full = "%s.%s=%s" % (p2, nm, val) if r.random() < 0.9 else "%s.%s" % (p2, nm)
            toks += ["-X=" + full] if r.random() < 0.6 else ["-X", full]
            if r.random() < 0.3:
                toks.append(r.choice(["-s", "-w", "-extld=gcc"]))
        reqs.append({"op": "linkvars", "s": src, "s2": path, "args": [" ".join(toks)]})
        cases.append((path, name, vars_, toks, src))
    outs = orc.batch(reqs)
    lits, meta = [], []
    sl = lambda xs: "[" + ";".join(vlib.nlist(x.encode()) for x in xs) + "]"
    for (path, name, vars_, toks, src), o in zip(cases, outs):
        if "vars" not in o:
            res.violation("linkvars-fails", "computeLinkerVariableStrings fails for package %s with -ldflags=%r: %s" % (path, " ".join(toks), o), {"source": src, "ldflags": toks})
            continue
        got = sorted((o["vars"] or {}).items())
        lits.append("(%s, %s, %s, %s, %s)" % (vlib.nlist(path.encode()), vlib.nlist(name.encode()), sl(vars_), sl(toks),
                                              "[" + ";".join("(%s, %s)" % (vlib.nlist(k.encode()), vlib.nlist(v.encode())) for k, v in got) + "]"))
        meta.append((path, toks, got))
    header = ("From Verif Require Import Base.Bytes Model.Flags Model.LinkFlags.\nOpen Scope N_scope.\n"
              "Definition sub (a b : list (str * str)) : bool := forallb (fun p => existsb (fun q => beq (fst p) (fst q) && beq (snd p) (snd q)) b) a.\n")
    bad = vlib.coq_eval_cases("c05x", header, "str * str * list str * list str * list (str * str)", lits,
                              "(fun c => match c with (path, name, vars, fl, got) => let m := linker_var_strings path name vars fl in negb (sub m got && sub got m) end)", chunk=25)
    for i in bad[:3]:
        path, toks, got = meta[i]
        res.violation("linkvars-model", "for package %s and -ldflags=%r computeLinkerVariableStrings yields %r, Model/LinkFlags.v linker_var_strings differs "
                      "(theorems C05_linker_var_of_own_package/_other_package describe the selection)" % (path, " ".join(toks), got), {"package": path, "ldflags": toks, "implementation": got})
    res.cov["linkvars_cases"] = len(lits)
    return len(lits)


def run(res, tier, seed, replay):
    r = vlib.rng(seed)
    ok, msg = vlib.run_translators()
    proofs_ok = ok and vlib.check_proofs(res, "C05", "Properties/C05.v", THEOREMS)
    res.cov["trusted_base"] += vlib.TRUSTED_COMMON + [
        "injected internal/literals/verif_oracle.go printing the emitted BlockStmt with go/printer; checks/lit_extract.py reading that source back into "
        "the artefact structures of Model/Literals.v",
        "the Go compiler running the same emitted blocks (compiled batch) and a `garble -literals` build of a generated program",
        "proxy.go (value hiding) is only exercised by the real build"]
    res.assumptions = ["okb: data and key bytes are below 256; positions/indices are below the data length (what rand.Intn(len(data)) guarantees)"]
    try:
        garble, _ = vlib.build_garble()
    except vlib.BuildError as e:
        res.violation("oracle-build", "garble with the injected literals oracle no longer builds: %s" % str(e)[-800:], {"error": str(e)}, found_input=False)
        return
    orc = Oracle(garble)
    lv_cases = linkvars_correspondence(res, orc, r, tier)
    datas = grid(r, tier)
    reqs, meta = [], []
    for d in datas:
        for oi in range(5):
            if len(d) > 256 and oi >= 2 and tier == "quick":
                continue
            sd = r.randrange(1 << 31)
            reqs.append({"op": "litobf", "name": str(oi), "s": str(sd), "in": d.hex()})
            meta.append((oi, sd, d))
    outs = orc.batch(reqs)
    lits, cases = [], []
    hist = {"simple": 0, "swap": 0, "split": 0, "shuffle": 0, "seed": 0, "lens": {}}
    for (oi, sd, d), o in zip(meta, outs):
        if "panic" in o:
            res.violation("obfuscate-panic", "obfuscator %d panics on a %d-byte literal (generator seed %d): %s" % (oi, len(d), sd, o["panic"]),
                          {"obfuscator": oi, "seed": sd, "data": d.hex()})
            continue
        c = o["case"]
        hist[c["obf"]] += 1
        hist["lens"][len(d)] = hist["lens"].get(len(d), 0) + 1
        try:
            ex = lit_extract.extract(c)
        except Exception as e:
            ex = None
            res.cov.setdefault("unreadable_templates", 0)
            res.cov["unreadable_templates"] += 1
            cases.append((c, d, "unreadable: %r" % (e,)))
            continue
        lits.append("(%s, %s)" % (ex, vlib.nlist(d)))
        cases.append((c, d, None))
    header = "From Verif Require Import Base.Bytes Model.Literals.\nOpen Scope N_scope.\n"
    bad = vlib.coq_eval_cases("c05a", header, "option bytes * bytes", lits,
                              "(fun c => match fst c with Some d => negb (beq d (snd c)) | None => true end)", chunk=40)
    readable = [x for x in cases if x[2] is None]
    # ---- the same emitted blocks through the real Go compiler
    prog = ["package main", "", 'import ("encoding/hex"; "fmt")', ""]
    calls = []
    for n, (c, d, err) in enumerate(cases):
        params = ", ".join("%s %s" % (k["name"], k["typ"]) for k in c["keys"])
        args = ", ".join(str(k["value"]) for k in c["keys"])
        blk = c["block"].strip()
        assert blk.startswith("{") and blk.endswith("}")
        body = blk[1:-1]
        uses = "\n".join("\t_ = %s" % k["name"] for k in c["keys"])
        prog.append("func f%d(%s) []byte {\n%s\n%s\n\treturn data\n}\n" % (n, params, uses, body))
        calls.append('\tfmt.Println(%d, hex.EncodeToString(f%d(%s)))' % (n, n, args))
    prog.append("func main() {\n" + "\n".join(calls) + "\n}\n")
    bdir = vlib.sub("c05-batch")
    open(os.path.join(bdir, "main.go"), "w").write("\n".join(prog))
    open(os.path.join(bdir, "go.mod"), "w").write("module batch\n\ngo 1.26\n")
    try:
        bbin = vlib.build_go(bdir, os.path.join(bdir, "batch.bin"))
        pr = subprocess.run([bbin], stdout=subprocess.PIPE, stderr=subprocess.PIPE, timeout=600)
        got = dict(l.split(" ") for l in pr.stdout.decode().strip().split("\n") if l)
        for n, (c, d, err) in enumerate(cases):
            if got.get(str(n)) != d.hex():
                res.violation("decode:%s:%d" % (c["obf"], len(d)), "the code emitted by obfuscator %s for a %d-byte literal (generator seed %d) evaluates to %s..., not the original"
                              % (c["obf"], len(d), c["seed"], (got.get(str(n)) or "nothing")[:40]), {"obfuscator": c["obf"], "seed": c["seed"], "data": d.hex(), "block": c["block"]})
    except vlib.BuildError as e:
        res.violation("batch-compile", "the emitted blocks do not compile: %s" % str(e)[-600:], {"error": str(e)[-3000:]})
    res.cov["evaluations"] = len(cases) + lv_cases
    res.cov["compiled_blocks"] = len(cases)
    res.cov["artefacts_decoded_in_coq"] = len(lits)
    # ---- real `garble -literals` build of the generated program
    le = lit_e2e.literal_e2e(garble, seed=1)
    if le["plain_rc"] != 0:
        raise RuntimeError("plain build of the literal program failed: " + le["plain_err"])
    if le["garble_rc"] != 0:
        res.violation("e2e-build", "garble -literals build of the literal program fails while go build succeeds: %s" % le["garble_err"][-600:], {"files": le["files"], "flags": le["flags"]})
    else:
        po = dict(l.split(" ", 1) for l in le["plain_out"].strip().split("\n") if " " in l)
        go = dict(l.split(" ", 1) for l in le["garbled_out"].strip().split("\n") if " " in l)
        for i, kind, c, sel in le["items"]:
            res.cov["evaluations"] += 1
            if po.get(i) != go.get(i):
                res.violation("e2e-value:" + kind.split(":")[0], "literal %s (%s) evaluates to %s... in the garbled build, %s... in the regular build"
                              % (i, kind, (go.get(i) or "nothing")[:40], (po.get(i) or "")[:40]), {"files": le["files"], "flags": le["flags"], "item": i, "kind": kind})
        res.cov["e2e_literals"] = len(le["items"])
    res.cov["distinct_nontrivial"] = len(cases)
    res.cov["histogram"] = hist
    res.cov["rule"] = ("byte strings of boundary lengths (8,9,...,255,256,257,300; thorough: up to 2055) x contents (random, zeros, 0xff, UTF-8/quotes/escapes) x 5 "
                       "obfuscators x random generator seeds: emitted block decoded by the Coq model from its source text and by the Go compiler; plus a generated "
                       "program with every literal form and context built by `garble -literals`; non-trivial = every case (all go through key layers)")
    for c, d, err in cases[:3]:
        res.add_sample({"obfuscator": c["obf"], "generator_seed": c["seed"], "data_len": len(d), "block_head": c["block"][:160]})
    mism = [("artefact", readable[i][0]["obf"], len(readable[i][1]), readable[i][0]["seed"]) for i in bad] + \
           [("template unreadable", c["obf"], err) for (c, d, err) in cases if err]
    if (mism or not proofs_ok) and not res.violations:
        what = []
        if not proofs_ok:
            what.append("proof obligations of Properties/C05.v no longer check (%s)" % getattr(res, "broken", "see output"))
        if mism:
            what.append("the model decoders do not reproduce the data from %d emitted artefacts, e.g. %r (the compiled code does)" % (len(mism), mism[0]))
        res.violation("tie-broken", "; ".join(what), {"theorems": THEOREMS, "mismatches": [repr(x) for x in mism[:10]]}, found_input=False)
