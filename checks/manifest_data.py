BASELINE_OFF = ("cd /repo && PATH=/root/go/pkg/mod/golang.org/toolchain@v0.0.1-go1.26.2.linux-amd64/bin:$PATH "
                "GOTOOLCHAIN=local GOFLAGS=-mod=mod GOPROXY=off GOSUMDB=off go test -json -vet=off -count=1 -timeout 25m ./...")
SOURCE_COMMITS = []
NOTES = ("All checks: bin/check <id>. Each run regenerates coq/Gen from /repo, rebuilds the Coq project (full .vo), rebuilds garble "
         "from /repo's working tree in a scratch copy, runs the correspondence/e2e ties and rewrites evidence/<id>.json. "
         "Known findings: KNOWN_FINDINGS.txt.")
NOT_APPLICABLE = {}
CLAIMED = {
    "C16": {
        "text": "Theorems (for all salts, seeds, names): name shape 6..12 of [A-Za-z0-9_], no leading digit, export preserved, purity, "
                "and the exact prefix-collision condition; model tied to hash.go by a constants translator and by correspondence of "
                "hashWithCustomSalt (oracle) and `garble map` (black box via stub go) with Names.name_of_sum/hash_custom evaluated in Coq.",
        "note": "Trusted: Coq kernel; python hashlib/unicodedata as independent SHA-256 / go/token oracles; injected oracle file; stub go. "
                "No axioms (Print Assumptions: closed under the global context).",
        "technique": "Coq proof over a hand model of hash.go + in-Coq (vm_compute) correspondence with the implementation + constants translator",
    },
}
