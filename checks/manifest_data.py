BASELINE_OFF = ("cd /repo && PATH=/root/go/pkg/mod/golang.org/toolchain@v0.0.1-go1.26.2.linux-amd64/bin:$PATH "
                "GOTOOLCHAIN=local GOFLAGS=-mod=mod GOPROXY=off GOSUMDB=off go test -json -vet=off -count=1 -timeout 25m ./...")
SOURCE_COMMITS = []  # no hook commits in /repo: oracle files are injected into scratch copies
FIX_COMMITS = ["762de83", "76f4952", "32f4a4f", "map-embedded-field"]
NOTES = ("All checks: bin/check <id>. Each run regenerates coq/Gen from /repo, rebuilds the Coq project (full .vo), rebuilds garble "
         "from /repo's working tree in a scratch copy, runs the correspondence/e2e ties and rewrites evidence/<id>.json. "
         "Known findings: KNOWN_FINDINGS.txt.")
NOT_APPLICABLE = {}
CLAIMED = {
    "C11": {
        "text": "Theorems: each pass of internal/ctrlflow/transform.go - trash blocks, block splitting, junk jumps, flattening and its final shuffle - modelled as a "
                "transformation of a control-flow graph (Model/Passes.v), and every sequence of these passes, preserves and reflects every run of the function: for every "
                "graph, every interpretation of the function's own instructions and branch conditions, and every choice the pass makes (distinct non-zero dispatcher "
                "keys, a false trash guard, a fresh phi variable), a fresh call returns or panics through the same instruction with the same program state, or diverges, "
                "in the transformed function exactly when it does in the original (one general block-by-block simulation lemma instantiated per pass; composition by "
                "induction over the pass list). The hypotheses are shown necessary (a zero key and a true trash guard are refuted), and the two hardenings of the dispatcher keys are shown to keep them (xor: stored value = compared value, effective keys distinct and non-zero; delegate_table: stored value = key). Also: dispatcher lookup, sequential "
                "phi lowering equals the parallel semantics when independent and is refuted for a swap (known finding F6), admissible trash guards are false. Tied to "
                "the code on every run: the injected oracle builds SSA as garble does and runs the real passes stage by stage on a catalogue and on generated "
                "structured functions; each dumped graph is read as ssa2ast reads it, the pass's parameters are read off its output and Coq evaluates "
                "passes_okb && cfg_eqb (apply_passes ps g) real (theorem C11_passes_checked_instance then gives equivalence for that instance); on a mismatch both graphs "
                "are executed inside Coq under trace interpretations to exhibit a differing execution. Plus a differential catalogue of 16 //garble:controlflow "
                "functions under several parameter sets and seeds against the regular build. Partial: ssa2ast's instruction templates and its reading of a block graph, "
                "and the Go code the hardenings emit, are exercised, not proved.",
        "note": "Trusted: Coq kernel; the oracle dump and its reading in checks/cf_graph.py; the differential catalogue samples functions, parameters and seeds. No axioms.",
        "technique": "Coq proof (simulation) that every control-flow pass and every pass sequence preserves and reflects runs + stage-by-stage graph correspondence with the real passes evaluated in Coq + differential execution",
    },
    "C03": {
        "text": "Theorems: emission in sorted key order is independent of the map iteration order (for every permutation); the obfuscator's PRNG seed is a function of "
                "the first eight bytes of the seed/action id; and an obligation over the site inventory regenerated from the type-checked garble packages on every "
                "run (every map range, package-level math/rand call, clock, crypto/rand and process read): each site is of a class that is deterministic by "
                "construction, hand-reviewed, or one of the listed known order-sensitive sites (the full 'no sensitive site' statement is kept as refuted). Tied by "
                "double cold builds from different source directories/TMPDIRs/caches, a warm rebuild with other parallelism, and a mixed cache state. Partial: the "
                "Go toolchain's determinism is assumed; the classifier and the review list are trusted. Added: a pair of cold builds with a relative -debugdir from two source directories must equal each other and the build without -debugdir.",
        "note": "Trusted: Coq kernel; translate/sites (x/tools/go/packages); the reviewed-site list; real double builds. No axioms.",
        "technique": "Coq proof of order-independence of sorted emission + regenerated site-inventory obligation + double/mixed-cache build comparison",
    },
    "C10": {
        "text": "Obligations proved over the stripped runtime regenerated on every run (garble's own stripRuntime applied to the toolchain's runtime, callees "
                "resolved by go/types): no print/println builtin call is left outside print.go; the three required strips exist and call nothing; a checked "
                "closure theorem shows the generated set contains every function that can reach a raw stderr writer, and the only calls from outside the printing "
                "files into that set are the hexdump marker callbacks. Tied by a 21-kind crash catalogue x GOTRACEBACK run against `garble -tiny` and the regular "
                "build (stderr exactly the program's own lines, equal exit status and stdout, Caller reports no file and line 1). Partial: calls through function "
                "values, interfaces and assembly are not in the graph.",
        "note": "Trusted: Coq kernel (vm_compute over the generated graph); the graph generator (oracle + go/types); the crash catalogue samples behaviours. No axioms.",
        "technique": "Coq-checked closure and frontier obligations over a regenerated call graph + crash catalogue differential",
    },
    "C17": {
        "text": "Theorems over a transition system (shared disk, exclusive lock, any number of processes, kills at every step): mutual exclusion of check/build/"
                "stamp/use, the invariant 'stamp present implies linker complete whenever the lock is free', and 'whoever runs the cached linker holds the lock "
                "and sees a complete file' in every reachable state. Tied by a translator that regenerates the call order of PatchLinker and of the link step "
                "(lock, check, build, stamp; defer unlock before Run) and by concurrent real builds (same project twice, another flag, another project, "
                "different -p) on empty shared caches compared with solo builds. Partial: flock/MkdirTemp semantics and cmd/go's locking are assumed. Added: builds arriving after the linker was stamped while queued builds are still running, and a linker-less wave (packages cached, tool/ removed, five builds at once plus arrivals).",
        "note": "Trusted: Coq kernel; translator; OS file locks; real concurrent builds sample the schedules. No axioms.",
        "technique": "Coq invariant proof over all interleavings of a protocol model + regenerated protocol-order obligation + concurrent build runs",
    },
    "C18": {
        "text": "Theorems: the linker invariant is preserved by a kill at every program point of every process, and after any such execution a fresh run reaches "
                "the point of use with a complete, stamped linker; an entry interrupted mid-write reads as a miss or as the full bytes (C07); the stamp is "
                "written after the build in the source now; the hand-deleted-linker-plus-kill double fault is recorded as a refuted statement outside the "
                "quantifier. Tied by the protocol-order translator and by SIGKILL of the whole process group at points spread over a cold build followed by a "
                "rerun compared with the uninterrupted build. Added: an executable crash_search over the regenerated call order of PatchLinker (no bad kill point for the current order, one found for stamp-first: theorems C18_crash_search_clean/_finds_stamp_first) and, when the order obligation breaks and in the thorough tier, the history it names on the implementation (another version's linker planted, kill during the rebuild, rerun).",
        "note": "Trusted: Coq kernel; translator; the OS keeps a prefix of an interrupted write and drops locks of dead processes. No axioms.",
        "technique": "Coq invariant proof with a crash step at every program point + kill -9 sampling on real builds",
    },
    "C06": {
        "text": "Theorems: for every history of builds over a shared cache each output equals the cold build's, given that equal keys imply equal cold outputs; a "
                "no-op rebuild recompiles nothing; garble's key input is injective in action id, binary id, GOGARBLE and flags (C12); every build-affecting flag "
                "registered in main.go is written by appendFlags for build hashes (obligation over the regenerated source facts); the compile key is refuted "
                "to be sound under -literals with -ldflags=-X (known finding F7) and proved sound without -literals. Tied by the translator, by evaluating "
                "the model's add_garble_to_hash (with the development's own SHA-256) inside Coq against the implementation's addGarbleToHash on random "
                "configurations (seeds of 0, 8 and 9..24 bytes), by a probe that configurations differing in exactly one input get different build hashes, and "
                "by a history runner: each step built on shared caches and from fresh caches, compared bit for bit. Partial: cmd/go's own keying is assumed.",
        "note": "Trusted: Coq kernel; translator; cmd/go's action keys; real builds. No axioms.",
        "technique": "Coq proof of memoisation soundness + regenerated key-coverage obligation + build-hash correspondence evaluated in Coq + build-history differential runs",
    },
    "C07": {
        "text": "Theorems: after any sequence of deletions, emptyings and truncations of an entry's index and data file the reader answers miss or the complete "
                "original bytes; for every import graph, package and cache state whose present entries are correct, the reflection information garble loads "
                "equals what an empty-cache build computes, and the state stays correct (so every subset of missing entries is covered). Tied by driving the "
                "real go-internal cache package through generated fault sequences against get_file in Coq, and by fault enumeration on real builds (asm with "
                "go_asm.h names, linkname): files of GARBLE_CACHE and the patched linker deleted/emptied/truncated, rebuild compared with the cold reference. Added: corpus/mod2 has a package that reaches reflection only through encoding/json; the history 'lose GARBLE_CACHE/build, edit main.go, build' is compared with a cold build of the edited source.",
        "note": "Trusted: Coq kernel; fixed-width index record and strict-prefix truncation (validated against the real package); cmd/go's own cache. No axioms.",
        "technique": "Coq proof (invariant over fault sequences; induction over DAG rank) + correspondence with the real cache package + on-disk fault enumeration",
    },
    "C19": {
        "text": "Theorems: the -debugdir target is refused exactly when it is a non-empty directory without the sentinel or not a directory, and emptied exactly "
                "when it carries the sentinel; the deferred clean-up removes the directory this run created and nothing else, for every outcome and inherited "
                "environment (the pre-fix behaviour is kept as a refuted statement). Tied black-box: 9 pre-states of the target and 14 command/outcome pairs "
                "driven through the stub go with recursive hashes of target, source tree, TMPDIR and an inherited GARBLE_SHARED directory, plus a warm-cache "
                "real -debugdir build checked for completeness.",
        "note": "Trusted: Coq kernel; stub go; tree hashes; MkdirTemp freshness. No axioms.",
        "technique": "Coq proof of the decision/cleanup skeleton + black-box enumeration of target states and command outcomes",
    },
    "C08": {
        "text": "Theorems: (a) a replacer whose lookup takes the highest-priority matching key, priorities decreasing in argument order, equals the "
                "first-match-in-order specification for every table (overlapping, prefix-sharing, repeated keys) and restores a name standing at the current "
                "position; (b) the walk that records which names a reflected type keeps (recursivelyRecordUsedForReflect, Model/TypeClosure.v) records, for every "
                "table of declared types and every root type, exactly the declared types and struct fields reachable from the root through fields, pointers, "
                "slices, arrays, channels, map keys and elements, func parameters and results, aliases and declared types (completeness and soundness, with the "
                "recorded-already cut-off that ends the recursion); (c) the reflected-parameter propagation of recordReflection is refuted to be order independent "
                "(F10, model reproduces the defect with two visiting orders). Tied by compiling reflect_abi_code.go verbatim against strings.NewReplacer and the "
                "Coq specification; by running the real walk (injected oracle) on generated type declarations and evaluating the model's walk in Coq on the type "
                "graph the oracle dumps independently through go/types; and by a reflection program (two packages, all flow paths of the quantifier, map keys, "
                "func types, json, FieldByName, methods) compared with the regular build; limitations of the pinned tree are recorded as known findings, one "
                "(map keys and func signatures were not walked) was repaired. Partial: the trie data structure is checked, not proved.",
        "note": "Trusted: Coq kernel; strings.NewReplacer as reference; harness main file; real builds. No axioms.",
        "technique": "Coq proof of the replacer's priority scheme and of completeness/soundness of the reflection type walk + refutation of order independence + in-Coq correspondence with the verbatim replacer source and with the real walk on generated types + reflection differential",
    },
    "C04": {
        "text": "Theorems: text without any table key passes through byte for byte and is reported unmodified (any line endings); a key at the current position "
                "is replaced by the first matching pair, so 'F.go:1' wins over its prefix 'F.go'; identifier nodes and IDENT tokens align once the dot of dot "
                "imports is skipped (refuted otherwise: the fixed defect); a call head on one line reverses to the regular build's line, refuted for heads "
                "spanning lines (known finding F5). Tied by real builds of a call-shape program under several configurations: Caller/FuncForPC lines and a "
                "panic trace of the garbled binary, reversed, against the -trimpath build, plus black-box passthrough texts. Added: the trace program declares functions, a type and a method with identical names in three packages.",
        "note": "Trusted: Coq kernel; naive_replace as the spec of strings.NewReplacer (C08 proves the trie against it); gc's position assignment (e2e only). No axioms.",
        "technique": "Coq proof over a hand model of the replacement table and position arithmetic + differential reverse runs on real builds",
    },
    "C05": {
        "text": "Round-trip theorems, for all data, lengths and random choices: the external-key layer, key-combined byte literals, simple, swap (repeated and "
                "coinciding positions included), seed, shuffle (any permutation), split (any permutation of states, any case order), the string junk wrapper and the byte-array copy. The model decoders are tied "
                "to the code by reading the source text each obfuscator emits back into the model's artefact types and evaluating the decoder in Coq, while the "
                "Go compiler runs the same blocks; a generated program with every literal form and context is built with `garble -literals`. proxy.go is only exercised by the real build. Added: which variables -ldflags=-X sets under -literals (computeLinkerVariableStrings) is modelled (Model/LinkFlags.v linker_var_strings), proved to select exactly the package's own variables with the name cut at the last dot, and tied by running the real function through the oracle on generated packages and flag lists.",
        "note": "Trusted: Coq kernel (vm_compute for the 3x256x256 operator tables); lit_extract.py; the Go compiler for the compiled batch. No axioms.",
        "technique": "Coq round-trip proofs of the five codecs + in-Coq decoding of artefacts read from the emitted source + compiled batch + e2e literal program + in-Coq correspondence for the -X variable selection",
    },
    "C09": {
        "text": "Theorems: the selection window is exactly 8..2048 over the constants in the source now; an encoded byte equals the plaintext byte iff the key "
                "byte is neutral, so `simple` repeats plaintext at a position iff its key byte is zero. Tied by the constants translator and by scanning the "
                "binary of a generated program (unique markers in every literal form and syntactic position, exempt contexts included) built with "
                "`garble -literals -seed`, also for the seed value itself. Partial: absence from the binary is scanned on built instances, not proved.",
        "note": "Trusted: Coq kernel; translator; byte scan of built instances. No axioms.",
        "technique": "Coq proof of the window and key-neutrality facts over regenerated constants + marker scan of a real -literals binary",
    },
    "C02": {
        "text": "Theorems: every var/type/field (and every non-exempt func/method) of an obfuscated package is written under a name that is pure digest "
                "text; the linker command line is characterised exactly (-importcfg and -buildid replaced in place, -X duplicates, buildVersion override, "
                "-w -s last); garble's temp dir is first in -trimpath (both flag forms). Tied by `garble -debug` linker/compiler command lines against the "
                "Coq model, and by scanning binaries of a marker module (unique markers in every nameable position, TMPDIR inside/outside the source "
                "dir) for markers, Go version, build id, module info and symbol/DWARF sections. Partial: what the toolchain emits is scanned, not proved. Added: marker names also carry, as prefix and suffix, every identifier-like string literal of obfuscatedObjectName in /repo's current source.",
        "note": "Trusted: Coq kernel; -debug log lines; ELF parser; byte scan of the built instances. No axioms.",
        "technique": "Coq proof of the flag surgery and naming decision + in-Coq correspondence with observed link argv + marker scan of real binaries",
    },
    "C01": {
        "text": "Theorems: renaming preserves lexical resolution (and captures nothing) and interface satisfaction under the no-clash caveat; entry points, "
                "exported methods, tests, plain packages are fixed points of the decision; linkname rewriting yields exactly the declaring build's import "
                "path and name, and leaves unknown targets untouched. Tied by the decision correspondence on every identifier of a real -debugdir build, a "
                "transformLinkname oracle stream against the Coq model, and differential runs (stdout + exit status) of two corpus modules (asm, linkname, "
                "-X, generics, interfaces, embedding, labels, init order) under default/-tiny/-seed/-literals. Partial: compiler/linker semantics, go/printer "
                "and the assembly rewriter are exercised, not proved. Added: theorems and oracle correspondences for the assembly rewriter (replaceAsmNames vs Model/Asm.v) and for the linker's -X flags (transformLink vs Model/LinkFlags.v x_dups: duplicates carry the obfuscated import path and the Go side's hash, names cut at the last dot); the differential builds of corpus/mod1 also run under narrow GOGARBLE scopes (known finding F14: an anonymous struct type across the scope boundary), and `garble run`/`garble test` are compared with `go run`/`go test` (a defect of `garble run` with program arguments was repaired).",
        "note": "Trusted: Coq kernel; objmap; oracle; python hashlib; two fixed corpus modules (a program generator is future work). No axioms.",
        "technique": "Coq proof over the renaming model + in-Coq correspondence on a real build's garbled tree and on linkname rewriting + differential execution + in-Coq correspondence for the assembly rewriter and the -X flag surgery",
    },
    "C13": {
        "text": "Theorems: the name of an object is one function of its descriptor and its declaring package's salt (no 'who asks' argument), renaming "
                "preserves lexical resolution and interface satisfaction under the no-clash condition, a map entry equals the declaration name, reverse "
                "inverts a functional table. Tied on real builds: every identifier of a 7-package corpus in the -debugdir tree (declaration and all uses, "
                "cross-package) against Rename.decide+Names evaluated in Coq, `garble map` entries against declaration spellings, completeness of the "
                "listing for package-level objects/fields/methods, and `garble reverse` on every listed name. Added: both tiers also run with a 15-byte -seed (map/reverse compute names in the top-level process, the build in toolexec children).",
        "note": "Trusted: Coq kernel; objmap pairing tool (go/types, objectpath); python hashlib; the corpus is one module (thorough: 3 configurations). No axioms.",
        "technique": "Coq proof over the naming-decision model + in-Coq correspondence with the -debugdir tree of a real build + map/reverse triple comparison",
    },
    "C15": {
        "text": "Theorems (for every field-type universe and type identity): structs identical ignoring tags have the same shape hash and the same "
                "obfuscated field names under every configuration; tags, declaring package and type-argument substitution never change the hash. "
                "Tied by compiling /repo's bundled hasher unmodified against the model on generated multi-package struct sets (with go/types' own "
                "IdenticalIgnoreTags as the spec), by black-box field names through `garble map`, and by a real conversion program.",
        "note": "Trusted: Coq kernel; go/types.IdenticalIgnoreTags; harness main file; stub go; one real build. No axioms.",
        "technique": "Coq proof over hand model of the struct hash + in-Coq correspondence with the unmodified bundled_typeutil.go + black-box garble map + e2e conversions",
    },
    "C12": {
        "text": "Theorems: seeded names/field names are functions of (seed, path/shape, name) only; the seeded SHA input is injective in (path, seed, "
                "name); the unseeded salt input is injective in (Go action id, garble binary id, GOGARBLE, flag combination) under the no-space "
                "condition, with the ambiguous-encoding counterexample kept as a refuted statement. Tied by black-box `garble map` through the stub go "
                "over single-difference configuration pairs (model evaluated in Coq on every observed name) and by real `garble map` runs across an "
                "edit, a build tag and a platform change.",
        "note": "Trusted: Coq kernel; python hashlib for digests; stub go; cmd/go's action-ID contract. No axioms.",
        "technique": "Coq proof over the hand model of hash.go + in-Coq correspondence with black-box garble map on single-difference configuration pairs",
    },
    "C14": {
        "text": "Theorems: the ToObfuscate decision never selects runtime deps (table proved to cover `go list -deps runtime` of the toolchain in use), "
                "otherwise equals the GOGARBLE match; the matcher equals a relational glob spec, `*` matches everything, a plain path selects exactly "
                "its subtree; unselected packages keep name/import path; the matches-nothing error is characterised. Tied by translator (std tables) "
                "and black-box `garble map` over generated package lists x pattern lists (stub go), plus a real mixed-module build scanned for markers. Added: the mixed real module embeds types across the GOGARBLE boundary (direct, pointer, generic instantiation, alias, both directions).",
        "note": "Trusted: Coq kernel; glob model = path.Match on the class/escape-free fragment; stub go; marker scan of one real build. No axioms.",
        "technique": "Coq proof over hand model + regenerated std tables; in-Coq correspondence with black-box garble map; e2e mixed build",
    },
    "C20": {
        "text": "Theorems over tables regenerated from main.go and from the go command in use: garble's flag/package split equals the go "
                "command's (package flag's parseOne) for every accepted argv of any length and spelling; the split is a partition so the go "
                "command receives the user's argv unchanged; forwarded flags are exactly the build flags with values; garble flags in flag "
                "position are rejected and no accepted command line is; reverse/map report non-forwarded flags. F9 (go test flags after "
                "packages) is kept as a refuted statement + known finding. Tied by oracle and stub-go black-box correspondence.",
        "note": "Trusted: Coq kernel; go_parse as transcription of package flag's rule; `go help` output + arity probing of the real go; "
                "injected oracle; stub go. No axioms.",
        "technique": "Coq proof over regenerated flag tables (translator) + in-Coq correspondence with splitFlagsFromArgs/filterForwardBuildFlags and stub-go argv capture",
    },
    "C16": {
        "text": "Theorems (for all salts, seeds, names): name shape 6..12 of [A-Za-z0-9_], no leading digit, export preserved, purity, "
                "and the exact prefix-collision condition; model tied to hash.go by a constants translator and by correspondence of "
                "hashWithCustomSalt (oracle) and `garble map` (black box via stub go) with Names.name_of_sum/hash_custom evaluated in Coq.",
        "note": "Trusted: Coq kernel; python hashlib/unicodedata as independent SHA-256 / go/token oracles; injected oracle file; stub go. "
                "No axioms (Print Assumptions: closed under the global context).",
        "technique": "Coq proof over a hand model of hash.go + in-Coq (vm_compute) correspondence with the implementation + constants translator",
    },
}
