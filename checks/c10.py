"""C10 — -tiny silences every crash but keeps crash semantics."""
import os, subprocess
import vlib, e2e

THEOREMS = ["C10_no_builtin_print_left", "C10_required_strips_empty", "C10_reaching_is_complete", "C10_frontier_only_marker_callbacks"]

PROG = '''package main

import (
	"errors"
	"fmt"
	"os"
	"runtime"
	"sync"
	"time"
)

type stringerVal struct{ n int }

func (s stringerVal) String() string { return fmt.Sprint("stringer-", s.n) }

type customErr struct{ code int }

func (c customErr) Error() string { return fmt.Sprint("custom-error-", c.code) }

var zero = 0
var nilMap map[string]int
var nilPtr *stringerVal
var anyVal any = "a string"
var arr = []int{1, 2, 3}

func main() {
	mode := os.Args[1]
	fmt.Println("stdout-before", mode)
	os.Stderr.WriteString("own-stderr-line\\n")
	println("own-println", 42)
	print("own-print\\n")
	switch mode {
	case "panic-string":
		panic("a string panic")
	case "panic-error":
		panic(errors.New("an error panic"))
	case "panic-stringer":
		panic(stringerVal{7})
	case "panic-custom":
		panic(customErr{9})
	case "nil-deref":
		fmt.Println(nilPtr.n)
	case "index":
		fmt.Println(arr[zero+5])
	case "slice-bounds":
		fmt.Println(arr[zero+2 : zero+1])
	case "div-zero":
		fmt.Println(10 / zero)
	case "type-assert":
		fmt.Println(anyVal.(int))
	case "nil-map":
		nilMap["k"] = 1
	case "close-closed":
		c := make(chan int)
		close(c)
		close(c)
	case "send-closed":
		c := make(chan int, 1)
		close(c)
		c <- 1
	case "deadlock":
		var mu sync.Mutex
		mu.Lock()
		mu.Lock()
	case "repanic":
		defer func() { panic("second panic") }()
		panic("first panic")
	case "goroutine-panic":
		go func() { panic("panic in goroutine") }()
		time.Sleep(2 * time.Second)
	case "goexit-main":
		go func() { time.Sleep(50 * time.Millisecond); os.Exit(5) }()
		runtime.Goexit()
	case "goexit-deadlock":
		runtime.Goexit()
	case "os-exit":
		os.Exit(3)
	case "recover":
		func() {
			defer func() { fmt.Println("recovered:", recover()) }()
			panic(customErr{11})
		}()
		func() {
			defer func() { r := recover(); fmt.Println("recovered runtime error:", r != nil) }()
			fmt.Println(arr[zero+9])
		}()
	case "caller":
		_, file, line, ok := runtime.Caller(0)
		fmt.Printf("caller file=%q line=%d ok=%v\\n", file, line, ok)
	case "fatal-concurrent-map":
		m := map[int]int{}
		for i := 0; i < 4; i++ {
			go func() {
				for {
					m[1]++
				}
			}()
		}
		time.Sleep(3 * time.Second)
	}
	fmt.Println("stdout-after", mode)
}
'''
MODES = ["panic-string", "panic-error", "panic-stringer", "panic-custom", "nil-deref", "index", "slice-bounds", "div-zero", "type-assert", "nil-map",
         "close-closed", "send-closed", "deadlock", "repanic", "goroutine-panic", "goexit-main", "goexit-deadlock", "os-exit", "recover", "caller",
         "fatal-concurrent-map"]
OWN_STDERR = b"own-stderr-line\nown-println 42\nown-print\n"


def run(res, tier, seed, replay):
    ok, msg = vlib.run_translators()
    proofs_ok = ok and vlib.check_proofs(res, "C10", "Properties/C10.v", THEOREMS)
    res.cov["trusted_base"] += vlib.TRUSTED_COMMON + [
        "lib/vlib.py:gen_runtime_graph: garble's own stripRuntime (injected oracle) applied to GOROOT/src/runtime of the toolchain in use, callees resolved with go/types "
        "(calls through function values, interfaces and assembly are not in the graph)",
        "crash catalogue run against `garble -tiny` and regular builds: stderr and exit status"]
    res.assumptions = ["the compiler calls print.go's functions for the program's own print/println"]
    if not ok:
        res.violation("translator", "runtime graph generation failed: " + msg[:500], {"msg": msg}, found_input=False)
        return
    try:
        garble, _ = vlib.build_garble()
    except vlib.BuildError as e:
        res.violation("garble-build", "garble no longer builds: %s" % str(e)[-800:], {"error": str(e)}, found_input=False)
        return
    proj = e2e.Project("c10", {"main.go": PROG}, module="example.com/crash")
    caches = e2e.Caches("c10")
    pb, gb = os.path.join(proj.dir, "plain.bin"), os.path.join(proj.dir, "tiny.bin")
    rp = e2e.plain_build(proj, pb, caches=caches)
    if rp.returncode != 0:
        raise RuntimeError("plain build failed: " + rp.stderr.decode()[-500:])
    rg = e2e.garble_build(garble, proj, gb, garble_flags=["-tiny"], caches=caches, extra_env={"GOGARBLE": "example.com/crash"}, timeout=1500)
    caches.remove()
    if rg.returncode != 0:
        res.violation("tiny-build", "garble -tiny build of the crash catalogue fails: %s" % rg.stderr.decode()[-500:], {"program": PROG})
        return
    tb_settings = [None] if tier == "quick" else [None, "none", "single", "all", "system"]
    runs = 0
    for mode in MODES:
        settings = tb_settings if mode not in ("deadlock",) else tb_settings
        if tier == "quick" and mode in ("panic-string", "nil-deref", "goroutine-panic", "fatal-concurrent-map"):
            settings = [None, "all", "system"]
        for tb in settings:
            env = {"GOTRACEBACK": tb} if tb else {}
            if tb in ("crash",):
                continue
            p, g = e2e.run_bin(pb, [mode], env=env, timeout=30), e2e.run_bin(gb, [mode], env=env, timeout=30)
            runs += 1
            ctx = {"program": PROG, "mode": mode, "GOTRACEBACK": tb, "flags": ["-tiny"]}
            if mode == "fatal-concurrent-map" and p[0] == 0:
                continue   # the race did not trigger the fatal error in the regular build; nothing to compare
            if p[0] != g[0]:
                res.violation("exit:%s" % mode, "%s (GOTRACEBACK=%s): regular build exits %d, -tiny build exits %d" % (mode, tb, p[0], g[0]), ctx)
            if g[2] != OWN_STDERR:
                res.violation("stderr:%s" % mode, "%s (GOTRACEBACK=%s): the -tiny binary writes %r to stderr beyond the program's own output"
                              % (mode, tb, g[2][len(OWN_STDERR):][:200] if g[2].startswith(OWN_STDERR) else g[2][:200]), ctx)
            if mode == "caller":
                if b'file="" line=1' not in g[1] and b"line=1 " not in g[1]:
                    res.violation("caller-position", "under -tiny runtime.Caller reports %r" % g[1].split(b"\n")[1][:100], ctx)
            elif p[1] != g[1]:
                res.violation("stdout:%s" % mode, "%s: stdout differs: regular %r, -tiny %r" % (mode, p[1][-120:], g[1][-120:]), ctx)
    res.cov["evaluations"] = runs
    res.cov["distinct_nontrivial"] = len(MODES)
    res.cov["rule"] = ("crash catalogue (%d kinds: panics with string/error/Stringer/custom error, nil dereference, index and slice bounds, division by zero, failed "
                       "assertion, nil-map write, closed-channel operations, deadlock, re-panic in defer, goroutine panic, Goexit of main, os.Exit, recover, Caller, "
                       "concurrent map fatal error) x GOTRACEBACK settings: stderr of the -tiny binary must be exactly the program's own three lines, exit status and "
                       "stdout equal to the regular build's" % len(MODES))
    res.add_sample({"mode": "nil-deref", "GOTRACEBACK": "system", "expected_stderr": OWN_STDERR.decode()})
    if not proofs_ok and not res.violations:
        res.violation("tie-broken", "obligations of Properties/C10.v over the regenerated runtime graph no longer check (%s)" % getattr(res, "broken", "see output"),
                      {"theorems": THEOREMS, "coq_output": getattr(res, "proof_output", "")[-2000:]}, found_input=False)
