"""Shared by C12/C13/C16: independent (Python) computation of the pieces the Coq model is compared
on, generators for salts/seeds/names, the oracle and stub-map drivers."""
import base64, hashlib, json, os, subprocess, unicodedata
import vlib

KEYWORDS = {"break", "case", "chan", "const", "continue", "default", "defer", "else", "fallthrough", "for", "func",
            "go", "goto", "if", "import", "interface", "map", "package", "range", "return", "select", "struct",
            "switch", "type", "var"}


def is_letter(ch):
    return ch == "_" or unicodedata.category(ch).startswith("L")


def is_identifier(name):
    """go/token.IsIdentifier"""
    if not name or name in KEYWORDS:
        return False
    for i, ch in enumerate(name):
        if not is_letter(ch) and (i == 0 or unicodedata.category(ch) != "Nd"):
            return False
    return True


def is_exported(name):
    """go/token.IsExported: first rune is upper case (Lu)"""
    return bool(name) and unicodedata.category(name[0]) == "Lu"


ASCII_L = "abcdefghijklmnopqrstuvwxyz"
ASCII_U = ASCII_L.upper()
UNI_U = "ÉΩДÑ"
UNI_L = "éωдñ世界ǅ"   # lower-case, caseless and title-case letters: all unexported


def gen_ident(r, exported=None, unicode_ok=True):
    if exported is None:
        exported = r.random() < 0.5
    pool_first = (ASCII_U + (UNI_U if unicode_ok else "")) if exported else (ASCII_L + "_" + (UNI_L if unicode_ok else ""))
    first = r.choice(pool_first)
    rest_pool = ASCII_L + ASCII_U + "0123456789_" + (UNI_L + UNI_U if unicode_ok else "")
    n = r.choice([0, 1, 2, 3, 5, 8, 13, 30])
    name = first + "".join(r.choice(rest_pool) for _ in range(n))
    if name in KEYWORDS or name == "_":
        name += "x"
    return name


def gen_nonident(r):
    kinds = ["path", "pos", "dash", "digit", "space"]
    k = r.choice(kinds)
    if k == "path":
        return "/".join(gen_ident(r, False, False) for _ in range(r.randint(1, 4))) + r.choice(["", ".v2", "/x.y"])
    if k == "pos":
        return gen_ident(r, False, False) + ".go:" + str(r.randint(0, 99999))
    if k == "dash":
        return gen_ident(r, None, False) + "-" + gen_ident(r, None, False)
    if k == "digit":
        return str(r.randint(0, 9)) + gen_ident(r, None, False)
    return gen_ident(r, None, False) + " " + gen_ident(r, None, False)


def gen_salt(r):
    n = r.choice([1, 2, 15, 32, 33, 55, 56, 64, 100])
    return bytes(r.randrange(256) for _ in range(n))


def gen_seed(r):
    if r.random() < 0.4:
        return b""
    n = r.choice([8, 8, 9, 16, 40])
    return bytes(r.randrange(256) for _ in range(n))


def std_b64(b):
    return base64.b64encode(b).decode().rstrip("=")


class Oracle:
    """One long-lived oracle process (requests are answered in order, so the Go globals
    hasher/sumBuffer/b64NameBuffer are shared across interleaved calls as in a real run)."""

    def __init__(self, garble):
        self.garble = garble

    def batch(self, reqs):
        env = vlib.base_env({"GARBLE_VERIF_ORACLE": "1"})
        data = "\n".join(json.dumps(x) for x in reqs).encode() + b"\n"
        r = subprocess.run([self.garble], input=data, env=env, stdout=subprocess.PIPE, stderr=subprocess.PIPE)
        if r.returncode != 0:
            raise RuntimeError("oracle failed: " + r.stderr.decode(errors="replace")[-2000:])
        outs = [json.loads(l) for l in r.stdout.decode().splitlines() if l.strip()]
        if len(outs) != len(reqs):
            raise RuntimeError("oracle answered %d of %d requests; stderr: %s" % (len(outs), len(reqs), r.stderr.decode(errors="replace")[-1000:]))
        return outs


def b64url(b):
    return base64.urlsafe_b64encode(b).decode().rstrip("=")


def stub_pkg_record(dirpath, import_path, name, files, action_id, content_id=b"\x01" * 15, extra=None):
    rec = {"Name": name, "ImportPath": import_path, "Dir": dirpath, "CompiledGoFiles": files,
           "BuildID": b64url(action_id) + "/" + b64url(content_id), "Export": "", "Imports": []}
    if extra:
        rec.update(extra)
    return rec


def run_map(garble, stub, records, garble_flags=(), go_flags=(), pkgs=("./...",), gogarble=None, binary_id=b"\x07" * 15,
            extra_env=None, command="map"):
    conf = {"list": records, "buildid": "x/y/z/" + b64url(binary_id)}
    extra = dict(extra_env or {})
    if gogarble is not None:
        extra["GOGARBLE"] = gogarble
    env, lpath = stub.env(conf, extra)
    r = subprocess.run([garble] + list(garble_flags) + [command] + list(go_flags) + list(pkgs), env=env, stdin=subprocess.DEVNULL,
                       stdout=subprocess.PIPE, stderr=subprocess.PIPE, cwd=stub.dir)
    return r, vlib.read_log(lpath)
