"""Decision correspondence shared by C01/C13: every identifier of the corpus module, as garble
wrote it to -debugdir, against Rename.decide + Names (evaluated in Coq)."""
import base64, hashlib, json, os
import vlib
from names_common import is_exported

KINDS = {"var": "KVar", "field": "KField", "type": "KType", "func": "KFunc", "method": "KMethod", "const": "KConst",
         "pkgname": "KPkgName", "label": "KLabel", "other": "KOther"}


def b64dec(s):
    return base64.urlsafe_b64decode(s + "=" * (-len(s) % 4))


def base32(v):
    digits = "0123456789abcdefghijklmnopqrstuv"
    if v == 0:
        return "0"
    s = ""
    while v:
        s = digits[v % 32] + s
        v //= 32
    return s


def struct_hash(fields):
    h = 9059
    for idx, (nm, emb) in enumerate(fields):
        if emb:
            h = (h + 8861) % (1 << 32)
        hs = 0
        for byte in nm.encode():
            hs = ((hs ^ byte) * 16777619) % (1 << 32)
        h = (h + (idx + 1) * hs) % (1 << 32)
    return h


def flags_suffix(cfg):
    s = b" GOGARBLE=" + cfg["gogarble"].encode()
    if cfg.get("literals"):
        s += b" -literals"
    if cfg.get("tiny"):
        s += b" -tiny"
    if cfg.get("seed"):
        s += b" -seed=" + base64.b64encode(cfg["seed"]).rstrip(b"=")
    if cfg.get("ctrlflow"):
        s += b" -ctrlflow"
    return s


def expected_digests(cres, cfg, pkg, name, struct_fields):
    """(digest for package-salted hashing, digest for struct-salted hashing) as python computes them"""
    bid = b64dec(cres["garble_buildid"].split("/")[-1])
    seed = cfg.get("seed", b"")
    listed = cres["listed"].get(pkg)
    dg_pkg = b"\0" * 32
    if listed and listed["BuildID"]:
        if seed:
            salt = pkg.encode() + b"|"
        else:
            aid = b64dec(listed["BuildID"].split("/")[0])
            salt = hashlib.sha256(aid + bid + flags_suffix(cfg)).digest()
        dg_pkg = hashlib.sha256(salt + seed + name.encode()).digest()
    dg_st = b"\0" * 32
    if struct_fields:
        s32 = base32(struct_hash(struct_fields)).encode()
        salt = s32 if seed else hashlib.sha256(s32 + bid + flags_suffix(cfg)).digest()
        dg_st = hashlib.sha256(salt + seed + name.encode()).digest()
    return dg_pkg, dg_st


def decision_cases(cres, cfg, obf_pkgs):
    """Returns (coq literals, meta) for every module object of the corpus build."""
    lits, meta = [], []
    for o in cres["objmap"]["objects"]:
        pkg, name, kind = o["pkg"], o["name"], o["kind"]
        sf = [(a, b) for a, b in (o.get("struct_fields") or [])]
        if kind == "field" and o.get("embedded") and o.get("embedded_tname"):
            # garble names an embedded field after its type name object
            pkg, name, kind, sf = o["embedded_tpkg"] or pkg, o["embedded_tname"], "type", []
            if pkg not in cres["listed"]:
                continue
        dg_pkg, dg_st = expected_digests(cres, cfg, pkg, name, sf)
        d = ("{| o_universe := false; o_pkg := %s; o_name := %s; o_kind := %s; o_exported := %s; o_test_sig := %s |}"
             % (vlib.nlist(pkg.encode()), vlib.nlist(name.encode()), KINDS[kind], vlib.coq_bool(is_exported(name)), vlib.coq_bool(o.get("test_sig", False))))
        spell = "[" + ";".join(vlib.nlist(g.encode()) for g in o["garbled"]) + "]"
        lits.append("(%s, %s, %s, %s)" % (d, vlib.nlist(dg_pkg), vlib.nlist(dg_st), spell))
        meta.append(o)
    return lits, meta


HEADER = ("From Verif Require Import Base.Bytes Model.Flags Model.Names Model.Scope Model.Rename.\nFrom Verif Require Gen.StdTables.\nOpen Scope N_scope.\n")


def check_expr(obf_pkgs):
    pk = "[" + ";".join(vlib.nlist(p.encode()) for p in obf_pkgs) + "]"
    return ("(fun c => match c with (d, dgp, dgs, spell) => "
            "let want := match ident_decision Gen.StdTables.intrinsics (fun p => mem p %s) d with "
            "  | Keep => o_name d | HashPkg => name_of_sum dgp true (o_exported d) | HashStruct => name_of_sum dgs true (o_exported d) end in "
            "negb (match spell with [g] => beq g want | _ => false end) end)" % pk)
