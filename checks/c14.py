"""C14 — GOGARBLE selects exactly which packages are obfuscated."""
import concurrent.futures, json, os
import vlib, e2e
from names_common import stub_pkg_record, run_map

THEOREMS = ["C14_runtime_never", "C14_runtime_table_covers_toolchain", "C14_selects_exactly", "C14_glob_spec",
            "C14_default_matches_all", "C14_literal_pattern_selects_subtree", "C14_plain_untouched", "C14_nothing_matches_error"]

MOD_PKGS = ["example.com/m", "example.com/m/a", "example.com/m/a/b", "example.com/m/ab", "example.com/m/a/b/c", "example.com/mx/a",
            "other.org/x", "other.org/x/y", "rsc.io/q"]
STD_PKGS = ["fmt", "os", "runtime", "internal/abi", "runtime/cgo", "crypto/internal/fips140/sha256", "crypto/internal/fips140",
            "math/bits", "strings", "crypto/sha256", "unsafe"]


def gen_patterns(r):
    def one():
        k = r.random()
        base = r.choice(MOD_PKGS + STD_PKGS)
        if k < 0.3:
            return base
        if k < 0.45:
            parts = base.split("/")
            return "/".join(parts[:r.randint(1, len(parts))])
        if k < 0.7:
            parts = base.split("/")
            i = r.randrange(len(parts))
            parts[i] = r.choice(["*", parts[i][:1] + "*", "*" + parts[i][-1:], "?" * len(parts[i]), parts[i][:-1] + "?"])
            return "/".join(parts)
        if k < 0.8:
            return r.choice(["*", "*/*", "example.com", "example.com/*", "*.com/*", "std", "", "nomatch/zzz", "runtime", "run*", "m", "a"])
        return r.choice(["example.com/m/a", "example.com/m/ab", "example.com/m/a*", "other.org/x/?", "fmt", "crypto"])
    n = r.choice([1, 1, 1, 2, 2, 3])
    return ",".join(one() for _ in range(n))


def gen_pkgs(r, stub, k):
    recs, model = [], []
    chosen = r.sample(MOD_PKGS, r.randint(1, 5)) + r.sample(STD_PKGS, r.randint(0, 4))
    extra = []
    for ip in list(chosen):
        if ip in MOD_PKGS and r.random() < 0.3:   # test variants
            extra.append((ip + " [" + ip + ".test]", ip, "p"))
            extra.append((ip + "_test [" + ip + ".test]", ip, "p_test"))
            extra.append((ip + ".test", "", "main"))
    if r.random() < 0.1:
        extra.append(("command-line-arguments", "", "main"))
    if r.random() < 0.1:
        extra.append(("plugin/unnamed-abc", "", "main"))
    items = [(ip, "", "main" if r.random() < 0.1 else "p") for ip in chosen] + extra
    for i, (ip, ft, name) in enumerate(items):
        d = os.path.join(stub.dir, "c14", "k%d" % k, "p%d" % i)
        os.makedirs(d, exist_ok=True)
        nfiles = 0 if r.random() < 0.1 else 1
        with open(os.path.join(d, "a.go"), "w") as f:
            f.write("package %s\n\nfunc F%d() {}\n" % (name if name != "main" else "main", i) + ("func main() {}\n" if name == "main" else ""))
        rec = stub_pkg_record(d, ip, name, ["a.go"] if nfiles else [], bytes([i + 1]) * 15,
                              extra={"ForTest": ft, "Standard": ip in STD_PKGS})
        recs.append(rec)
        model.append((ip, ft, name, nfiles))
    return recs, model


def run(res, tier, seed, replay):
    r = vlib.rng(seed)
    ok, msg = vlib.run_translators()
    proofs_ok = ok and vlib.check_proofs(res, "C14", "Properties/C14.v", THEOREMS)
    res.cov["trusted_base"] += vlib.TRUSTED_COMMON + [
        "translator: runtimeAndDeps / runtimeAndLinknamed / compilerIntrinsics / obfuscatedImportPath's switch from the source via go/parser; "
        "`go list -deps runtime` of the toolchain in use",
        "Model/Scope.v glob = path.Match on patterns without '[' and '\\\\' (validated black-box through x/mod's real matcher inside garble)",
        "stub go (package records), real toolchain for the mixed-module build"]
    res.assumptions = ["patterns are over literal bytes, '*', '?' and ',' (no character classes or escapes)"]
    if not ok:
        res.violation("translator", "translator failed: " + msg[:500], {"msg": msg}, found_input=False)
        return
    try:
        garble, _ = vlib.build_garble()
    except vlib.BuildError as e:
        res.violation("garble-build", "garble no longer builds: %s" % str(e)[-800:], {"error": str(e)}, found_input=False)
        return
    stub = vlib.Stub()
    n = 150 if tier == "quick" else 2500
    cases = []
    corpus_pat = ["*", "example.com/m/a", "example.com/m/a*", "nomatch", "runtime", "example.com/m/a,other.org/*", "", ",,example.com", "*/m", "example.com/m/?"]
    for k in range(n):
        recs, model = gen_pkgs(r, stub, k)
        g = corpus_pat[k] if k < len(corpus_pat) else gen_patterns(r)
        cases.append((g, recs, model))

    def one(c):
        g, recs, model = c
        pr, _ = run_map(garble, stub, recs, [], gogarble=g if g != "" else None)
        return pr.returncode, pr.stdout.decode(errors="replace"), pr.stderr.decode(errors="replace")
    with concurrent.futures.ThreadPoolExecutor(8) as ex:
        outs = list(ex.map(one, cases))
    lits, meta = [], []
    hist = {"error": 0, "selected_some": 0, "selected_all": 0, "with_test_variants": 0, "with_std": 0, "multi_pattern": 0, "glob": 0}
    nontrivial = set()
    for (g, recs, model), (rc, out, err) in zip(cases, outs):
        g_eff = g if g != "" else "*"   # empty GOGARBLE means the default
        is_err = "does not match any packages" in err
        sel = None
        if rc == 0:
            try:
                sel = sorted(json.loads(out).keys())
            except Exception:
                sel = None
        if rc != 0 and not is_err:
            res.violation("map-failed", "garble map failed unexpectedly (GOGARBLE=%r): %s" % (g, err[-300:]), {"gogarble": g, "records": recs}, found_input=False)
            continue
        hist["error"] += is_err
        if sel:
            hist["selected_some"] += 1
            if len(sel) == len(model):
                hist["selected_all"] += 1
            elif len(sel) > 0:
                nontrivial.add((g, tuple(m[0] for m in model)))
        hist["with_test_variants"] += any(m[1] for m in model)
        hist["with_std"] += any(m[0] in STD_PKGS for m in model)
        hist["multi_pattern"] += "," in g
        hist["glob"] += ("*" in g or "?" in g)
        pk = "[" + ";".join("{| p_import_path := %s; p_for_test := %s; p_name := %s; p_nfiles := %d; p_action_id := [] |}" % (
            vlib.nlist(m[0].encode()), vlib.nlist(m[1].encode()), vlib.nlist(m[2].encode()), m[3]) for m in model) + "]"
        sl = "[" + ";".join(vlib.nlist(s.encode()) for s in (sel or [])) + "]"
        lits.append("(%s, %s, %s, %s)" % (vlib.nlist(g_eff.encode()), pk, sl, vlib.coq_bool(is_err)))
        meta.append((g, model, sel, is_err))
    header = ("From Verif Require Import Base.Bytes Model.Flags Model.Names Model.Scope.\nFrom Verif Require Gen.StdTables.\nOpen Scope N_scope.\n"
              "Definition eqsl (a b : list str) : bool := beq (concat (map (fun s => 0 :: s) a)) (concat (map (fun s => 0 :: s) b)) && Nat.eqb (length a) (length b).\n"
              "Fixpoint insert (x : str) (l : list str) : list str := match l with [] => [x] | y :: r => if beq x y then l else "
              "if (fix lt (a b : str) : bool := match a, b with [], [] => false | [], _ => true | _, [] => false | c :: a', d :: b' => if c <? d then true else if d <? c then false else lt a' b' end) x y then x :: l else y :: insert x r end.\n"
              "Definition sortl (l : list str) := fold_right insert [] l.\n")
    check = ("(fun c => match c with (g, pkgs, sel, iserr) => "
             "let want := sortl (map p_import_path (filter (to_obfuscate Gen.StdTables.runtime_and_deps g) pkgs)) in "
             "let err := matches_nothing_error Gen.StdTables.runtime_and_deps g pkgs in "
             "negb (Bool.eqb err iserr && (iserr || eqsl want (sortl sel))) end)")
    bad = vlib.coq_eval_cases("c14a", header, "str * list pkg * list str * bool", lits, check)
    for i in bad:
        g, model, sel, is_err = meta[i]
        res.violation("selection:%s" % g[:40], "GOGARBLE=%r over packages %r: garble obfuscates %r (error=%s); the specified selection differs"
                      % (g, [m[:3] for m in model], sel, is_err), {"gogarble": g, "packages": model, "selected": sel, "error": is_err})
    res.cov["evaluations"] = len(cases)
    res.cov["distinct_nontrivial"] = len(nontrivial)
    res.cov["rule"] = ("package lists (module packages incl. prefix siblings a/b vs a/bc, std incl. runtime deps/fips/cgo, test variants, "
                       "command-line-arguments, plugin/unnamed, empty packages) x GOGARBLE lists (exact, prefixes, '*'/'?' globs, comma lists, "
                       "empty elements, std patterns); non-trivial = a proper non-empty subset is selected")
    res.cov["histogram"] = hist
    for m in meta[10:14]:
        res.add_sample({"GOGARBLE": m[0], "packages": [x[0] for x in m[1]], "selected": m[2], "error": m[3]})

    # ---------------- real toolchain: a mixed module, imports in both directions
    files = {
        "main.go": 'package main\n\nimport (\n"fmt"\n"example.com/proj/obf"\n"example.com/proj/plain"\n)\n\nfunc main() { fmt.Println(obf.ObfCallsPlain(3), plain.PlainCallsObf(4), plain.EmbedSum(5), obf.ObfEmbedsPlain(6)) }\n',
        "obf/obf.go": 'package obf\n\nimport "example.com/proj/plain/leaf"\n\nvar ObfMarkerVariableQZX = "obf-literal-marker-QZX-0123456789"\n\ntype ObfStructMarkerQZX struct{ ObfFieldMarkerQZX int }\n\n//go:noinline\nfunc ObfCallsPlain(n int) int { s := ObfStructMarkerQZX{n}; return leaf.LeafFuncMarkerKJW(s.ObfFieldMarkerQZX) + len(ObfMarkerVariableQZX) }\n\n//go:noinline\nfunc ObfHelperMarkerQZX(n int) int { return n * 7 }\n\n'
                      '// embedded across the GOGARBLE boundary, in both directions\n'
                      'type Base struct{ BaseFieldQZX int }\n\nfunc (b Base) BaseMethodQZX() int { return b.BaseFieldQZX * 2 }\n\n'
                      'type GenBase[T any] struct{ GenFieldQZX T }\n\ntype BaseAlias = Base\n\n'
                      'type ObfWrap struct{ leaf.LeafBase }\n\n//go:noinline\nfunc ObfEmbedsPlain(n int) int { w := ObfWrap{LeafBase: leaf.LeafBase{LeafFieldKJW: n}}; return w.LeafFieldKJW + w.LeafBase.LeafMethodKJW() }\n',
        "plain/plain.go": 'package plain\n\nimport "example.com/proj/obf"\n\nvar PlainMarkerVariableKJW = "plain-literal-marker-KJW-0123456789"\n\n//go:noinline\nfunc PlainCallsObf(n int) int { return obf.ObfHelperMarkerQZX(n) + len(PlainMarkerVariableKJW) }\n\n'
                          'type Wrapper struct{ obf.Base }\n\ntype PtrWrapper struct{ *obf.Base }\n\ntype GenWrapper struct{ obf.GenBase[int] }\n\ntype AliasWrapper struct{ obf.BaseAlias }\n\n'
                          '//go:noinline\nfunc EmbedSum(n int) int {\n\tw := Wrapper{Base: obf.Base{BaseFieldQZX: n}}\n\tp := PtrWrapper{Base: &obf.Base{BaseFieldQZX: n + 1}}\n'
                          '\tg := GenWrapper{GenBase: obf.GenBase[int]{GenFieldQZX: n + 2}}\n\ta := AliasWrapper{BaseAlias: obf.Base{BaseFieldQZX: n + 3}}\n'
                          '\treturn w.BaseFieldQZX + w.Base.BaseMethodQZX() + p.BaseMethodQZX() + g.GenFieldQZX + a.BaseAlias.BaseFieldQZX + a.BaseMethodQZX()\n}\n',
        "plain/leaf/leaf.go": 'package leaf\n\n//go:noinline\nfunc LeafFuncMarkerKJW(n int) int { return n + 1 }\n\ntype LeafBase struct{ LeafFieldKJW int }\n\nfunc (l LeafBase) LeafMethodKJW() int { return l.LeafFieldKJW + 10 }\n',
    }
    proj = e2e.Project("c14", files)
    caches = e2e.Caches("c14")
    pb = os.path.join(proj.dir, "plain.bin")
    gb = os.path.join(proj.dir, "garbled.bin")
    rp = e2e.plain_build(proj, pb, caches=caches)
    rg = e2e.garble_build(garble, proj, gb, garble_flags=["-literals"], caches=caches, extra_env={"GOGARBLE": "example.com/proj/obf"})
    res.cov["e2e_builds"] = 2
    if rp.returncode != 0:
        raise RuntimeError("plain build failed: " + rp.stderr.decode()[-500:])
    if rg.returncode != 0:
        res.violation("e2e-mixed-build", "GOGARBLE=example.com/proj/obf garble -literals build of a mixed module fails: %s" % rg.stderr.decode()[-600:],
                      {"files": files, "gogarble": "example.com/proj/obf", "stderr": rg.stderr.decode()[-2000:]})
    else:
        o1, o2 = e2e.run_bin(pb), e2e.run_bin(gb)
        if o1[:2] != o2[:2]:
            res.violation("e2e-mixed-behaviour", "mixed build behaves differently: plain %r garbled %r" % (o1, o2), {"files": files})
        must_stay = ["PlainCallsObf", "LeafFuncMarkerKJW", "plain-literal-marker-KJW-0123456789", "example.com/proj/plain"]
        must_go = ["ObfHelperMarkerQZX", "ObfStructMarkerQZX", "ObfFieldMarkerQZX", "obf-literal-marker-QZX-0123456789", "example.com/proj/obf"]
        present = e2e.contains(gb, must_stay + must_go)
        for m in must_stay:
            if m not in present:
                res.violation("e2e-plain-touched:" + m, "package outside GOGARBLE lost %r from the binary" % m, {"files": files, "marker": m})
        for m in must_go:
            if m in present:
                res.violation("e2e-obf-leak:" + m, "package inside GOGARBLE leaks %r into the binary" % m, {"files": files, "marker": m})
    rn = e2e.garble_build(garble, proj, gb, caches=caches, extra_env={"GOGARBLE": "example.com/nomatch"})
    if rn.returncode == 0 or b"does not match any packages" not in rn.stderr:
        res.violation("e2e-nomatch", "GOGARBLE matching nothing is not rejected (exit %d): %s" % (rn.returncode, rn.stderr.decode()[-300:]), {"files": files})
    caches.remove()

    if not proofs_ok and not res.violations:
        res.violation("tie-broken", "proof obligations of Properties/C14.v no longer check (%s)" % getattr(res, "broken", "see output"),
                      {"theorems": THEOREMS, "coq_output": getattr(res, "proof_output", "")[-2000:]}, found_input=False)
