"""C09 — With -literals, literal contents do not appear in the binary."""
import base64, os
import vlib, e2e, lit_e2e

THEOREMS = ["C09_window_exact", "C09_window_boundaries", "C09_enc_byte_equals_plain_iff_neutral", "C09_simple_position_leaks_iff_zero_key"]


def run(res, tier, seed, replay):
    ok, msg = vlib.run_translators()
    proofs_ok = ok and vlib.check_proofs(res, "C09", "Properties/C09.v", THEOREMS)
    res.cov["trusted_base"] += vlib.TRUSTED_COMMON + [
        "translator: MinSize/MaxSize/MaxSizeExpensive and the junk/ext-key ranges evaluated from internal/literals/*.go constants",
        "byte scan of the produced binary for the planted markers (covers the instances built; a neutral key on a whole marker has probability <= 2^-64)"]
    res.assumptions = ["markers are unique 8+ byte ASCII strings placed at the start of each literal"]
    try:
        garble, _ = vlib.build_garble()
    except vlib.BuildError as e:
        res.violation("garble-build", "garble no longer builds: %s" % str(e)[-800:], {"error": str(e)}, found_input=False)
        return
    runs = [lit_e2e.literal_e2e(garble, seed=1)]
    if tier != "quick":
        runs.append(lit_e2e.literal_e2e(garble, seed=2, gogarble="*", use_seed=False))
    scanned = 0
    sel_n = 0
    hist = {}
    for le in runs:
        if le["garble_rc"] != 0:
            res.violation("e2e-build", "garble -literals build of the literal program fails: %s" % le["garble_err"][-600:], {"files": le["files"], "flags": le["flags"]})
            continue
        data = open(le["garbled"], "rb").read()
        pdata = open(le["plain"], "rb").read()
        for i, kind, c, sel in le["items"]:
            marker = ("MK%sqzx" % i).encode()
            k0 = kind.split(":")[0]
            hist[k0] = hist.get(k0, 0) + 1
            scanned += 1
            present = marker in data
            if sel is True:
                sel_n += 1
                if marker not in pdata and k0 not in ("array-length",):
                    # sanity of the scan itself: the regular build must contain it
                    res.cov.setdefault("markers_missing_in_plain", 0)
                    res.cov["markers_missing_in_plain"] += 1
                if present:
                    res.violation("leak:" + k0, "literal %s (%s) of an obfuscated package appears verbatim in the binary built with %s" % (i, kind, " ".join(le["flags"])),
                                  {"files": le["files"], "flags": le["flags"], "item": i, "kind": kind, "marker": marker.decode()})
        # lengths outside the window are left alone by design: they must still be there (the window is exact, not wider)
        for i, kind, c, sel in le["items"]:
            if sel is False and kind.split(":")[-1] in ("7", "2049") and ("MK%sqzx" % i).encode() not in data and ("MK%sqzx" % i).encode() in pdata:
                res.violation("window:" + kind, "literal %s (%s) lies outside the documented window but was obfuscated" % (i, kind), {"files": le["files"], "item": i, "kind": kind})
        if "-seed=" + lit_e2e.SEED_B64 in le["flags"]:
            raw = base64.b64decode(lit_e2e.SEED_B64 + "==")
            for needle in (lit_e2e.SEED_B64.encode(), raw, raw[:8]):
                scanned += 1
                if needle in data:
                    res.violation("seed-in-binary", "the -seed value appears in the binary (%r)" % needle, {"files": le["files"], "flags": le["flags"]})
    res.cov["evaluations"] = scanned
    res.cov["distinct_nontrivial"] = sel_n
    res.cov["histogram"] = hist
    res.cov["rule"] = ("generated program: string literals of lengths 7,8,9,...,2048,2049 in every syntactic position (argument, var initialiser, return, composite "
                       "literal element, struct field, map key, closure, generic function, init, folded concatenation, imported package variable), []byte / [N]byte / "
                       "&[]byte / &[N]byte literals, and the exempt contexts (const, nosplit, -X target, typed string); each carries a unique marker; the garbled "
                       "binary is scanned; non-trivial = markers that must vanish")
    res.add_sample({"marker": "MK001qzx", "position": runs[0]["items"][0][1], "must_vanish": runs[0]["items"][0][3]})
    if not proofs_ok and not res.violations:
        res.violation("tie-broken", "proof obligations of Properties/C09.v no longer check (%s)" % getattr(res, "broken", "see output"),
                      {"theorems": THEOREMS, "coq_output": getattr(res, "proof_output", "")[-2000:]}, found_input=False)
