"""The standard corpus build shared by C01/C02/C13/C16: the module corpus/mod1 built plainly and by
garble (from /repo's working tree) with -debugdir, plus `garble map` and the objmap pairing.
Results are cached under /verif/.cache/corpus/<sha256 of the garble binary + module + flags>/,
so consecutive checks on one tree pay for the (-a forcing) debugdir build once."""
import fcntl, hashlib, json, os, shutil, subprocess
import vlib, e2e

PKG_ORDER = [("example.com/corp/util", ["util.go"]), ("example.com/corp/lib", ["lib.go"]), ("example.com/corp/shapes", ["shapes.go"]),
             ("example.com/corp/dotted.name/pkg", ["pkg.go"]), ("example.com/corp/iface", ["iface.go"]), ("example.com/corp/gen", ["gen.go"]),
             ("example.com/corp", ["anonconv.go", "main.go"])]


def _tree_hash(d):
    h = hashlib.sha256()
    for root, dirs, files in sorted(os.walk(d)):
        dirs.sort()
        for f in sorted(files):
            p = os.path.join(root, f)
            h.update(os.path.relpath(p, d).encode())
            h.update(open(p, "rb").read())
    return h.hexdigest()


def corpus_build(garble, garble_flags=(), env_extra=None, name="mod1"):
    src = os.path.join(vlib.VERIF, "corpus", name)
    key = hashlib.sha256((e2e.sha256_file(garble) + _tree_hash(src) + _tree_hash(os.path.join(vlib.VERIF, "harness", "objmap")) + "v3" + repr(PKG_ORDER) + repr(sorted(garble_flags)) + repr(sorted((env_extra or {}).items()))).encode()).hexdigest()[:24]
    root = os.path.join(vlib.CACHE, "corpus")
    os.makedirs(root, exist_ok=True)
    out = os.path.join(root, key)
    lock = open(os.path.join(root, key + ".lock"), "w")
    fcntl.flock(lock, fcntl.LOCK_EX)
    try:
        if os.path.exists(os.path.join(out, "done.json")):
            return json.load(open(os.path.join(out, "done.json")))
        # keep the cache small: drop other entries
        vlib.evict_cache_entries(root, key)
        shutil.rmtree(out, ignore_errors=True)
        os.makedirs(out)
        proj_dir = os.path.join(out, "src")
        shutil.copytree(src, proj_dir)
        proj = e2e.Project.__new__(e2e.Project)
        proj.dir, proj.module = proj_dir, "example.com/corp"
        caches = e2e.Caches.__new__(e2e.Caches)
        caches.gocache = os.path.join(out, "gocache")
        caches.garble_cache = os.path.join(out, "garblecache")
        caches.tmp = os.path.join(out, "tmp")
        for d_ in (caches.garble_cache, caches.tmp):
            os.makedirs(d_)
        if os.path.isdir(vlib.STD_SNAPSHOT):
            vlib.run(["cp", "-a", vlib.STD_SNAPSHOT, caches.gocache], check=True)
        else:
            os.makedirs(caches.gocache)
        res = {"dir": out, "src": proj_dir, "plain": os.path.join(out, "plain.bin"), "garbled": os.path.join(out, "garbled.bin"),
               "debugdir": os.path.join(out, "dbg"), "flags": list(garble_flags)}
        rp = e2e.plain_build(proj, res["plain"], caches=caches)
        res["plain_rc"], res["plain_err"] = rp.returncode, rp.stderr.decode(errors="replace")[-2000:]
        rg = e2e.garble_build(garble, proj, res["garbled"], garble_flags=list(garble_flags) + ["-debugdir=" + res["debugdir"]], caches=caches,
                              extra_env=env_extra, timeout=1500)
        res["garble_rc"], res["garble_err"] = rg.returncode, rg.stderr.decode(errors="replace")[-3000:]
        rm = e2e.garble_build(garble, proj, None, pkg="./...", garble_flags=list(garble_flags), caches=caches, extra_env=env_extra, command="map")
        res["map_rc"] = rm.returncode
        res["map"] = json.loads(rm.stdout) if rm.returncode == 0 else None
        res["map_err"] = rm.stderr.decode(errors="replace")[-1000:]
        # what garble's own `go list` saw: plain BuildIDs (action IDs) and the garble binary's content ID
        env = caches.env(env_extra)
        rl = vlib.run(["go", "list", "-json", "-export", "-compiled", "-e", "-deps", "-trimpath", "-buildvcs=false", "./..."], env=env, cwd=proj_dir)
        ids = {}
        if rl.returncode == 0:
            dec = json.JSONDecoder()
            txt = rl.stdout.decode()
            i = 0
            while i < len(txt):
                while i < len(txt) and txt[i].isspace():
                    i += 1
                if i >= len(txt):
                    break
                obj, j = dec.raw_decode(txt, i)
                i = j
                ids[obj["ImportPath"]] = {"BuildID": obj.get("BuildID", ""), "Name": obj.get("Name", ""), "Standard": obj.get("Standard", False)}
        res["listed"] = ids
        rb = vlib.run(["go", "tool", "buildid", garble], env=env)
        res["garble_buildid"] = rb.stdout.decode().strip()
        if rg.returncode == 0:
            objmap = vlib.build_go(os.path.join(vlib.VERIF, "harness", "objmap"), os.path.join(vlib.sub("bin"), "objmap"))
            inp = {"debugdir": res["debugdir"], "packages": [{"path": p, "files": f} for p, f in PKG_ORDER]}
            ro = subprocess.run([objmap], input=json.dumps(inp).encode(), stdout=subprocess.PIPE, stderr=subprocess.PIPE, env=vlib.base_env(), cwd=proj_dir)
            res["objmap_rc"] = ro.returncode
            res["objmap_err"] = ro.stderr.decode(errors="replace")[-2000:]
            res["objmap"] = json.loads(ro.stdout) if ro.returncode == 0 else None
        # keep only what later checks read from the debugdir: the module's own packages
        for sub_ in ("source", "garbled"):
            d = os.path.join(res["debugdir"], sub_)
            if os.path.isdir(d):
                for e in os.listdir(d):
                    if e != "example.com":
                        shutil.rmtree(os.path.join(d, e), ignore_errors=True)
        res["caches"] = {"gocache": caches.gocache, "garble_cache": caches.garble_cache, "tmp": caches.tmp}
        with open(os.path.join(out, "done.json"), "w") as f:
            json.dump(res, f)
        return res
    finally:
        lock.close()


def corpus_caches(cres):
    """The (kept) caches of a corpus build, for further builds with the same garble binary and flags."""
    c = e2e.Caches.__new__(e2e.Caches)
    c.gocache, c.garble_cache, c.tmp = cres["caches"]["gocache"], cres["caches"]["garble_cache"], cres["caches"]["tmp"]
    return c
