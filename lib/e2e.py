"""Real-toolchain end-to-end helpers: write a Go module, build it plainly and with garble built
from /repo's working tree, run the binaries, scan them."""
import os, shutil, subprocess, hashlib
import vlib


class Project:
    def __init__(self, name, files, module="example.com/proj"):
        """files: {relative path: content}; go.mod is added when missing"""
        self.dir = vlib.sub("proj-" + name)
        shutil.rmtree(self.dir, ignore_errors=True)
        os.makedirs(self.dir)
        self.module = module
        if "go.mod" not in files:
            files = dict(files)
            files["go.mod"] = "module %s\n\ngo 1.26\n" % module
        for rel, content in files.items():
            p = os.path.join(self.dir, rel)
            os.makedirs(os.path.dirname(p), exist_ok=True)
            mode = "wb" if isinstance(content, bytes) else "w"
            with open(p, mode) as f:
                f.write(content)

    def write(self, rel, content):
        p = os.path.join(self.dir, rel)
        os.makedirs(os.path.dirname(p), exist_ok=True)
        with open(p, "w") as f:
            f.write(content)


class Caches:
    """One (GOCACHE, GARBLE_CACHE, TMPDIR) triple; GOCACHE starts from the plain-std snapshot."""
    n = 0

    def __init__(self, name=None, std=True):
        Caches.n += 1
        name = name or "c%d" % Caches.n
        self.gocache = vlib.fresh_gocache("gocache-" + name) if std else vlib.sub("gocache-" + name)
        self.garble_cache = vlib.sub("garblecache-" + name)
        self.tmp = vlib.sub("tmp-" + name)

    def env(self, extra=None):
        return vlib.garble_env(extra, gocache=self.gocache, garble_cache=self.garble_cache, tmpdir=self.tmp)

    def remove(self):
        for d in (self.gocache, self.garble_cache, self.tmp):
            subprocess.run(["chmod", "-R", "u+w", d], stderr=subprocess.DEVNULL)
            shutil.rmtree(d, ignore_errors=True)


def plain_build(proj, out, pkg=".", flags=(), caches=None, extra_env=None, timeout=600):
    env = (caches or _plain_caches()).env(extra_env)
    env.pop("GARBLE_CACHE", None)
    r = vlib.run(["go", "build", "-trimpath"] + list(flags) + ["-o", out, pkg], env=env, cwd=proj.dir, timeout=timeout)
    return r


_pc = None


def _plain_caches():
    global _pc
    if _pc is None:
        _pc = Caches("plain")
    return _pc


def garble_build(garble, proj, out, pkg=".", garble_flags=(), flags=(), caches=None, extra_env=None, timeout=900, command="build"):
    env = (caches or _plain_caches()).env(extra_env)
    cmd = [garble] + list(garble_flags) + [command] + list(flags)
    if command == "build":
        cmd += ["-o", out]
    cmd += [pkg] if pkg else []
    r = vlib.run(cmd, env=env, cwd=proj.dir, timeout=timeout)
    return r


def run_bin(path, args=(), env=None, timeout=60, cwd=None):
    e = {"PATH": "/usr/bin:/bin", "HOME": "/nonexistent"}
    if env:
        e.update(env)
    try:
        r = subprocess.run([path] + list(args), env=e, stdout=subprocess.PIPE, stderr=subprocess.PIPE, timeout=timeout, cwd=cwd,
                           stdin=subprocess.DEVNULL)
        return r.returncode, r.stdout, r.stderr
    except subprocess.TimeoutExpired:
        return -999, b"", b"timeout"


def sha256_file(path):
    h = hashlib.sha256()
    with open(path, "rb") as f:
        for chunk in iter(lambda: f.read(1 << 20), b""):
            h.update(chunk)
    return h.hexdigest()


def contains(path, needles):
    """Which of the byte-string needles occur in the file."""
    data = open(path, "rb").read()
    return [n for n in needles if (n if isinstance(n, bytes) else n.encode()) in data]
