"""Real-toolchain end-to-end helpers: write a Go module, build it plainly and with garble built
from /repo's working tree, run the binaries, scan them."""
import os, shutil, subprocess, hashlib
import vlib


class Project:
    def __init__(self, name, files, module="example.com/proj"):
        """files: {relative path: content}; go.mod is added when missing"""
        self.dir = vlib.sub("proj-" + name)
        shutil.rmtree(self.dir, ignore_errors=True)
        os.makedirs(self.dir)
        self.module = module
        if "go.mod" not in files:
            files = dict(files)
            files["go.mod"] = "module %s\n\ngo 1.26\n" % module
        for rel, content in files.items():
            p = os.path.join(self.dir, rel)
            os.makedirs(os.path.dirname(p), exist_ok=True)
            mode = "wb" if isinstance(content, bytes) else "w"
            with open(p, mode) as f:
                f.write(content)

    def write(self, rel, content):
        p = os.path.join(self.dir, rel)
        os.makedirs(os.path.dirname(p), exist_ok=True)
        with open(p, "w") as f:
            f.write(content)


class Caches:
    """One (GOCACHE, GARBLE_CACHE, TMPDIR) triple; GOCACHE starts from the plain-std snapshot."""
    n = 0

    def __init__(self, name=None, std=True):
        Caches.n += 1
        name = name or "c%d" % Caches.n
        self.gocache = vlib.fresh_gocache("gocache-" + name) if std else vlib.sub("gocache-" + name)
        self.garble_cache = vlib.sub("garblecache-" + name)
        self.tmp = vlib.sub("tmp-" + name)

    def env(self, extra=None):
        return vlib.garble_env(extra, gocache=self.gocache, garble_cache=self.garble_cache, tmpdir=self.tmp)

    def remove(self):
        for d in (self.gocache, self.garble_cache, self.tmp):
            subprocess.run(["chmod", "-R", "u+w", d], stderr=subprocess.DEVNULL)
            shutil.rmtree(d, ignore_errors=True)


def plain_build(proj, out, pkg=".", flags=(), caches=None, extra_env=None, timeout=600):
    env = (caches or _plain_caches()).env(extra_env)
    env.pop("GARBLE_CACHE", None)
    r = vlib.run(["go", "build", "-trimpath"] + list(flags) + ["-o", out, pkg], env=env, cwd=proj.dir, timeout=timeout)
    return r


_pc = None


def _plain_caches():
    global _pc
    if _pc is None:
        _pc = Caches("plain")
    return _pc


def garble_build(garble, proj, out, pkg=".", garble_flags=(), flags=(), caches=None, extra_env=None, timeout=900, command="build"):
    env = (caches or _plain_caches()).env(extra_env)
    cmd = [garble] + list(garble_flags) + [command] + list(flags)
    if command == "build":
        cmd += ["-o", out]
    cmd += [pkg] if pkg else []
    r = vlib.run(cmd, env=env, cwd=proj.dir, timeout=timeout)
    return r


def run_bin(path, args=(), env=None, timeout=60, cwd=None):
    e = {"PATH": "/usr/bin:/bin", "HOME": "/nonexistent"}
    if env:
        e.update(env)
    try:
        r = subprocess.run([path] + list(args), env=e, stdout=subprocess.PIPE, stderr=subprocess.PIPE, timeout=timeout, cwd=cwd,
                           stdin=subprocess.DEVNULL)
        return r.returncode, r.stdout, r.stderr
    except subprocess.TimeoutExpired:
        return -999, b"", b"timeout"


def sha256_file(path):
    h = hashlib.sha256()
    with open(path, "rb") as f:
        for chunk in iter(lambda: f.read(1 << 20), b""):
            h.update(chunk)
    return h.hexdigest()


def contains(path, needles):
    """Which of the byte-string needles occur in the file."""
    data = open(path, "rb").read()
    return [n for n in needles if (n if isinstance(n, bytes) else n.encode()) in data]


def garble_std_snapshot(garble, garble_flags=(), env_extra=None):
    """A GOCACHE holding the standard library as compiled through THIS garble binary's toolexec with
    these garble flags and a GOGARBLE that selects no std package (so std is unobfuscated and its
    entries depend on nothing under test).  Built once per (garble binary, flags) and kept under
    /verif/.cache/gstd; callers copy it, so that a "cold" build of a module costs seconds."""
    import fcntl, hashlib, json
    key = hashlib.sha256((sha256_file(garble) + repr(sorted(garble_flags)) + repr(sorted((env_extra or {}).items()))).encode()).hexdigest()[:24]
    root = os.path.join(vlib.CACHE, "gstd")
    os.makedirs(root, exist_ok=True)
    out = os.path.join(root, key)
    lock = open(os.path.join(root, key + ".lock"), "w")
    fcntl.flock(lock, fcntl.LOCK_EX)
    try:
        if os.path.exists(os.path.join(out, "ok")):
            return os.path.join(out, "gocache")
        vlib.evict_cache_entries(root, key)
        shutil.rmtree(out, ignore_errors=True)
        os.makedirs(out)
        proj = Project("gstd-" + key, {"main.go": 'package main\n\nimport (\n\t"encoding/json"\n\t"errors"\n\t"fmt"\n\t"os"\n\t"reflect"\n\t"sort"\n\t"strings"\n\t"sync"\n\t"time"\n)\n\n'
                       'func main() { fmt.Println(os.Args, reflect.TypeOf(1), strings.ToUpper("x"), errors.New("e"), sort.IsSorted(nil), time.Second); var m sync.Mutex; m.Lock(); json.Marshal(1) }\n'},
                       module="gstd.invalid/hello")
        c = Caches.__new__(Caches)
        c.gocache = os.path.join(out, "gocache")
        c.garble_cache = vlib.sub("gstd-garblecache")
        c.tmp = vlib.sub("gstd-tmp")
        if os.path.isdir(vlib.STD_SNAPSHOT):
            vlib.run(["cp", "-a", vlib.STD_SNAPSHOT, c.gocache], check=True)
        else:
            os.makedirs(c.gocache)
        ex = dict(env_extra or {})
        ex["GOGARBLE"] = "gstd.invalid/hello"
        r = garble_build(garble, proj, os.path.join(proj.dir, "h.bin"), garble_flags=list(garble_flags), caches=c, extra_env=ex, timeout=1500)
        if r.returncode != 0:
            return None
        open(os.path.join(out, "ok"), "w").close()
        return c.gocache
    finally:
        lock.close()


def module_cold_caches(garble, name, garble_flags=(), env_extra=None):
    """Caches that are empty for everything a module build can key, but already hold the
    (unobfuscated, garble-toolexec-compiled) standard library for this garble binary and flags."""
    snap = garble_std_snapshot(garble, garble_flags, env_extra)
    c = Caches.__new__(Caches)
    c.gocache = vlib.sub("gocache-" + name)
    shutil.rmtree(c.gocache, ignore_errors=True)
    if snap:
        vlib.run(["cp", "-a", snap, c.gocache], check=True)
    else:
        c.gocache = vlib.fresh_gocache("gocache-" + name)
    c.garble_cache = vlib.sub("garblecache-" + name)
    shutil.rmtree(c.garble_cache, ignore_errors=True)
    os.makedirs(c.garble_cache)
    c.tmp = vlib.sub("tmp-" + name)
    return c
