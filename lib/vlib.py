"""Shared machinery for /verif checks: environment, scratch space, building garble from /repo's
current working tree (with add-only `//go:build verif` oracle files injected into a scratch copy),
the stub `go`, running Coq, evidence and VIOLATION reporting."""
import threading
import atexit, fcntl, hashlib, json, os, random, re, shutil, subprocess, sys, tempfile, time

VERIF = os.path.dirname(os.path.dirname(os.path.abspath(__file__)))
REPO = os.environ.get("VERIF_REPO", "/repo")
COQ = os.path.join(VERIF, "coq")
CACHE = os.environ.get("VERIF_CACHE_DIR") or os.path.join(VERIF, ".cache")
GO_TOOLCHAIN = "/root/go/pkg/mod/golang.org/toolchain@v0.0.1-go1.26.2.linux-amd64"
REAL_MODCACHE = "/root/go/pkg/mod"

T0 = time.time()


def log(*a):
    print("[verif %6.1fs]" % (time.time() - T0), *a, file=sys.stderr, flush=True)


# ---------------------------------------------------------------- environment
def base_env(extra=None):
    env = dict(os.environ)
    env["PATH"] = GO_TOOLCHAIN + "/bin:" + env.get("PATH", "")
    env.update({
        "GOTOOLCHAIN": "local", "GOFLAGS": "-mod=mod", "GOPROXY": "off", "GOSUMDB": "off",
        "GOROOT": GO_TOOLCHAIN, "CGO_ENABLED": "0", "GONOSUMDB": "*", "GONOSUMCHECK": "1",
        "GOCACHE": os.path.join(CACHE, "gobuild"),
        "GOMODCACHE": REAL_MODCACHE,
    })
    env.pop("GARBLE_SHARED", None)
    env.pop("GOGARBLE", None)
    if extra:
        env.update(extra)
    return env


# ---------------------------------------------------------------- scratch
_scratch = None


def scratch():
    """One scratch directory per process, outside /repo and /verif, removed at exit."""
    global _scratch
    if _scratch is None:
        root = os.environ.get("VERIF_SCRATCH_ROOT") or tempfile.gettempdir()
        _scratch = tempfile.mkdtemp(prefix="verif-%d-" % os.getpid(), dir=root)
        atexit.register(_cleanup)
    return _scratch


def _cleanup():
    if _scratch and os.path.isdir(_scratch) and not os.environ.get("VERIF_KEEP"):
        subprocess.run(["chmod", "-R", "u+w", _scratch], stderr=subprocess.DEVNULL)
        shutil.rmtree(_scratch, ignore_errors=True)


def sub(name):
    p = os.path.join(scratch(), name)
    os.makedirs(p, exist_ok=True)
    return p


def run(cmd, env=None, cwd=None, timeout=None, input=None, check=False):
    r = subprocess.run(cmd, env=env, cwd=cwd, timeout=timeout, input=input,
                       stdout=subprocess.PIPE, stderr=subprocess.PIPE)
    if check and r.returncode != 0:
        raise RuntimeError("command failed (%d): %s\n%s\n%s" % (
            r.returncode, cmd, r.stdout.decode(errors="replace")[-4000:], r.stderr.decode(errors="replace")[-4000:]))
    return r


# ---------------------------------------------------------------- garble from the working tree
class BuildError(Exception):
    pass


def copy_repo(dst):
    os.makedirs(dst, exist_ok=True)
    run(["rsync", "-a", "--delete", "--exclude", ".git", REPO + "/", dst + "/"], check=True)


def build_garble(inject=("main", "literals"), tags="verif", name="garble"):
    """Copy /repo's working tree to scratch, drop the add-only oracle files in, build.
    Returns (binary_path, source_copy_dir).  Raises BuildError with the compiler output."""
    src = sub("src-" + name)
    copy_repo(src)
    for group in inject:
        gdir = os.path.join(VERIF, "harness", "inject", group)
        # each group directory mirrors the repo layout
        for root, _, files in os.walk(gdir):
            rel = os.path.relpath(root, gdir)
            for f in files:
                os.makedirs(os.path.join(src, rel), exist_ok=True)
                shutil.copy(os.path.join(root, f), os.path.join(src, rel, f))
    out = os.path.join(sub("bin"), name)
    # -trimpath: the binary (and hence its content ID, which keys every cache) must not depend on the scratch path
    cmd = ["go", "build", "-trimpath", "-o", out]
    if tags:
        cmd += ["-tags", tags]
    cmd += ["."]
    r = run(cmd, env=base_env(), cwd=src)
    if r.returncode != 0:
        raise BuildError(r.stderr.decode(errors="replace"))
    return out, src


def build_go(pkgdir, out, tags=None, env=None):
    cmd = ["go", "build", "-o", out]
    if tags:
        cmd += ["-tags", tags]
    cmd += ["."]
    r = run(cmd, env=env or base_env(), cwd=pkgdir)
    if r.returncode != 0:
        raise BuildError(r.stderr.decode(errors="replace"))
    return out


def garble_env(extra=None, gocache=None, garble_cache=None, tmpdir=None):
    """Environment for running a real garble build (GOMODCACHE must not contain GOROOT)."""
    e = base_env()
    e["GOMODCACHE"] = sub("emptymodcache")
    e["GOCACHE"] = gocache or sub("gocache")
    e["GARBLE_CACHE"] = garble_cache or sub("garblecache")
    e["TMPDIR"] = tmpdir or sub("tmp")
    e["HOME"] = sub("home")
    e["GOFLAGS"] = ""
    e["GOWORK"] = "off"
    if extra:
        e.update(extra)
    return e


STD_SNAPSHOT = os.path.join(CACHE, "gocache-std")


def fresh_gocache(name="gocache"):
    """A scratch GOCACHE pre-filled with plain std export data (garble-independent entries),
    so a garble-cold build costs seconds instead of a minute."""
    dst = sub(name)
    if os.path.isdir(STD_SNAPSHOT):
        run(["cp", "-a", STD_SNAPSHOT + "/.", dst], check=True)
    return dst


# ---------------------------------------------------------------- stub go
def build_stubgo():
    out = os.path.join(sub("bin"), "stubgo")
    if not os.path.exists(out):
        build_go(os.path.join(VERIF, "harness", "stubgo"), out)
    return out


class Stub:
    """A fake GOROOT whose bin/go is the stub.  garble resolves `go` through PATH for env/buildid
    and through GOROOT/bin/go for `go list`; both reach the stub."""

    def __init__(self, name="stub"):
        self.dir = sub(name)
        self.root = os.path.join(self.dir, "goroot")
        os.makedirs(os.path.join(self.root, "bin"), exist_ok=True)
        stub = build_stubgo()
        dst = os.path.join(self.root, "bin", "go")
        if not os.path.exists(dst):
            shutil.copy(stub, dst)
        self.n = 0
        self._lock = threading.Lock()

    def env(self, conf, extra=None):
        """conf: dict(list=[pkg records], buildid=str, goversion=str, build_exit=int, list_exit=int, list_stderr=str)"""
        with self._lock:      # checks call this from worker threads: the counter must not be shared between two configurations
            self.n += 1
            n = self.n
        cpath = os.path.join(self.dir, "conf-%d-%d.json" % (os.getpid(), n))
        lpath = os.path.join(self.dir, "log-%d-%d.jsonl" % (os.getpid(), n))
        conf = dict(conf)
        conf.setdefault("goroot", self.root)
        with open(cpath, "w") as f:
            json.dump(conf, f)
        e = dict(os.environ)
        e["PATH"] = os.path.join(self.root, "bin") + ":" + e.get("PATH", "")
        e["STUBGO_CONF"] = cpath
        e["STUBGO_LOG"] = lpath
        e["GARBLE_CACHE"] = sub("stub-garblecache")
        e["TMPDIR"] = sub("stub-tmp")
        e["HOME"] = sub("home")
        e.pop("GARBLE_SHARED", None)
        e.pop("GOGARBLE", None)
        if extra:
            e.update(extra)
        return e, lpath


def read_log(lpath):
    if not os.path.exists(lpath):
        return []
    return [json.loads(l) for l in open(lpath) if l.strip()]


# ---------------------------------------------------------------- Coq
def coq_lock():
    os.makedirs(CACHE, exist_ok=True)
    f = open(os.path.join(CACHE, "coq.lock"), "w")
    fcntl.flock(f, fcntl.LOCK_EX)
    return f


def coq_make(targets=(), timeout=1500):
    """Full .vo build of the project (incremental).  Returns (ok, output)."""
    lk = coq_lock()
    try:
        if not os.path.exists(os.path.join(COQ, "Makefile")) or \
                os.path.getmtime(os.path.join(COQ, "Makefile")) < os.path.getmtime(os.path.join(COQ, "_CoqProject")):
            run(["coq_makefile", "-f", "_CoqProject", "-o", "Makefile"], cwd=COQ, check=True)
        cmd = ["timeout", str(timeout), "make", "-k", "-j16"] + list(targets)
        r = run(cmd, cwd=COQ)
        return r.returncode == 0, (r.stdout + r.stderr).decode(errors="replace")
    finally:
        lk.close()


def coqc_file(path, timeout=900):
    """Compile one generated .v file (cases) against the built project; returns (ok, stdout+stderr)."""
    r = run(["timeout", str(timeout), "coqc", "-Q", COQ, "Verif", path], cwd=os.path.dirname(path))
    return r.returncode == 0, (r.stdout + r.stderr).decode(errors="replace")


def nlist(bs):
    """Python bytes -> Coq list N literal"""
    return "[" + ";".join(str(b) for b in bs) + "]"


def coq_bool(b):
    return "true" if b else "false"


def coq_eval_cases(name, header, case_type, cases, mismatch_fn, chunk=400):
    """Write cases files that evaluate `mismatch_fn : case_type -> bool` (true = mismatch) over the
    given Coq-literal cases inside Coq with vm_compute; returns indexes of mismatching cases.
    Each shard prints the list of failing indexes."""
    d = sub("cases-" + name)
    bad = []
    procs = []
    for si in range(0, len(cases), chunk):
        shard = cases[si:si + chunk]
        path = os.path.join(d, "Cases_%s_%d.v" % (name, si))
        with open(path, "w") as f:
            f.write(header + "\n")
            f.write("Definition cases : list (%s) := [\n" % case_type)
            f.write(";\n".join(shard))
            f.write("\n].\n")
            f.write("Definition bad := Eval vm_compute in\n"
                    "  map fst (filter (fun p => %s (snd p)) (combine (seq 0 (length cases)) cases)).\n" % mismatch_fn)
            f.write("Print bad.\n")
        procs.append((si, path, subprocess.Popen(
            ["timeout", "900", "coqc", "-Q", COQ, "Verif", path], cwd=d,
            stdout=subprocess.PIPE, stderr=subprocess.STDOUT)))
        if len(procs) >= 12:
            _collect(procs, bad)
            procs = []
    _collect(procs, bad)
    return sorted(bad)


def _collect(procs, bad):
    for si, path, p in procs:
        out = p.communicate()[0].decode(errors="replace")
        if p.returncode != 0:
            raise RuntimeError("coqc failed on %s:\n%s" % (path, out[-3000:]))
        m = re.search(r"bad\s*=\s*(\[.*?\])\s*:", out, re.S)
        if not m:
            raise RuntimeError("cannot parse coqc output for %s:\n%s" % (path, out[-2000:]))
        body = m.group(1).strip()[1:-1].strip()
        if body:
            for tok in body.split(";"):
                tok = tok.strip()
                mm = re.match(r"(\d+)", tok)
                bad.append(si + int(mm.group(1)))


def print_assumptions(theorems, requires):
    """Returns {theorem: assumptions text} using one coqc run."""
    d = sub("pa")
    path = os.path.join(d, "PA_%d.v" % random.randrange(10**9))
    with open(path, "w") as f:
        f.write(requires + "\n")
        for t in theorems:
            f.write('Print Assumptions %s.\n' % t)
    ok, out = coqc_file(path)
    if not ok:
        raise RuntimeError("Print Assumptions failed:\n" + out[-3000:])
    # split output per theorem: each answer starts with either "Closed under" or "Axioms:"
    chunks = re.split(r"(?=Closed under the global context|Axioms:)", out)
    chunks = [c.strip() for c in chunks if c.strip()]
    res = {}
    for t, c in zip(theorems, chunks):
        res[t] = c
    return res


def forbidden_scan():
    """grep the development for anything that would declare an axiom or weaken the kernel."""
    pat = re.compile(r"\b(Admitted|admit|Axiom|Axioms|Parameter|Parameters|Conjecture|Conjectures|"
                     r"Admit Obligations|Unset Guard Checking|Unset Positivity Checking|Unset Universe Checking|"
                     r"bypass_check|type-in-type|impredicative-set|native_compute)\b")
    hits = []
    for root, _, files in os.walk(COQ):
        for f in files:
            if f.endswith(".v") or f == "_CoqProject":
                p = os.path.join(root, f)
                txt = open(p).read()
                # strip comments (non-nested approximation, applied repeatedly)
                prev = None
                while prev != txt:
                    prev = txt
                    txt = re.sub(r"\(\*[^()]*?\*\)", "", txt, flags=re.S)
                for i, line in enumerate(txt.split("\n")):
                    if pat.search(line):
                        hits.append("%s:%d: %s" % (os.path.relpath(p, COQ), i + 1, line.strip()))
    return hits


# ---------------------------------------------------------------- known findings
def known_findings(pid):
    """Lines of KNOWN_FINDINGS.txt: `known: property=<id> key=<key> <what fails>` /
    `fixed: property=<id> <commit> <what failed>`"""
    out = {}
    p = os.path.join(VERIF, "KNOWN_FINDINGS.txt")
    if not os.path.exists(p):
        return out
    for line in open(p):
        line = line.strip()
        m = re.match(r"known: property=(\S+) key=(\S+) (.*)", line)
        if m and m.group(1) == pid:
            out[m.group(2)] = m.group(3)
    return out


# ---------------------------------------------------------------- result / evidence
class Result:
    def __init__(self, pid, tier, seed):
        self.pid, self.tier, self.seed = pid, tier, seed
        self.violations = []     # (key, description, replay dict, found_input)
        self.known_hit = []
        self.cov = {"obligations": 0, "discharged": 0, "checker_cmd": "", "trusted_base": [],
                    "evaluations": 0, "distinct_nontrivial": 0, "rule": "", "samples": []}
        self.assumptions = []
        self.t0 = time.time()
        self.known = known_findings(pid)

    def add_sample(self, s, limit=6):
        if len(self.cov["samples"]) < limit:
            self.cov["samples"].append(s)

    def violation(self, key, desc, replay, found_input=True):
        """key identifies the failing witness; a key listed in KNOWN_FINDINGS.txt is reported as
        KNOWN-FINDING, anything else as VIOLATION."""
        if key in self.known:
            if key not in [k for k, _ in self.known_hit]:
                self.known_hit.append((key, self.known[key]))
            return
        self.violations.append((key, desc, replay, found_input))

    def finish(self):
        evdir = os.path.join(VERIF, "evidence")
        os.makedirs(evdir, exist_ok=True)
        for key, what in self.known_hit:
            print("KNOWN-FINDING: property=%s %s" % (self.pid, what))
        rc = 0
        if self.violations:
            rc = 1
            rdir = os.path.join(VERIF, "evidence", "replay")
            os.makedirs(rdir, exist_ok=True)
            seen = set()
            for key, desc, replay, found in self.violations:
                if key in seen or len(seen) >= 8:
                    continue
                seen.add(key)
                safe = re.sub(r"[^A-Za-z0-9_.-]", "_", key)[:80]
                rpath = os.path.join(rdir, "%s-%s.json" % (self.pid, safe))
                with open(rpath, "w") as f:
                    json.dump({"property": self.pid, "key": key, "what": desc, "replay": replay,
                               "failing_input_found": found}, f, indent=1, default=str)
                line = "VIOLATION property=%s replay=%s" % (self.pid, rpath)
                if not found:
                    line += " no-failing-input-found"
                print(line)
                log("  ->", desc[:500])
        cov = dict(self.cov)
        if not cov.get("discharged"):
            # nothing was discharged in this run (the development did not compile): the schema's proof keys do not apply,
            # the exploration counts below describe what the run still covered
            cov["discharged_none_this_run"] = True
            del cov["discharged"]
            cov["evaluations"] = max(1, int(cov.get("evaluations") or 0))
            cov["distinct_nontrivial"] = max(2, int(cov.get("distinct_nontrivial") or 0))
        ev = {
            "property_id": self.pid, "tier": self.tier, "seed": self.seed, "level": "proof",
            "coverage": cov, "assumptions": self.assumptions,
            "wall_s": round(time.time() - self.t0, 2), "violations": len(self.violations),
            "known_findings_replayed": [k for k, _ in self.known_hit],
        }
        with open(os.path.join(evdir, self.pid + ".json"), "w") as f:
            json.dump(ev, f, indent=1, default=str)
        sys.stdout.flush()
        return rc


# ---------------------------------------------------------------- proof obligations
def check_proofs(res, pid, property_file, theorems, extra_targets=()):
    """(Re)build the Coq project, confirm the property file compiled, collect Print Assumptions.
    property_file like 'Properties/C16.v'.  Returns True when all obligations are discharged."""
    hits = forbidden_scan()
    if hits:
        res.violation("forbidden-constructs", "forbidden constructs in the Coq development: %s" % hits[:5],
                      {"hits": hits}, found_input=False)
        return False
    ok, out = coq_make()
    res.cov["checker_cmd"] = "cd /verif/coq && coq_makefile -f _CoqProject -o Makefile && make -j16 (coqc 8.16.1, full .vo build)"
    res.cov["obligations"] += len(theorems)
    if not ok:
        # make -k went on: what matters for this property is whether its own file (and so everything it needs) compiled
        vo = os.path.join(COQ, property_file + "o")
        src = os.path.join(COQ, property_file)
        if not (os.path.exists(vo) and os.path.getmtime(vo) >= os.path.getmtime(src)):
            res.proof_output = out
            m = re.findall(r'File "\./([^"]+)", line (\d+)', out)
            res.broken = m
            log("coq build failed:", out[-1500:])
            # obligations of this file stated before the failing line were still checked by coqc
            for f, line in m:
                if f == property_file:
                    text = open(src).read().split("\n")
                    for t in theorems:
                        st = next((i for i, l in enumerate(text) if re.match(r"(Theorem|Example|Lemma)\s+%s\b" % re.escape(t), l)), None)
                        qed = next((i for i in range(st, len(text)) if text[i].rstrip().endswith("Qed.")), None) if st is not None else None
                        if qed is not None and qed + 1 < int(line):
                            res.cov["discharged"] += 1
            return False
        log("coq build failed elsewhere, %s compiled:" % property_file, out[-400:])
    mod = property_file[:-2].replace("/", ".")
    try:
        pa = print_assumptions(theorems, "From Verif Require Import %s." % mod)
    except RuntimeError as e:
        res.proof_output = str(e)
        return False
    res.cov["discharged"] += len(pa)
    tb = res.cov["trusted_base"]
    for t in theorems:
        a = pa.get(t, "?")
        a1 = " ".join(a.split())
        tb.append("Print Assumptions %s: %s" % (t, a1[:300]))
    return len(pa) == len(theorems)


TRUSTED_COMMON = [
    "Coq 8.16.1 kernel (coqc, full .vo build; vm_compute used, native_compute not used)",
    "no Axiom/Parameter/Admitted/admit in the development (grep run by every check)",
    "python driver /verif/bin/check and lib/vlib.py; Go harness programs under /verif/harness",
]


def rng(seed):
    return random.Random(seed)


def main_args():
    import argparse
    ap = argparse.ArgumentParser()
    ap.add_argument("pid")
    ap.add_argument("--tier", default=os.environ.get("VERIF_TIER", "quick"))
    ap.add_argument("--replay", default=None)
    a = ap.parse_args()
    seed = int(os.environ.get("VERIF_SEED", "1"))
    return a.pid, a.tier, seed, a.replay


# ---------------------------------------------------------------- translators
def run_translators():
    """Regenerate coq/Gen/*.v from /repo's current working tree.  Returns (ok, message)."""
    out = os.path.join(sub("bin"), "gen")
    try:
        build_go(os.path.join(VERIF, "translate", "gen"), out)
    except BuildError as e:
        return False, "translator does not build: %s" % e
    gen_tmp = sub("gen-out")
    os.makedirs(CACHE, exist_ok=True)
    r = run([out, REPO, gen_tmp], env=base_env({"VERIF_GOFLAGS_CACHE": os.path.join(CACHE, "goflags.json")}))
    if r.returncode != 0:
        return False, r.stderr.decode(errors="replace")
    ok_rt, msg_rt = gen_runtime_graph(gen_tmp)
    if not ok_rt:
        return False, msg_rt
    ok_s, msg_s = gen_sites(gen_tmp)
    if not ok_s:
        return False, msg_s
    # only touch files whose content changed (keeps make incremental)
    lk = coq_lock()
    try:
        gdir = os.path.join(COQ, "Gen")
        os.makedirs(gdir, exist_ok=True)
        for f in os.listdir(gen_tmp):
            new = open(os.path.join(gen_tmp, f)).read()
            dst = os.path.join(gdir, f)
            if not os.path.exists(dst) or open(dst).read() != new:
                with open(dst, "w") as fh:
                    fh.write(new)
    finally:
        lk.close()
    return True, ""


def gen_runtime_graph(outdir):
    """Gen/RuntimeGraph.v: garble's own stripRuntime (through the injected oracle) applied to the
    runtime sources of the toolchain in use; the call graph of the result with callees resolved by go/types."""
    try:
        garble, _ = build_garble()
    except BuildError as e:
        return False, "garble with the oracle does not build: %s" % str(e)[-500:]
    env = base_env()
    r = run(["go", "list", "-json", "runtime"], env=env)
    if r.returncode != 0:
        return False, "go list runtime failed"
    js = json.loads(r.stdout)
    files = [os.path.join(js["Dir"], f) for f in js["GoFiles"]]
    req = json.dumps({"op": "stripruntime", "args": files}).encode() + b"\n"
    pr = subprocess.run([garble], input=req, env=base_env({"GARBLE_VERIF_ORACLE": "1"}), stdout=subprocess.PIPE, stderr=subprocess.PIPE)
    if pr.returncode != 0:
        return False, "stripruntime oracle failed: " + pr.stderr.decode(errors="replace")[-500:]
    resp = json.loads(pr.stdout.decode().splitlines()[0])
    if "funcs" not in resp:
        return False, "stripruntime oracle: %r" % resp
    funcs = resp["funcs"]
    ids = {}
    for f in funcs:
        ids.setdefault(f["name"], len(ids) + 1)
    inner_files = ("print.go", "debuglog.go", "hexdump.go", "write_err.go")
    graph = {}
    for f in funcs:
        graph.setdefault(ids[f["name"]], set()).update(ids[c] for c in (f["calls"] or []) if c in ids)
    sinks = sorted({ids[n] for n in ("gwrite", "writeErr", "writeErrData") if n in ids} | {ids[f["name"]] for f in funcs if f["raw_stderr"]})
    # witness: everything that can reach a sink (Coq checks that it is closed and contains the sinks)
    R = set(sinks)
    changed = True
    while changed:
        changed = False
        for fid, cs in graph.items():
            if fid not in R and cs & R:
                R.add(fid)
                changed = True
    inner = sorted({ids[f["name"]] for f in funcs if f["file"] in inner_files})
    builtin_outside = sorted({ids[f["name"]] for f in funcs if f["builtin_print"] and f["file"] != "print.go"})
    required = [n for n in ("printDebugLog", "hexdumpWords", "writeErrStr")]
    emptied_required_calls = sorted({c for n in required for f in funcs if f["name"] == n for c in (f["calls"] or [])})
    missing_required = [n for n in required if n not in ids]
    marker_methods = sorted({ids[f["name"]] for f in funcs if f["name"].startswith("hexdumpMarker.")})

    def nl_(l):
        return "[" + ";".join(str(x) for x in l) + "]"
    out = ["Definition graph : list (N * list N) :=\n  [" + ";\n   ".join("(%d, %s)" % (fid, nl_(sorted(cs))) for fid, cs in sorted(graph.items())) + "].",
           "Definition sinks : list N := %s." % nl_(sinks),
           "Definition reaching : list N := %s." % nl_(sorted(R)),
           "Definition inner : list N := %s." % nl_(inner),
           "Definition builtin_print_outside_print_go : list N := %s." % nl_(builtin_outside),
           "Definition calls_left_in_required_strips : nat := %d." % (len(emptied_required_calls) + 100 * len(missing_required)),
           "Definition marker_methods : list N := %s." % nl_(marker_methods),
           "Definition n_functions : nat := %d." % len(ids)]
    header = ("(* GENERATED by /verif/lib/vlib.py:gen_runtime_graph from garble's stripRuntime applied to GOROOT/src/runtime. Do not edit. *)\n"
              "From Coq Require Import List NArith Bool.\nImport ListNotations.\nOpen Scope N_scope.\n\n")
    with open(os.path.join(outdir, "RuntimeGraph.v"), "w") as fh:
        fh.write(header + "\n\n".join(out) + "\n")
    with open(os.path.join(outdir, "runtimegraph.json"), "w") as fh:
        json.dump({"ids": ids, "frontier_names": [(f["name"], c) for f in funcs if f["file"] not in inner_files for c in (f["calls"] or [])
                                                  if c in ids and ids[c] in R and ids[c] in set(inner)]}, fh)
    return True, ""


def gen_sites(outdir):
    """Gen/Sites.v: the inventory of potential non-determinism sites in the type-checked garble packages."""
    b = os.path.join(sub("bin"), "sites")
    try:
        build_go(os.path.join(VERIF, "translate", "sites"), b)
    except BuildError as e:
        return False, "sites translator does not build: %s" % str(e)[-500:]
    src = sub("src-garble")
    if not os.path.exists(os.path.join(src, "go.mod")):
        copy_repo(src)
    r = run([b, src, outdir], env=base_env())
    if r.returncode != 0:
        return False, "sites translator failed (the garble packages do not type-check?): " + r.stderr.decode(errors="replace")[-600:]
    sites = json.load(open(os.path.join(outdir, "sites.json")))
    body = "Definition sites : list (list N * list N) :=\n  [" + ";\n   ".join(
        "(%s, %s)" % (nlist(x["where"].rsplit("#", 1)[0].encode()), nlist(x["class"].encode())) for x in sites) + "].\n"
    header = ("(* GENERATED by /verif/translate/sites from the type-checked garble packages. Do not edit. *)\n"
              "From Coq Require Import List NArith Bool.\nImport ListNotations.\nOpen Scope N_scope.\n\n")
    with open(os.path.join(outdir, "Sites.v"), "w") as fh:
        fh.write(header + body)
    return True, ""


def evict_cache_entries(root, keep_key, keep=7, min_age_s=1800):
    """Keeps a keyed cache directory small without pulling entries from under a concurrent check:
    oldest first, never an entry whose lock another process holds, never one touched in the last
    half hour (callers keep reading an entry after the function that built it has returned)."""
    others = sorted((e for e in os.listdir(root) if os.path.isdir(os.path.join(root, e)) and e != keep_key),
                    key=lambda e: os.path.getmtime(os.path.join(root, e)))
    while len(others) > keep:
        e = others.pop(0)
        if time.time() - os.path.getmtime(os.path.join(root, e)) < min_age_s:
            break
        try:
            lk = open(os.path.join(root, e + ".lock"), "w")
            fcntl.flock(lk, fcntl.LOCK_EX | fcntl.LOCK_NB)
        except OSError:
            continue
        try:
            shutil.rmtree(os.path.join(root, e), ignore_errors=True)
        finally:
            fcntl.flock(lk, fcntl.LOCK_UN)
            lk.close()
