// stubgo stands in for the `go` command so that garble's command-line handling, package
// selection and naming can be observed black-box without any toolchain work.
// Behaviour comes from the JSON file named by STUBGO_CONF; every invocation's argv (and the
// relevant environment) is appended to STUBGO_LOG as one JSON line.
package main

import (
	"encoding/json"
	"fmt"
	"os"
)

type conf struct {
	GOROOT     string            `json:"goroot"`
	GOVERSION  string            `json:"goversion"`
	GOOS       string            `json:"goos"`
	GOARCH     string            `json:"goarch"`
	BuildID    string            `json:"buildid"`
	List       []json.RawMessage `json:"list"`
	ListExit   int               `json:"list_exit"`
	ListStderr string            `json:"list_stderr"`
	BuildExit  int               `json:"build_exit"`
	BuildOut   string            `json:"build_stdout"`
	HelpOut    string            `json:"help_out"`
}

func main() {
	var c conf
	if p := os.Getenv("STUBGO_CONF"); p != "" {
		data, err := os.ReadFile(p)
		if err != nil {
			fmt.Fprintln(os.Stderr, "stubgo:", err)
			os.Exit(3)
		}
		if err := json.Unmarshal(data, &c); err != nil {
			fmt.Fprintln(os.Stderr, "stubgo:", err)
			os.Exit(3)
		}
	}
	if c.GOVERSION == "" {
		c.GOVERSION = "go1.26.2"
	}
	if c.GOOS == "" {
		c.GOOS = "linux"
	}
	if c.GOARCH == "" {
		c.GOARCH = "amd64"
	}
	if c.BuildID == "" {
		c.BuildID = "AAAAAAAAAAAAAAAAAAAA/BBBBBBBBBBBBBBBBBBBB/CCCCCCCCCCCCCCCCCCCC/DDDDDDDDDDDDDDDDDDDD"
	}
	args := os.Args[1:]
	if lp := os.Getenv("STUBGO_LOG"); lp != "" {
		f, err := os.OpenFile(lp, os.O_APPEND|os.O_CREATE|os.O_WRONLY, 0o666)
		if err == nil {
			rec := map[string]any{
				"argv":          args,
				"GARBLE_SHARED": os.Getenv("GARBLE_SHARED"),
				"GOGARBLE":      os.Getenv("GOGARBLE"),
			}
			b, _ := json.Marshal(rec)
			f.Write(append(b, '\n'))
			f.Close()
		}
	}
	if len(args) == 0 {
		os.Exit(2)
	}
	switch args[0] {
	case "env":
		out := map[string]string{"GOOS": c.GOOS, "GOARCH": c.GOARCH, "GOMOD": "/dev/null", "GOVERSION": c.GOVERSION, "GOROOT": c.GOROOT}
		b, _ := json.Marshal(out)
		os.Stdout.Write(append(b, '\n'))
	case "tool":
		// go tool buildid <garble binary>
		fmt.Println(c.BuildID)
	case "list":
		deps := false
		for _, a := range args {
			if a == "-deps" {
				deps = true
			}
		}
		if !deps {
			// garble's secondary listing of runtime-linknamed std packages (file-argument
			// builds): nothing to add.
			os.Exit(0)
		}
		for _, rec := range c.List {
			os.Stdout.Write(rec)
			os.Stdout.Write([]byte("\n"))
		}
		if c.ListStderr != "" {
			fmt.Fprint(os.Stderr, c.ListStderr)
		}
		os.Exit(c.ListExit)
	case "build", "test", "run":
		if len(args) == 2 && args[1] == "-h" {
			fmt.Print(c.HelpOut)
			os.Exit(2)
		}
		fmt.Print(c.BuildOut)
		os.Exit(c.BuildExit)
	case "version":
		fmt.Println("go version", c.GOVERSION, c.GOOS+"/"+c.GOARCH)
	default:
		os.Exit(2)
	}
}
