module verif/stubgo

go 1.26
