// Harness for C15: compiled together with /repo's bundled_typeutil.go and bundled_typeparams.go
// (copied unmodified into a scratch package).  Reads a JSON list of packages from stdin,
// type-checks them with go/types, and reports for every struct type reachable from a
// package-level type, alias or variable: its fields, typeutil_hash, and which structs are
// identical ignoring tags according to go/types itself.
package main

import (
	"encoding/json"
	"fmt"
	"go/ast"
	"go/parser"
	"go/token"
	"go/types"
	"os"
)

type inPkg struct {
	Path string `json:"path"`
	Src  string `json:"src"`
}

type outField struct {
	Name     string `json:"name"`
	Embedded bool   `json:"embedded"`
	Tag      string `json:"tag"`
	Exported bool   `json:"exported"`
	Pkg      string `json:"pkg"`
}

type outStruct struct {
	Pkg    string     `json:"pkg"`
	Obj    string     `json:"obj"`
	Kind   string     `json:"kind"` // named, alias, var, instance
	Fields []outField `json:"fields"`
	Hash   uint32     `json:"hash"`
	Origin int        `json:"origin"` // for instances: index of the generic origin's struct, else -1
}

type mapImporter map[string]*types.Package

func (m mapImporter) Import(path string) (*types.Package, error) {
	if p, ok := m[path]; ok {
		return p, nil
	}
	return nil, fmt.Errorf("unknown package %q", path)
}

func main() {
	var in []inPkg
	if err := json.NewDecoder(os.Stdin).Decode(&in); err != nil {
		fmt.Fprintln(os.Stderr, err)
		os.Exit(2)
	}
	fset := token.NewFileSet()
	imp := mapImporter{}
	var out []outStruct
	var structs []*types.Struct
	originIdx := map[*types.Named]int{}
	add := func(pkg, obj, kind string, st *types.Struct, origin int) int {
		o := outStruct{Pkg: pkg, Obj: obj, Kind: kind, Hash: typeutil_hash(st), Origin: origin}
		for i := 0; i < st.NumFields(); i++ {
			f := st.Field(i)
			p := ""
			if f.Pkg() != nil {
				p = f.Pkg().Path()
			}
			o.Fields = append(o.Fields, outField{f.Name(), f.Embedded(), st.Tag(i), f.Exported(), p})
		}
		out = append(out, o)
		structs = append(structs, st)
		return len(out) - 1
	}
	for _, ip := range in {
		f, err := parser.ParseFile(fset, ip.Path+"/a.go", ip.Src, 0)
		if err != nil {
			fmt.Fprintln(os.Stderr, err)
			os.Exit(2)
		}
		conf := types.Config{Importer: imp}
		pkg, err := conf.Check(ip.Path, fset, []*ast.File{f}, nil)
		if err != nil {
			fmt.Fprintln(os.Stderr, "typecheck:", err)
			os.Exit(2)
		}
		imp[ip.Path] = pkg
		scope := pkg.Scope()
		for _, name := range scope.Names() {
			switch obj := scope.Lookup(name).(type) {
			case *types.TypeName:
				t := obj.Type()
				if al, ok := t.(*types.Alias); ok {
					u := types.Unalias(al)
					if named, ok := u.(*types.Named); ok && named.TypeArgs().Len() > 0 {
						if st, ok := named.Underlying().(*types.Struct); ok {
							oi, ok2 := originIdx[named.Origin()]
							if !ok2 {
								oi = -1
							}
							add(ip.Path, name, "instance", st, oi)
						}
					} else if st, ok := u.Underlying().(*types.Struct); ok {
						add(ip.Path, name, "alias", st, -1)
					}
					continue
				}
				if named, ok := t.(*types.Named); ok {
					if st, ok := named.Origin().Underlying().(*types.Struct); ok {
						originIdx[named.Origin()] = add(ip.Path, name, "named", st, -1)
					}
				}
			case *types.Var:
				if st, ok := obj.Type().(*types.Struct); ok {
					add(ip.Path, name, "var", st, -1)
				}
			}
		}
	}
	var ident [][2]int
	for i := range structs {
		for j := i + 1; j < len(structs); j++ {
			if types.IdenticalIgnoreTags(structs[i], structs[j]) {
				ident = append(ident, [2]int{i, j})
			}
		}
	}
	json.NewEncoder(os.Stdout).Encode(map[string]any{"structs": out, "identical": ident})
}
