module verif/typeutil

go 1.26
