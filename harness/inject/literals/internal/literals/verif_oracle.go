//go:build verif

package literals

import (
	"bytes"
	"encoding/hex"
	"go/ast"
	"go/printer"
	"go/token"
	mathrand "math/rand"
)

// VerifCase is one obfuscator run: the emitted block as Go source, the external keys it may
// reference, and the plaintext it must decode to.
type VerifCase struct {
	Obf   string       `json:"obf"`
	Seed  int64        `json:"seed"`
	Data  string       `json:"data"` // hex
	Block string       `json:"block"`
	Keys  []VerifExtKey `json:"keys"`
}

type VerifExtKey struct {
	Name  string `json:"name"`
	Typ   string `json:"typ"`
	Value uint64 `json:"value"`
	Bits  int    `json:"bits"`
}

var verifObfNames = []string{"simple", "swap", "split", "shuffle", "seed"}

// VerifObfuscate runs obfuscator number idx on data with a generator seeded by seed.
func VerifObfuscate(idx int, seed int64, data []byte) VerifCase {
	rnd := mathrand.New(mathrand.NewSource(seed))
	keys := randExtKeys(rnd)
	orig := bytes.Clone(data)
	block := Obfuscators[idx].obfuscate(rnd, bytes.Clone(data), keys)
	var buf bytes.Buffer
	fset := token.NewFileSet()
	if err := printer.Fprint(&buf, fset, &ast.BlockStmt{List: block.List}); err != nil {
		panic(err)
	}
	c := VerifCase{Obf: verifObfNames[idx], Seed: seed, Data: hex.EncodeToString(orig), Block: buf.String()}
	for _, k := range keys {
		c.Keys = append(c.Keys, VerifExtKey{k.name, k.typ, k.value, k.bits})
	}
	return c
}

// VerifPick reports which obfuscator set a literal of the given size draws from.
func VerifPick(size int) (expensive bool) { return size <= MaxSizeExpensive }

func VerifConsts() map[string]int {
	return map[string]int{"MinSize": MinSize, "MaxSize": MaxSize, "MaxSizeExpensive": MaxSizeExpensive,
		"minStringJunkBytes": minStringJunkBytes, "maxStringJunkBytes": maxStringJunkBytes,
		"nObfuscators": len(Obfuscators), "nCheap": len(CheapObfuscators)}
}
