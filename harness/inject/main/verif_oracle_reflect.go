//go:build verif

package main

import (
	"go/ast"
	"go/parser"
	"go/token"
	"go/types"
	"sort"
)

// verifTypeDump describes a types.Type the way /verif's Model/TypeClosure.v reads it; it is the
// oracle's own traversal of go/types, independent of reflect.go.
func verifTypeDump(t types.Type, pkg *types.Package) map[string]any {
	switch t := t.(type) {
	case *types.Alias:
		return map[string]any{"kind": "alias", "rhs": verifTypeDump(t.Rhs(), pkg)}
	case *types.Named:
		if t.Obj().Pkg() == nil {
			return map[string]any{"kind": "leaf"}
		}
		return map[string]any{"kind": "named", "name": t.Origin().Obj().Name()}
	case *types.Struct:
		var fields []map[string]any
		for i := range t.NumFields() {
			f := t.Field(i)
			fields = append(fields, map[string]any{"name": f.Name(), "type": verifTypeDump(f.Type(), pkg)})
		}
		return map[string]any{"kind": "struct", "fields": fields}
	case *types.Pointer:
		return map[string]any{"kind": "elem", "elem": verifTypeDump(t.Elem(), pkg)}
	case *types.Slice:
		return map[string]any{"kind": "elem", "elem": verifTypeDump(t.Elem(), pkg)}
	case *types.Array:
		return map[string]any{"kind": "elem", "elem": verifTypeDump(t.Elem(), pkg)}
	case *types.Chan:
		return map[string]any{"kind": "elem", "elem": verifTypeDump(t.Elem(), pkg)}
	case *types.Map:
		return map[string]any{"kind": "map", "key": verifTypeDump(t.Key(), pkg), "elem": verifTypeDump(t.Elem(), pkg)}
	case *types.Signature:
		var ps, rs []map[string]any
		for i := range t.Params().Len() {
			ps = append(ps, verifTypeDump(t.Params().At(i).Type(), pkg))
		}
		for i := range t.Results().Len() {
			rs = append(rs, verifTypeDump(t.Results().At(i).Type(), pkg))
		}
		return map[string]any{"kind": "func", "params": ps, "results": rs}
	}
	return map[string]any{"kind": "leaf"}
}

// verifReflClosure type-checks src (package p, no imports) and runs the real
// recursivelyRecordUsedForReflect on the declared type named root.
func verifReflClosure(src, root string) map[string]any {
	fset := token.NewFileSet()
	f, err := parser.ParseFile(fset, "p.go", src, 0)
	if err != nil {
		return map[string]any{"err": err.Error()}
	}
	pkg, err := (&types.Config{}).Check("example.com/p", fset, []*ast.File{f}, nil)
	if err != nil {
		return map[string]any{"err": err.Error()}
	}
	lpkg := &listedPackage{ImportPath: "example.com/p", Name: "p", ToObfuscate: true}
	sharedCache.ListedPackages.set(lpkg.ImportPath, lpkg)
	ri := &reflectInspector{lpkg: lpkg, pkg: pkg, result: pkgCache{ReflectAPIs: map[string]map[int]bool{}, ReflectObjectNames: map[string]string{}}}
	obj := pkg.Scope().Lookup(root)
	if obj == nil {
		return map[string]any{"err": "no such type " + root}
	}
	ri.recursivelyRecordUsedForReflect(obj.Type())
	seen := map[string]bool{}
	var recorded []string
	for _, orig := range ri.result.ReflectObjectNames {
		if !seen[orig] {
			seen[orig] = true
			recorded = append(recorded, orig)
		}
	}
	sort.Strings(recorded)
	decls := map[string]any{}
	for _, name := range pkg.Scope().Names() {
		tn, ok := pkg.Scope().Lookup(name).(*types.TypeName)
		if !ok {
			continue
		}
		if named, ok := tn.Type().(*types.Named); ok {
			decls[name] = verifTypeDump(named.Origin().Underlying(), pkg)
		}
	}
	return map[string]any{"recorded": recorded, "root": verifTypeDump(obj.Type(), pkg), "underlying": decls}
}

// verifCheckSource type-checks one file as the package with the given import path.
func verifCheckSource(src, path string) (*types.Package, error) {
	fset := token.NewFileSet()
	f, err := parser.ParseFile(fset, "p.go", src, 0)
	if err != nil {
		return nil, err
	}
	return (&types.Config{}).Check(path, fset, []*ast.File{f}, nil)
}
