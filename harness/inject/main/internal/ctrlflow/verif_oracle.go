//go:build verif

// Add-only oracle for /verif: dumps the block graph of SSA functions before and after one of the
// control-flow passes.  Never compiled without the `verif` build tag, never committed to /repo.
package ctrlflow

import (
	"go/ast"
	"go/constant"
	"go/parser"
	"go/token"
	"go/types"
	mathrand "math/rand"
	"sort"

	"golang.org/x/tools/go/ssa"
	"golang.org/x/tools/go/ssa/ssautil"
)

type VerifBlock struct {
	ID      int      `json:"id"`
	Comment string   `json:"comment"`
	Term    string   `json:"term"` // jump, if, return, panic, none
	Succs   []int    `json:"succs"`
	Preds   []int    `json:"preds"`
	Body    []string `json:"body"`            // instructions before the terminator, printed
	PhiInts []int64  `json:"phi_ints"`        // constant edges of a leading phi (nil when not all constants)
	CmpOp   string   `json:"cmp_op,omitempty"`  // the block's condition is  phi OP constant
	CmpInt  int64    `json:"cmp_int,omitempty"` // that constant
	CmpPhi  bool     `json:"cmp_phi,omitempty"` // X of that comparison is a phi
	CmpPhiBlock int  `json:"cmp_phi_block"`     // block of that phi, -1 if none
}

type VerifFunc struct {
	Name   string       `json:"name"`
	Before []VerifBlock `json:"before"`
	After  []VerifBlock `json:"after"` // in ssaFunc.Blocks order
	Info   [][2]int64   `json:"info"`  // flatten: (StoreVar, CompareVar) per edge
	Ok     bool         `json:"ok"`    // pass-specific return value
	Panic  string       `json:"panic,omitempty"`
}

func verifDumpBlocks(fn *ssa.Function, ids map[*ssa.BasicBlock]int) []VerifBlock {
	for _, b := range fn.Blocks {
		if _, ok := ids[b]; !ok {
			ids[b] = len(ids)
		}
	}
	id := func(b *ssa.BasicBlock) int {
		if b == nil {
			return -1
		}
		if i, ok := ids[b]; ok {
			return i
		}
		return -2 // a block that is not in fn.Blocks
	}
	constInt := func(v ssa.Value) (int64, bool) {
		c, ok := v.(*ssa.Const)
		if !ok || c.Value == nil || c.Value.Kind() != constant.Int {
			return 0, false
		}
		return c.Int64(), true
	}
	var out []VerifBlock
	for _, b := range fn.Blocks {
		vb := VerifBlock{ID: id(b), Comment: b.Comment, Term: "none", Succs: []int{}, Preds: []int{}, Body: []string{}, CmpPhiBlock: -1}
		for _, s := range b.Succs {
			vb.Succs = append(vb.Succs, id(s))
		}
		for _, p := range b.Preds {
			vb.Preds = append(vb.Preds, id(p))
		}
		for i, instr := range b.Instrs {
			last := i == len(b.Instrs)-1
			switch x := instr.(type) {
			case *ssa.Jump:
				if last {
					vb.Term = "jump"
					continue
				}
			case *ssa.If:
				if last {
					vb.Term = "if"
					if bo, ok := x.Cond.(*ssa.BinOp); ok {
						if c, ok := constInt(bo.Y); ok {
							if phi, ok := bo.X.(*ssa.Phi); ok {
								vb.CmpOp, vb.CmpInt, vb.CmpPhi = bo.Op.String(), c, true
								for _, ob := range fn.Blocks {
									for _, oi := range ob.Instrs {
										if oi == ssa.Instruction(phi) {
											vb.CmpPhiBlock = id(ob)
										}
									}
								}
							}
						}
					}
					continue
				}
			case *ssa.Return:
				if last {
					vb.Term = "return"
					continue
				}
			case *ssa.Panic:
				if last {
					vb.Term = "panic"
					continue
				}
			case *ssa.Phi:
				if i == 0 {
					all := len(x.Edges) > 0
					var ints []int64
					for _, e := range x.Edges {
						c, ok := constInt(e)
						if !ok {
							all = false
							break
						}
						ints = append(ints, c)
					}
					if all {
						vb.PhiInts = ints
					}
				}
			}
			// printed form without the value name of block-index-dependent operands
			switch x := instr.(type) {
			case *ssa.Phi:
				vb.Body = append(vb.Body, "phi/"+x.Comment)
			case *ssa.BinOp:
				if _, ok := x.X.(*ssa.Phi); ok {
					vb.Body = append(vb.Body, "binop-on-phi "+x.Op.String())
				} else {
					vb.Body = append(vb.Body, instr.String())
				}
			default:
				if instr == nil {
					vb.Body = append(vb.Body, "<nil>")
				} else if _, ok := instr.(ssa.Value); ok || true {
					vb.Body = append(vb.Body, verifSafeString(instr))
				}
			}
		}
		out = append(out, vb)
	}
	return out
}

func verifSafeString(i ssa.Instruction) (s string) {
	defer func() {
		if recover() != nil {
			s = "<unprintable>"
		}
	}()
	return i.String()
}

// VerifDump parses src (one file, no imports), builds SSA like garble does, and for every function
// dumps its blocks before and after the named pass run with a generator seeded with seed.
//   pass: "flatten", "junk:<count>", "split", "trash:<count>"
func VerifDump(src string, seed int64, pass string, count int) (res []VerifFunc, err error) {
	fset := token.NewFileSet()
	f, err := parser.ParseFile(fset, "p.go", src, parser.ParseComments)
	if err != nil {
		return nil, err
	}
	pkg := types.NewPackage("p", f.Name.Name)
	ssaPkg, _, err := ssautil.BuildPackage(&types.Config{}, fset, pkg, []*ast.File{f}, 0)
	if err != nil {
		return nil, err
	}
	var names []string
	for name, m := range ssaPkg.Members {
		if _, ok := m.(*ssa.Function); ok && name != "init" {
			names = append(names, name)
		}
	}
	sort.Strings(names)
	for _, name := range names {
		fn := ssaPkg.Members[name].(*ssa.Function)
		if len(fn.Blocks) == 0 {
			continue
		}
		vf := VerifFunc{Name: name}
		ids := map[*ssa.BasicBlock]int{}
		vf.Before = verifDumpBlocks(fn, ids)
		func() {
			defer func() {
				if e := recover(); e != nil {
					vf.Panic = "panic"
				}
			}()
			r := mathrand.New(mathrand.NewSource(seed))
			switch pass {
			case "flatten":
				info := applyFlattening(fn, r)
				vf.Ok = info != nil
				for _, c := range info {
					vf.Info = append(vf.Info, [2]int64{c.StoreVar.(*ssa.Const).Int64(), c.CompareVar.(*ssa.Const).Int64()})
				}
			case "junk":
				addJunkBlocks(fn, count, r)
				vf.Ok = true
			case "split":
				vf.Ok = applySplitting(fn, r)
			case "trash":
				addTrashBlockMarkers(fn, count, r)
				vf.Ok = true
			}
		}()
		vf.After = verifDumpBlocks(fn, ids)
		res = append(res, vf)
	}
	return res, nil
}
