//go:build verif

// Add-only oracle for /verif: dumps the block graph of SSA functions before and after each of a
// sequence of control-flow passes.  Never compiled without the `verif` build tag, never committed
// to /repo.
package ctrlflow

import (
	"go/ast"
	"go/constant"
	"go/parser"
	"go/token"
	"go/types"
	mathrand "math/rand"
	"sort"
	"strings"

	"golang.org/x/tools/go/ssa"
	"golang.org/x/tools/go/ssa/ssautil"
)

type VerifInstr struct {
	ID    int      `json:"id"`
	Kind  string   `json:"kind"`            // phi, binop, other
	Edges []*int64 `json:"edges,omitempty"` // phi: constant int edges (null = not a constant int)
	Text  string   `json:"text,omitempty"`
}

type VerifBlock struct {
	ID      int          `json:"id"`
	Comment string       `json:"comment"`
	Term    string       `json:"term"` // jump, if, return, panic, none
	TermID  int          `json:"term_id"`
	Succs   []int        `json:"succs"`
	Preds   []int        `json:"preds"`
	Instrs  []VerifInstr `json:"instrs"` // without the terminator
	// the condition of an `if` terminator when it is  phi OP constant-int  computed in this block
	CondInstr int    `json:"cond_instr"` // id of that BinOp, -1 otherwise
	CondPhi   int    `json:"cond_phi"`
	CondOp    string `json:"cond_op,omitempty"`
	CondInt   int64  `json:"cond_int"`
}

type VerifStage struct {
	Pass   string       `json:"pass"`
	Ok     bool         `json:"ok"`
	Panic  string       `json:"panic,omitempty"`
	Blocks []VerifBlock `json:"blocks"` // in ssaFunc.Blocks order
	Info   [][2]int64   `json:"info,omitempty"`
}

type VerifFunc struct {
	Name   string       `json:"name"`
	Stages []VerifStage `json:"stages"` // stage 0 = "initial"
}

type verifIDs struct {
	blocks map[*ssa.BasicBlock]int
	instrs map[ssa.Instruction]int
}

func (v *verifIDs) block(b *ssa.BasicBlock) int {
	if b == nil {
		return -1
	}
	if i, ok := v.blocks[b]; ok {
		return i
	}
	v.blocks[b] = len(v.blocks)
	return v.blocks[b]
}

func (v *verifIDs) instr(i ssa.Instruction) int {
	if id, ok := v.instrs[i]; ok {
		return id
	}
	v.instrs[i] = len(v.instrs)
	return v.instrs[i]
}

func verifConstInt(v ssa.Value) (int64, bool) {
	c, ok := v.(*ssa.Const)
	if !ok || c.Value == nil || c.Value.Kind() != constant.Int {
		return 0, false
	}
	return c.Int64(), true
}

func verifSafeString(i ssa.Instruction) (s string) {
	defer func() {
		if recover() != nil {
			s = "<unprintable>"
		}
	}()
	return i.String()
}

func verifDumpBlocks(fn *ssa.Function, ids *verifIDs) []VerifBlock {
	for _, b := range fn.Blocks {
		ids.block(b)
	}
	var out []VerifBlock
	for _, b := range fn.Blocks {
		vb := VerifBlock{ID: ids.block(b), Comment: b.Comment, Term: "none", TermID: -1, Succs: []int{}, Preds: []int{}, Instrs: []VerifInstr{}, CondInstr: -1, CondPhi: -1}
		for _, s := range b.Succs {
			vb.Succs = append(vb.Succs, ids.block(s))
		}
		for _, p := range b.Preds {
			vb.Preds = append(vb.Preds, ids.block(p))
		}
		for i, instr := range b.Instrs {
			last := i == len(b.Instrs)-1
			if last {
				switch x := instr.(type) {
				case *ssa.Jump:
					vb.Term, vb.TermID = "jump", ids.instr(instr)
					continue
				case *ssa.If:
					vb.Term, vb.TermID = "if", ids.instr(instr)
					if bo, ok := x.Cond.(*ssa.BinOp); ok && bo.Block() == b || ok && verifIn(b, bo) {
						if c, ok := verifConstInt(bo.Y); ok {
							if phi, ok := bo.X.(*ssa.Phi); ok {
								vb.CondInstr, vb.CondPhi, vb.CondOp, vb.CondInt = ids.instr(bo), ids.instr(phi), bo.Op.String(), c
							}
						}
					}
					continue
				case *ssa.Return:
					vb.Term, vb.TermID = "return", ids.instr(instr)
					continue
				case *ssa.Panic:
					vb.Term, vb.TermID = "panic", ids.instr(instr)
					continue
				}
			}
			vi := VerifInstr{ID: ids.instr(instr), Kind: "other"}
			switch x := instr.(type) {
			case *ssa.Phi:
				vi.Kind = "phi"
				for _, e := range x.Edges {
					if c, ok := verifConstInt(e); ok {
						cc := c
						vi.Edges = append(vi.Edges, &cc)
					} else {
						vi.Edges = append(vi.Edges, nil)
					}
				}
			case *ssa.BinOp:
				vi.Kind = "binop"
			}
			if s := verifSafeString(instr); !strings.Contains(s, "phi") {
				vi.Text = s
			}
			vb.Instrs = append(vb.Instrs, vi)
		}
		out = append(out, vb)
	}
	return out
}

func verifIn(b *ssa.BasicBlock, i ssa.Instruction) bool {
	for _, x := range b.Instrs {
		if x == i {
			return true
		}
	}
	return false
}

// VerifDump parses src (one file, no imports), builds SSA like garble does, and for every function
// applies the named passes one after the other with one generator seeded with seed, dumping the
// blocks after each.  passes: "flatten", "junk" (one junk jump), "split", "trash" (one trash block).
func VerifDump(src string, seed int64, passes []string) (res []VerifFunc, err error) {
	fset := token.NewFileSet()
	f, err := parser.ParseFile(fset, "p.go", src, parser.ParseComments)
	if err != nil {
		return nil, err
	}
	pkg := types.NewPackage("p", f.Name.Name)
	ssaPkg, _, err := ssautil.BuildPackage(&types.Config{}, fset, pkg, []*ast.File{f}, 0)
	if err != nil {
		return nil, err
	}
	var fns []*ssa.Function
	for name, m := range ssaPkg.Members {
		if fn, ok := m.(*ssa.Function); ok && name != "init" {
			fns = append(fns, fn)
		}
		if t, ok := m.(*ssa.Type); ok {
			for _, typ := range []types.Type{t.Type(), types.NewPointer(t.Type())} {
				ms := ssaPkg.Prog.MethodSets.MethodSet(typ)
				for i := 0; i < ms.Len(); i++ {
					if fn := ssaPkg.Prog.MethodValue(ms.At(i)); fn != nil && fn.Synthetic == "" {
						fns = append(fns, fn)
					}
				}
			}
		}
	}
	sort.Slice(fns, func(i, j int) bool { return fns[i].String() < fns[j].String() })
	seen := map[*ssa.Function]bool{}
	for _, fn := range fns {
		if len(fn.Blocks) == 0 || seen[fn] {
			continue
		}
		seen[fn] = true
		vf := VerifFunc{Name: fn.String()}
		ids := &verifIDs{blocks: map[*ssa.BasicBlock]int{}, instrs: map[ssa.Instruction]int{}}
		vf.Stages = append(vf.Stages, VerifStage{Pass: "initial", Ok: true, Blocks: verifDumpBlocks(fn, ids)})
		r := mathrand.New(mathrand.NewSource(seed))
		for _, pass := range passes {
			st := VerifStage{Pass: pass}
			func() {
				defer func() {
					if e := recover(); e != nil {
						st.Panic = "panic"
					}
				}()
				switch pass {
				case "flatten":
					info := applyFlattening(fn, r)
					st.Ok = info != nil
					for _, c := range info {
						st.Info = append(st.Info, [2]int64{c.StoreVar.(*ssa.Const).Int64(), c.CompareVar.(*ssa.Const).Int64()})
					}
				case "junk":
					addJunkBlocks(fn, 1, r)
					st.Ok = true
				case "split":
					st.Ok = applySplitting(fn, r)
				case "trash":
					addTrashBlockMarkers(fn, 1, r)
					st.Ok = true
				}
			}()
			st.Blocks = verifDumpBlocks(fn, ids)
			vf.Stages = append(vf.Stages, st)
			if st.Panic != "" {
				break
			}
		}
		res = append(res, vf)
	}
	return res, nil
}
