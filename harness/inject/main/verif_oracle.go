//go:build verif

// Add-only oracle for /verif: exposes unexported functions of package main over a JSON-lines
// protocol when GARBLE_VERIF_ORACLE is set.  Never compiled without the `verif` build tag and
// never committed to /repo: it is dropped into a scratch copy of the working tree by the checks.
package main

import (
	"bufio"
	"bytes"
	"go/ast"
	"go/importer"
	"go/parser"
	"go/token"
	"go/types"
	"path/filepath"
	"encoding/hex"
	"encoding/json"
	"fmt"
	"os"
	"slices"
	"strings"

	"mvdan.cc/garble/internal/ctrlflow"
	"mvdan.cc/garble/internal/literals"
)

type verifReq struct {
	Op   string   `json:"op"`
	Salt string   `json:"salt,omitempty"` // hex
	Seed string   `json:"seed,omitempty"` // hex
	Name string   `json:"name,omitempty"`
	In   string   `json:"in,omitempty"` // hex
	Args []string `json:"args,omitempty"`
	S    string   `json:"s,omitempty"`
	S2   string   `json:"s2,omitempty"`

	Pkgs []verifPkg `json:"pkgs,omitempty"`
	Cur  string     `json:"cur,omitempty"`

	Literals bool   `json:"literals,omitempty"`
	Tiny     bool   `json:"tiny,omitempty"`
	Ctrlflow bool   `json:"ctrlflow,omitempty"`
	Gogarble string `json:"gogarble,omitempty"`
	BinaryID string `json:"binary_id,omitempty"` // hex
	TestObf  string `json:"testobf,omitempty"`
}

type verifPkg struct {
	Path     string   `json:"path"`
	Name     string   `json:"name"`
	ToObf    bool     `json:"to_obf"`
	Imports  []string `json:"imports"`
	Standard bool     `json:"standard"`
	ActionID string   `json:"aid"` // hex, 15 bytes
}

// verifSetPkgs fills sharedCache.ListedPackages from the request and returns the current package.
func verifSetPkgs(r *verifReq) *listedPackage {
	var cur *listedPackage
	for _, p := range r.Pkgs {
		lp := &listedPackage{Name: p.Name, ImportPath: p.Path, ToObfuscate: p.ToObf, Imports: p.Imports, Standard: p.Standard}
		if p.ActionID != "" {
			lp.GarbleActionID = addGarbleToHash(verifHex(p.ActionID))
		}
		sharedCache.ListedPackages.set(p.Path, lp)
		if p.Path == r.Cur {
			cur = lp
		}
	}
	return cur
}

type verifFunc struct {
	Name      string   `json:"name"`
	File      string   `json:"file"`
	Calls     []string `json:"calls"`
	Builtin   bool     `json:"builtin_print"` // still contains a call of the print/println builtins
	RawStderr bool     `json:"raw_stderr"`    // calls write(2, ...) directly
}

func verifStripRuntime(paths []string) []verifFunc {
	var out []verifFunc
	fs := token.NewFileSet()
	var files []*ast.File
	for _, path := range paths {
		file, err := parser.ParseFile(fs, path, nil, parser.SkipObjectResolution)
		if err != nil {
			panic(err)
		}
		stripRuntime(filepath.Base(path), file)
		files = append(files, file)
	}
	// resolve callees with go/types (errors tolerated: the stripped runtime need not type-check fully)
	info := &types.Info{Uses: map[*ast.Ident]types.Object{}, Selections: map[*ast.SelectorExpr]*types.Selection{}}
	conf := types.Config{Importer: importer.ForCompiler(fs, "source", nil), Error: func(error) {}, FakeImportC: true}
	conf.Check("runtime", fs, files, info)
	funcName := func(f *types.Func) string {
		sig, _ := f.Type().(*types.Signature)
		if sig != nil && sig.Recv() != nil {
			t := sig.Recv().Type()
			if p, ok := t.(*types.Pointer); ok {
				t = p.Elem()
			}
			if n, ok := t.(*types.Named); ok {
				return n.Obj().Name() + "." + f.Name()
			}
			return "?." + f.Name()
		}
		return f.Name()
	}
	for i, file := range files {
		base := filepath.Base(paths[i])
		for _, d := range file.Decls {
			fd, ok := d.(*ast.FuncDecl)
			if !ok {
				continue
			}
			vf := verifFunc{Name: fd.Name.Name, File: base}
			if fd.Recv != nil && len(fd.Recv.List) == 1 {
				t := fd.Recv.List[0].Type
				if st, ok := t.(*ast.StarExpr); ok {
					t = st.X
				}
				if ix, ok := t.(*ast.IndexExpr); ok {
					t = ix.X
				}
				if id, ok := t.(*ast.Ident); ok {
					vf.Name = id.Name + "." + fd.Name.Name
				}
			}
			seen := map[string]bool{}
			if fd.Body != nil {
				ast.Inspect(fd.Body, func(n ast.Node) bool {
					call, ok := n.(*ast.CallExpr)
					if !ok {
						return true
					}
					name := ""
					switch f := call.Fun.(type) {
					case *ast.Ident:
						if f.Name == "print" || f.Name == "println" {
							if _, isBuiltin := info.Uses[f].(*types.Builtin); isBuiltin || info.Uses[f] == nil {
								vf.Builtin = true
							}
						}
						if fn, ok := info.Uses[f].(*types.Func); ok && fn.Pkg() != nil && fn.Pkg().Name() == "runtime" {
							name = funcName(fn)
						}
						if f.Name == "write" && len(call.Args) > 0 {
							if bl, ok := call.Args[0].(*ast.BasicLit); ok && bl.Value == "2" {
								vf.RawStderr = true
							}
						}
					case *ast.SelectorExpr:
						if sel := info.Selections[f]; sel != nil {
							if fn, ok := sel.Obj().(*types.Func); ok && fn.Pkg() != nil && fn.Pkg().Name() == "runtime" {
								name = funcName(fn)
							}
						}
					}
					if name != "" && !seen[name] {
						seen[name] = true
						vf.Calls = append(vf.Calls, name)
					}
					return true
				})
			}
			out = append(out, vf)
		}
	}
	return out
}

func verifHex(s string) []byte {
	b, err := hex.DecodeString(s)
	if err != nil {
		panic(err)
	}
	return b
}

func init() {
	if os.Getenv("GARBLE_VERIF_ORACLE") == "" {
		return
	}
	in := bufio.NewReaderSize(os.Stdin, 1<<20)
	out := bufio.NewWriter(os.Stdout)
	defer out.Flush()
	dec := json.NewDecoder(in)
	enc := json.NewEncoder(out)
	for dec.More() {
		var r verifReq
		if err := dec.Decode(&r); err != nil {
			fmt.Fprintln(os.Stderr, "oracle:", err)
			out.Flush()
			os.Exit(3)
		}
		enc.Encode(verifHandle(&r))
	}
	out.Flush()
	os.Exit(0)
}

func verifSetCfg(r *verifReq) {
	flagLiterals = r.Literals
	flagTiny = r.Tiny
	flagControlFlow = r.Ctrlflow
	flagSeed = seedFlag{bytes: verifHex(r.Seed)}
	literals.TestObfuscator = r.TestObf
	sharedCache = &sharedCacheType{ListedPackages: newListedPackages()}
	sharedCache.GOGARBLE = r.Gogarble
	sharedCache.BinaryContentID = verifHex(r.BinaryID)
}

func verifHandle(r *verifReq) (resp map[string]any) {
	resp = map[string]any{}
	defer func() {
		if e := recover(); e != nil {
			resp = map[string]any{"panic": fmt.Sprint(e)}
		}
	}()
	switch r.Op {
	case "hash":
		flagSeed = seedFlag{bytes: verifHex(r.Seed)}
		resp["out"] = hashWithCustomSalt(verifHex(r.Salt), r.Name)
	case "addgarble":
		verifSetCfg(r)
		sum := addGarbleToHash(verifHex(r.In))
		resp["out"] = hex.EncodeToString(sum[:])
	case "hashpkg":
		// hashWithPackage on a package with the given import path (S) and Go action ID (In)
		verifSetCfg(r)
		lpkg := &listedPackage{ImportPath: r.S}
		lpkg.GarbleActionID = addGarbleToHash(verifHex(r.In))
		resp["out"] = hashWithPackage(lpkg, r.Name)
	case "linkname":
		verifSetCfg(r)
		tf := &transformer{curPkg: verifSetPkgs(r)}
		l, n := tf.transformLinkname(r.S, r.S2)
		resp["local"], resp["new"] = l, n
	case "asmnames":
		verifSetCfg(r)
		tf := &transformer{curPkg: verifSetPkgs(r)}
		var buf bytes.Buffer
		tf.replaceAsmNames(&buf, []byte(r.S))
		resp["out"] = buf.String()
	case "ipath":
		verifSetCfg(r)
		resp["out"] = verifSetPkgs(r).obfuscatedImportPath()
	case "litobf":
		// In = plaintext (hex), Name = obfuscator index, Salt = generator seed (decimal in S)
		var idx int
		fmt.Sscan(r.Name, &idx)
		var seed int64
		fmt.Sscan(r.S, &seed)
		resp["case"] = literals.VerifObfuscate(idx, seed, verifHex(r.In))
	case "litconsts":
		resp["consts"] = literals.VerifConsts()
	case "stripruntime":
		// Args = runtime source files; returns, per function of the -tiny stripped runtime, what it calls
		resp["funcs"] = verifStripRuntime(r.Args)
	case "seedset":
		var f seedFlag
		// seedFlag.Set prints a warning to stderr for long seeds; harmless here.
		if err := f.Set(r.S); err != nil {
			resp["err"] = true
		} else {
			resp["out"] = hex.EncodeToString(f.bytes)
		}
	case "split":
		flags, args := splitFlagsFromArgs(slices.Clone(r.Args))
		resp["flags"] = append([]string{}, flags...)
		resp["args"] = append([]string{}, args...)
	case "filter":
		filtered, unknown := filterForwardBuildFlags(slices.Clone(r.Args))
		resp["flags"] = append([]string{}, filtered...)
		resp["unknown"] = unknown
	case "flagvalue":
		resp["out"] = flagValue(r.Args, r.S)
	case "flagsetvalue":
		resp["flags"] = flagSetValue(slices.Clone(r.Args), r.S, r.S2)
	case "hashelp":
		resp["out"] = hasHelpFlag(r.Args)
	case "cfdump":
		// S = Go source, Args = pass names in order, Name = generator seed (decimal)
		var seed int64
		fmt.Sscan(r.Name, &seed)
		funcs, err := ctrlflow.VerifDump(r.S, seed, r.Args)
		if err != nil {
			resp["err"] = err.Error()
		} else {
			resp["funcs"] = funcs
		}
	case "linkvars":
		// S = Go source of one package (no imports), S2 = its import path, Args[0] = the -ldflags value
		pkgv, err2 := verifCheckSource(r.S, r.S2)
		if err2 != nil {
			resp["err"] = err2.Error()
			break
		}
		sharedCache = &sharedCacheType{ListedPackages: newListedPackages()}
		sharedCache.ForwardBuildFlags = []string{"-ldflags=" + r.Args[0]}
		m, err2 := computeLinkerVariableStrings(pkgv)
		if err2 != nil {
			resp["err"] = err2.Error()
			break
		}
		vars := map[string]string{}
		for v, val := range m {
			vars[v.Name()] = val
		}
		resp["vars"] = vars
	case "translink":
		// Args = the linker's flags and arguments (without -importcfg); runs the real transformLink on an empty importcfg
		verifSetCfg(r)
		cur := verifSetPkgs(r)
		tmp, err := os.MkdirTemp("", "verif-link")
		if err != nil {
			resp["err"] = err.Error()
			break
		}
		defer os.RemoveAll(tmp)
		sharedTempDir = tmp
		cfg := filepath.Join(tmp, "importcfg.in")
		os.WriteFile(cfg, []byte("# import config\n"), 0o666)
		tf := &transformer{curPkg: cur}
		out, err := tf.transformLink(append([]string{"-importcfg=" + cfg}, r.Args...))
		if err != nil {
			resp["err"] = err.Error()
			break
		}
		for i, a := range out {
			if strings.HasPrefix(a, "-importcfg=") {
				out[i] = "-importcfg=CFG"
			}
		}
		resp["flags"] = out
	case "reflclosure":
		// S = Go source (package p, no imports), Name = root type, Seed as usual
		verifSetCfg(r)
		for k, v := range verifReflClosure(r.S, r.Name) {
			resp[k] = v
		}
	case "rxgarble":
		resp["out"] = rxGarbleFlag.MatchString(r.S)
	default:
		resp["err"] = "unknown op " + r.Op
	}
	return resp
}
