module verif/cachefault

go 1.26

require github.com/rogpeppe/go-internal v1.15.0
