// cachefault drives the content-addressed cache garble uses (rogpeppe/go-internal/cache, same
// version as /repo's go.mod) through fault sequences applied to the files of one entry, and
// reports what GetFile answers.  Input: JSON [{data: hex, faults: [[kind, n]...]}].
package main

import (
	"crypto/sha256"
	"encoding/hex"
	"encoding/json"
	"fmt"
	"os"
	"path/filepath"

	"github.com/rogpeppe/go-internal/cache"
)

type fcase struct {
	Data   string  `json:"data"`
	Faults [][]any `json:"faults"`
}

func main() {
	var cases []fcase
	if err := json.NewDecoder(os.Stdin).Decode(&cases); err != nil {
		panic(err)
	}
	root, err := os.MkdirTemp("", "cachefault")
	if err != nil {
		panic(err)
	}
	defer os.RemoveAll(root)
	var out []map[string]any
	for n, c := range cases {
		dir := filepath.Join(root, fmt.Sprint(n))
		os.MkdirAll(dir, 0o777)
		ch, err := cache.Open(dir)
		if err != nil {
			panic(err)
		}
		data, _ := hex.DecodeString(c.Data)
		id := sha256.Sum256([]byte(fmt.Sprint("id", n)))
		if err := ch.PutBytes(id, data); err != nil {
			panic(err)
		}
		// locate the two files of the entry
		var idx, dat string
		filepath.Walk(dir, func(p string, info os.FileInfo, err error) error {
			if err == nil && !info.IsDir() {
				if filepath.Ext(p) == "" && len(p) > 2 {
					switch p[len(p)-2:] {
					case "-a":
						idx = p
					case "-d":
						dat = p
					}
				}
			}
			return nil
		})
		for _, f := range c.Faults {
			kind := f[0].(string)
			nn := 0
			if len(f) > 1 {
				nn = int(f[1].(float64))
			}
			switch kind {
			case "DelIndex":
				os.Remove(idx)
			case "DelData":
				os.Remove(dat)
			case "EmptyIndex":
				if _, err := os.Stat(idx); err == nil {
					os.Truncate(idx, 0)
				}
			case "EmptyData":
				if _, err := os.Stat(dat); err == nil {
					os.Truncate(dat, 0)
				}
			case "TruncIndex":
				if st, err := os.Stat(idx); err == nil {
					os.Truncate(idx, int64(min(nn, max(int(st.Size())-1, 0))))
				}
			case "TruncData":
				if st, err := os.Stat(dat); err == nil {
					os.Truncate(dat, int64(min(nn, max(int(st.Size())-1, 0))))
				}
			}
		}
		res := map[string]any{}
		if file, _, err := ch.GetFile(id); err != nil {
			res["hit"] = false
		} else {
			b, rerr := os.ReadFile(file)
			res["hit"] = rerr == nil
			res["data"] = hex.EncodeToString(b)
		}
		out = append(out, res)
	}
	json.NewEncoder(os.Stdout).Encode(out)
}
