module verif/objmap

go 1.26

require golang.org/x/tools v0.48.0
