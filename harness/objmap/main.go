// objmap pairs every identifier of a module's original source with the identifier at the same
// position in garble's -debugdir output, and reports per declared object: its kind, object path
// and every obfuscated spelling it received anywhere in the module (declaration and all uses,
// in every package).  Used by C13/C01/C02/C16.
package main

import (
	"encoding/json"
	"fmt"
	"go/ast"
	"go/importer"
	"go/parser"
	"go/token"
	"go/types"
	"os"
	"path/filepath"
	"sort"
	"strings"

	"golang.org/x/tools/go/types/objectpath"
)

type inPkg struct {
	Path  string   `json:"path"`
	Files []string `json:"files"` // base names
}

type input struct {
	DebugDir string  `json:"debugdir"`
	Packages []inPkg `json:"packages"` // dependency order
}

type objRec struct {
	Pkg       string   `json:"pkg"`
	Name      string   `json:"name"`
	Kind      string   `json:"kind"`
	Exported  bool     `json:"exported"`
	PkgLevel  bool     `json:"pkg_level"`
	ObjPath   string   `json:"objpath"`
	DeclName  string   `json:"decl_garbled"`
	Garbled   []string `json:"garbled"` // all spellings seen (decl + uses), sorted
	Uses      int      `json:"uses"`
	UsedFrom  []string `json:"used_from"`
	Embedded  bool     `json:"embedded"`
	HasRecv   bool     `json:"has_recv"`
	StructIdx int      `json:"struct_idx"`
	DeclPos   string   `json:"decl_pos"`
	TestSig   bool     `json:"test_sig"`
	Struct    [][2]any `json:"struct_fields"` // for fields: (name, embedded) of every field of the containing (origin) struct
	EmbTName  string   `json:"embedded_tname"` // for embedded fields: the type name object used for the field
	EmbTPkg   string   `json:"embedded_tpkg"`
}

func namedType(t types.Type) *types.TypeName {
	switch t := t.(type) {
	case *types.Alias:
		return t.Obj()
	case *types.Named:
		return t.Obj()
	case *types.Pointer:
		return namedType(t.Elem())
	}
	return nil
}

func isTestSig(sign *types.Signature) bool {
	if sign.Recv() != nil || sign.Params().Len() != 1 {
		return false
	}
	tn := namedType(sign.Params().At(0).Type())
	return tn != nil && tn.Pkg() != nil && tn.Pkg().Path() == "testing" && tn.Name() == "T"
}

// collectStructs maps every origin field to the struct type that declares it.
func collectStructs(t types.Type, done map[types.Type]bool, out map[*types.Var]*types.Struct) {
	if t == nil || done[t] {
		return
	}
	done[t] = true
	switch t := t.(type) {
	case *types.Alias:
		collectStructs(t.Rhs(), done, out)
	case *types.Named:
		collectStructs(t.Origin().Underlying(), done, out)
		for i := 0; i < t.TypeArgs().Len(); i++ {
			collectStructs(t.TypeArgs().At(i), done, out)
		}
	case *types.Pointer:
		collectStructs(t.Elem(), done, out)
	case *types.Slice:
		collectStructs(t.Elem(), done, out)
	case *types.Array:
		collectStructs(t.Elem(), done, out)
	case *types.Chan:
		collectStructs(t.Elem(), done, out)
	case *types.Map:
		collectStructs(t.Key(), done, out)
		collectStructs(t.Elem(), done, out)
	case *types.Signature:
		collectStructs(t.Params(), done, out)
		collectStructs(t.Results(), done, out)
	case *types.Tuple:
		for i := 0; i < t.Len(); i++ {
			collectStructs(t.At(i).Type(), done, out)
		}
	case *types.Struct:
		for i := 0; i < t.NumFields(); i++ {
			f := t.Field(i)
			if f.Origin() == f {
				if _, ok := out[f]; !ok {
					out[f] = t
				}
			}
			collectStructs(f.Type(), done, out)
		}
	}
}

type chainImporter struct {
	m   map[string]*types.Package
	src types.Importer
}

func (c chainImporter) Import(path string) (*types.Package, error) {
	if p, ok := c.m[path]; ok {
		return p, nil
	}
	return c.src.Import(path)
}

func idents(f *ast.File) []*ast.Ident {
	var out []*ast.Ident
	ast.Inspect(f, func(n ast.Node) bool {
		switch n := n.(type) {
		case *ast.ImportSpec:
			return false
		case *ast.Ident:
			if n != f.Name {
				out = append(out, n)
			}
		}
		return true
	})
	return out
}

func main() {
	var in input
	if err := json.NewDecoder(os.Stdin).Decode(&in); err != nil {
		fmt.Fprintln(os.Stderr, err)
		os.Exit(2)
	}
	fset := token.NewFileSet()
	imp := chainImporter{m: map[string]*types.Package{}, src: importer.ForCompiler(fset, "source", nil)}
	fieldStruct := map[*types.Var]*types.Struct{}
	doneTypes := map[types.Type]bool{}
	recs := map[types.Object]*objRec{}
	seen := map[types.Object]map[string]bool{}
	usedFrom := map[types.Object]map[string]bool{}
	var order []types.Object
	var problems []string
	var enc objectpath.Encoder
	note := func(obj types.Object, garbled, from string, decl bool, declPos string) {
		if obj == nil || obj.Pkg() == nil {
			return
		}
		switch o := obj.(type) {
		case *types.Var:
			obj = o.Origin()
		case *types.Func:
			obj = o.Origin()
		}
		if _, ok := imp.m[obj.Pkg().Path()]; !ok {
			return // declared outside the module
		}
		r := recs[obj]
		if r == nil {
			r = &objRec{Pkg: obj.Pkg().Path(), Name: obj.Name(), Exported: obj.Exported()}
			switch o := obj.(type) {
			case *types.Var:
				r.Kind = "var"
				if o.IsField() {
					r.Kind = "field"
					r.Embedded = o.Embedded()
					if st := fieldStruct[o]; st != nil {
						for i := 0; i < st.NumFields(); i++ {
							r.Struct = append(r.Struct, [2]any{st.Field(i).Name(), st.Field(i).Embedded()})
						}
					}
					if o.Embedded() {
						if tn := namedType(o.Type()); tn != nil {
							r.EmbTName = tn.Name()
							if tn.Pkg() != nil {
								r.EmbTPkg = tn.Pkg().Path()
							}
						}
					}
				}
			case *types.TypeName:
				r.Kind = "type"
			case *types.Func:
				r.Kind = "func"
				r.TestSig = isTestSig(o.Signature())
				if o.Signature().Recv() != nil {
					r.Kind = "method"
					r.HasRecv = true
				}
			case *types.Const:
				r.Kind = "const"
			case *types.PkgName:
				r.Kind = "pkgname"
			case *types.Label:
				r.Kind = "label"
			default:
				r.Kind = "other"
			}
			r.PkgLevel = obj.Parent() == obj.Pkg().Scope()
			if p, err := enc.For(obj); err == nil {
				r.ObjPath = string(p)
			}
			recs[obj] = r
			seen[obj] = map[string]bool{}
			usedFrom[obj] = map[string]bool{}
			order = append(order, obj)
		}
		seen[obj][garbled] = true
		if decl {
			r.DeclName = garbled
			r.DeclPos = declPos
		} else {
			r.Uses++
			usedFrom[obj][from] = true
		}
	}
	for _, ip := range in.Packages {
		var files []*ast.File
		var gfiles []*ast.File
		for _, base := range ip.Files {
			op := filepath.Join(in.DebugDir, "source", filepath.FromSlash(ip.Path), base)
			gp := filepath.Join(in.DebugDir, "garbled", filepath.FromSlash(ip.Path), base)
			of, err := parser.ParseFile(fset, op, nil, parser.SkipObjectResolution)
			if err != nil {
				fmt.Fprintln(os.Stderr, "parse original:", err)
				os.Exit(2)
			}
			gf, err := parser.ParseFile(fset, gp, nil, parser.SkipObjectResolution)
			if err != nil {
				fmt.Fprintln(os.Stderr, "parse garbled:", err)
				os.Exit(2)
			}
			files = append(files, of)
			gfiles = append(gfiles, gf)
		}
		info := &types.Info{Defs: map[*ast.Ident]types.Object{}, Uses: map[*ast.Ident]types.Object{}, Types: map[ast.Expr]types.TypeAndValue{}}
		conf := types.Config{Importer: imp}
		pkg, err := conf.Check(ip.Path, fset, files, info)
		if err != nil {
			fmt.Fprintln(os.Stderr, "typecheck:", err)
			os.Exit(2)
		}
		imp.m[ip.Path] = pkg
		for _, tv := range info.Types {
			collectStructs(tv.Type, doneTypes, fieldStruct)
		}
		for _, obj := range info.Defs {
			if obj != nil {
				collectStructs(obj.Type(), doneTypes, fieldStruct)
			}
		}
		for i, of := range files {
			oi, gi := idents(of), idents(gfiles[i])
			if len(gi) < len(oi) {
				problems = append(problems, fmt.Sprintf("%s/%s: garbled file has fewer identifiers (%d < %d)", ip.Path, ip.Files[i], len(gi), len(oi)))
				continue
			}
			for k, id := range oi {
				g := gi[k].Name
				if obj := info.Defs[id]; obj != nil {
					note(obj, g, ip.Path, true, fset.Position(id.Pos()).String())
				} else if obj := info.Uses[id]; obj != nil {
					note(obj, g, ip.Path, false, "")
				}
			}
		}
	}
	var out []*objRec
	for _, obj := range order {
		r := recs[obj]
		for g := range seen[obj] {
			r.Garbled = append(r.Garbled, g)
		}
		sort.Strings(r.Garbled)
		for f := range usedFrom[obj] {
			r.UsedFrom = append(r.UsedFrom, f)
		}
		sort.Strings(r.UsedFrom)
		out = append(out, r)
	}
	_ = strings.Join
	json.NewEncoder(os.Stdout).Encode(map[string]any{"objects": out, "problems": problems})
}
