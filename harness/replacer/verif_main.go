// Harness for C08(a): compiled together with /repo's reflect_abi_code.go copied unmodified.
// Reads JSON cases {pairs: [hex...], inputs: [hex...]} and prints, per input, the output of the
// injected replacer and of strings.NewReplacer.
package main

import (
	"encoding/hex"
	"encoding/json"
	"os"
	"strings"
)

type rcase struct {
	Pairs  []string `json:"pairs"`
	Inputs []string `json:"inputs"`
}

func unhex(s string) string {
	b, err := hex.DecodeString(s)
	if err != nil {
		panic(err)
	}
	return string(b)
}

func main() {
	var cases []rcase
	if err := json.NewDecoder(os.Stdin).Decode(&cases); err != nil {
		panic(err)
	}
	var out [][][2]string
	for _, c := range cases {
		pairs := make([]string, len(c.Pairs))
		for i, p := range c.Pairs {
			pairs[i] = unhex(p)
		}
		mine := _makeGenericReplacer(pairs)
		std := strings.NewReplacer(pairs...)
		var res [][2]string
		for _, in := range c.Inputs {
			s := unhex(in)
			res = append(res, [2]string{hex.EncodeToString([]byte(mine.Replace(s))), hex.EncodeToString([]byte(std.Replace(s)))})
		}
		out = append(out, res)
	}
	json.NewEncoder(os.Stdout).Encode(out)
}
