module verif/replacer

go 1.26
