#include "textflag.h"
#include "go_asm.h"

// func Add(a, b int64) int64
TEXT ·Add(SB),NOSPLIT,$0-24
	MOVQ a+0(FP), AX
	ADDQ b+8(FP), AX
	MOVQ AX, ret+16(FP)
	RET

// func addArgs(p *Args) int64
TEXT ·addArgs(SB),NOSPLIT,$0-16
	MOVQ p+0(FP), BX
	MOVQ Args_A(BX), AX
	ADDQ Args_B(BX), AX
	MOVQ AX, ret+8(FP)
	RET

// func AddViaGo(a, b int64) int64
TEXT ·AddViaGo(SB),$24-24
	MOVQ a+0(FP), AX
	MOVQ AX, 0(SP)
	MOVQ b+8(FP), BX
	MOVQ BX, 8(SP)
	CALL example·com∕corp2∕asmlib·helperFromAsm(SB)
	MOVQ 16(SP), AX
	MOVQ AX, ret+16(FP)
	RET
