package asmlib

// Args is read from assembly through go_asm.h offsets.
type Args struct {
	A int64
	B int64
}

// Add is implemented in add_amd64.s.
func Add(a, b int64) int64

func addArgs(p *Args) int64

func helperFromAsm(a, b int64) int64 { return a*10 + b }

// AddViaGo calls a Go function from assembly.
func AddViaGo(a, b int64) int64

func FieldOffsets() int64 { return addArgs(&Args{A: 5, B: 6}) }
