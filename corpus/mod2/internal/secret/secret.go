package secret

var counter = 11

var Channel = "stable-channel-default"

func greet(name string) string {
	counter++
	return "hello " + name
}

func Public() string { return greet("pub") }
