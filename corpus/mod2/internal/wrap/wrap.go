// Package wrap reaches reflection only through encoding/json: it does not import reflect itself.
package wrap

import "encoding/json"

// Encode hands its argument to a reflecting API of another package.
func Encode(v any) string {
	b, err := json.Marshal(v)
	if err != nil {
		return "error: " + err.Error()
	}
	return string(b)
}
