package main

import (
	"fmt"
	_ "unsafe"

	"example.com/corp2/asmlib"
	"example.com/corp2/internal/secret"
	"example.com/corp2/internal/wrap"
)

// settings reaches reflection only through wrap.Encode, two packages away from reflect
type settings struct {
	Name    string
	Port    int
	Verbose bool
}

var version = "dev-build-default"

//go:linkname linkedGreet example.com/corp2/internal/secret.greet
func linkedGreet(name string) string

//go:linkname linkedCounter example.com/corp2/internal/secret.counter
var linkedCounter int

func main() {
	fmt.Println(asmlib.Add(40, 2), asmlib.AddViaGo(1, 2), asmlib.FieldOffsets())
	fmt.Println(linkedGreet("x"), secret.Public(), linkedCounter)
	fmt.Println("version:", version, "channel:", secret.Channel)
	fmt.Println(wrap.Encode(settings{"svc", 8080, true}))
}
