module example.com/corp2

go 1.26
