//go:build narrowscope

package main

import (
	"fmt"

	sh "example.com/corp/shapes"
)

func anonConv() {
	conv := sh.Point{X: 7, Y: 8}
	fmt.Println(conv.X+conv.Y, sh.Origin.Norm1(), sh.Named(conv).Norm1())
}
