package shapes

type Point struct{ X, Y int }

type Named Point

type Alias = Point

type Rect struct {
	Min, Max Alias
}

var Origin = Named{}

func (p Point) Norm1() int { return abs(p.X) + abs(p.Y) }

func (n Named) Norm1() int { return Point(n).Norm1() * 2 }

func abs(v int) int {
	if v < 0 {
		return -v
	}
	return v
}

func Area(r Rect) int { return (r.Max.X - r.Min.X) * (r.Max.Y - r.Min.Y) }

func Converted(v struct{ X, Y int }) Point { return Point(v) }
