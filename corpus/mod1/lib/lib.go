package lib

import (
	"sort"
	"strings"
)

type registry struct {
	names []string
	seen  map[string]bool
}

var defaultRegistry = &registry{seen: map[string]bool{}}

var initOrder []string

func init() { initOrder = append(initOrder, "lib-first") }
func init() { initOrder = append(initOrder, "lib-second") }

func (r *registry) add(name string) {
	if r.seen[name] {
		return
	}
	r.seen[name] = true
	r.names = append(r.names, name)
}

func Register(name string) { defaultRegistry.add(name) }

func Registered() string {
	out := append([]string(nil), defaultRegistry.names...)
	sort.Strings(out)
	return strings.Join(out, "+") + "/" + strings.Join(initOrder, ">")
}

type summer interface {
	sum([]int) int
}

type plainSummer struct{ bias int }

func (p plainSummer) sum(xs []int) int {
	t := p.bias
	for _, x := range xs {
		t += x
	}
	return t
}

func Total(xs []int) int {
	var s summer = plainSummer{bias: 100}
	return s.sum(xs)
}

const describePrefix = "lib:"

func Describe() string { return describePrefix + helperUnexported(3) }

func helperUnexported(n int) string { return strings.Repeat("ab", n) }
