package iface

import "fmt"

type Animal interface {
	Sound() string
	volume() int
}

type dog struct{ name string }

func NewDog(name string) Animal { return &dog{name: name} }
func (d *dog) Sound() string   { return d.name + ":woof" }
func (d *dog) volume() int     { return 7 }

type cat struct{}

func NewCat() Animal       { return cat{} }
func (cat) Sound() string  { return "meow" }
func (cat) volume() int    { return 3 }

func Loudest(as []Animal) string {
	best := as[0]
	for _, a := range as[1:] {
		if a.volume() > best.volume() {
			best = a
		}
	}
	return best.Sound()
}

type eater interface{ eat(n int) string }

func (d *dog) eat(n int) string { return fmt.Sprintf("%s ate %d", d.name, n) }

func Feed(a Animal, n int) string {
	if e, ok := a.(eater); ok {
		return e.eat(n)
	}
	return "not hungry"
}
