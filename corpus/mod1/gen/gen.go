package gen

type Pair[L, R any] struct {
	Left  L
	Right R
}

func (p Pair[L, R]) Swap() Pair[R, L] { return Pair[R, L]{Left: p.Right, Right: p.Left} }

func Map[T, U any](xs []T, f func(T) U) []U {
	out := make([]U, 0, len(xs))
	for _, x := range xs {
		out = append(out, f(x))
	}
	return out
}

type number interface{ ~int | ~float64 }

func Sum[T number](xs []T) T {
	var t T
	for _, x := range xs {
		t += x
	}
	return t
}

type Stack[T any] struct{ items []T }

func NewStack[T any]() *Stack[T] { return &Stack[T]{} }

func (s *Stack[T]) Push(v T) { s.items = append(s.items, v) }

func (s *Stack[T]) Pop() (T, bool) {
	var zero T
	if len(s.items) == 0 {
		return zero, false
	}
	v := s.items[len(s.items)-1]
	s.items = s.items[:len(s.items)-1]
	return v, true
}

func (s *Stack[T]) Len() int { return len(s.items) }
