package pkg

import "example.com/corp/lib"

func init() { lib.Register("dotted") }

var unusedButKept = 42
