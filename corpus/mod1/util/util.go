package util

func Twice(n int) int { return n * 2 }

func Clamp(v, lo, hi int) int {
	if v < lo {
		return lo
	}
	if v > hi {
		return hi
	}
	return v
}

// Names that garble treats specially when they are declared in particular standard library
// packages (embed.FS, atomic.align64, reflect.Method/MethodByName, pkix's *SET types).
// Declared here, in an ordinary package, they are ordinary names.
type FS struct{ rootSET string }

type align64 struct{ padRESET int }

type ItemSET []int

type memberSET struct{ ownerTokenSET int }

var CounterRESET = 3

var ledgerOFFSET = 4

func Method(f FS) string { return f.rootSET }

func MethodByName(a ItemSET) int { return len(a) + (align64{padRESET: 1}).padRESET }

func computeVaultOFFSET(m memberSET) int { return m.ownerTokenSET + ledgerOFFSET }

func (m memberSET) rotateLedgerSET() int { return m.ownerTokenSET * 2 }

func TrapSum() int {
	m := memberSET{ownerTokenSET: 5}
	return computeVaultOFFSET(m) + m.rotateLedgerSET() + MethodByName(ItemSET{1, 2}) + len(Method(FS{rootSET: "r"})) + CounterRESET
}
