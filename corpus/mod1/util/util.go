package util

func Twice(n int) int { return n * 2 }

func Clamp(v, lo, hi int) int {
	if v < lo {
		return lo
	}
	if v > hi {
		return hi
	}
	return v
}
