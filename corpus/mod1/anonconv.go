//go:build !narrowscope

package main

import (
	"fmt"

	sh "example.com/corp/shapes"
)

// an anonymous struct type shared with another package: its field names are hashed by shape in
// obfuscated packages, so it only works when both sides of the call are obfuscated (or neither)
func anonConv() {
	conv := sh.Converted(struct{ X, Y int }{7, 8})
	fmt.Println(conv.X+conv.Y, sh.Origin.Norm1(), sh.Named(conv).Norm1())
}
