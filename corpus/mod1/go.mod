module example.com/corp

go 1.26
