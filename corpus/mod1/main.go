package main

import (
	"errors"
	"fmt"
	"os"
	"strings"

	_ "example.com/corp/dotted.name/pkg"
	"example.com/corp/gen"
	"example.com/corp/iface"
	"example.com/corp/lib"
	sh "example.com/corp/shapes"
	. "example.com/corp/util"
)

type localState struct {
	counter int
	label   string
	sh.Point
}

func (s *localState) bump(by int) int {
	s.counter += by
	return s.counter
}

func (s localState) String() string { return fmt.Sprintf("%s=%d@%d,%d", s.label, s.counter, s.X, s.Y) }

var errSentinel = errors.New("sentinel")

func classify(v any) string {
	switch t := v.(type) {
	case nil:
		return "nil"
	case int:
		return "int:" + fmt.Sprint(t+1)
	case string:
		return "string:" + strings.ToUpper(t)
	case fmt.Stringer:
		return "stringer:" + t.String()
	case error:
		return "error:" + t.Error()
	default:
		return "other"
	}
}

func loops(n int) (total int) {
outer:
	for i := 0; i < n; i++ {
		for j := 0; j < n; j++ {
			if j > i {
				continue outer
			}
			if i*j > 20 {
				break outer
			}
			total += i * j
		}
	}
	return total
}

func init() {
	lib.Register("main-init")
}

func main() {
	st := &localState{label: "st", Point: sh.Point{X: 1, Y: 2}}
	bump := st.bump
	bump(2)
	f := (*localState).bump
	f(st, 3)
	fmt.Println(st, classify(st), classify(7), classify("abc"), classify(errSentinel), classify(nil), classify(3.5))
	fmt.Println(loops(6), Twice(21), Clamp(15, 0, 10), TrapSum())
	fmt.Println(lib.Describe(), lib.Total([]int{1, 2, 3}), lib.Registered())
	var a iface.Animal = iface.NewDog("rex")
	fmt.Println(a.Sound(), iface.Loudest([]iface.Animal{a, iface.NewCat()}), iface.Feed(a, 3))
	p := gen.Pair[int, string]{Left: 4, Right: "four"}
	fmt.Println(p.Swap().Left, gen.Map([]int{1, 2, 3}, func(i int) string { return strings.Repeat("x", i) }), gen.Sum([]float64{1.5, 2.5}))
	st2 := gen.NewStack[sh.Point]()
	st2.Push(sh.Point{X: 3, Y: 4})
	st2.Push(sh.Point{X: 5, Y: 6})
	top, _ := st2.Pop()
	fmt.Println(top.Norm1(), st2.Len(), sh.Area(sh.Rect{Min: sh.Point{}, Max: top}))
	anonConv()
	if len(os.Args) > 1 {
		fmt.Println("args:", strings.Join(os.Args[1:], ","), Twice(len(os.Args)))
		if os.Args[1] == "fail" {
			os.Exit(3)
		}
	}
	defer func() {
		if r := recover(); r != nil {
			fmt.Println("recovered:", r)
			os.Exit(4)
		}
	}()
	if len(os.Args) > 1 && os.Args[1] == "panic" {
		var m map[string]int
		m["x"] = 1
	}
}
