module verif/sites

go 1.26

require golang.org/x/tools v0.48.0

require (
	golang.org/x/mod v0.38.0 // indirect
	golang.org/x/sync v0.22.0 // indirect
)
