// sites inventories, over the type-checked garble packages, every place where the obfuscator's
// output could depend on something other than its inputs: `range` over a map, package-level
// math/rand functions, crypto/rand, time.Now, os.Getpid.  Each map range is classified by the
// shape of its body.  Usage: sites <dir of garble source copy> <outdir>
package main

import (
	"encoding/json"
	"fmt"
	"go/ast"
	"go/token"
	"go/types"
	"os"
	"path/filepath"
	"sort"
	"strings"

	"golang.org/x/tools/go/packages"
)

type site struct {
	Where string `json:"where"` // pkg.func:kind:n
	Kind  string `json:"kind"`
	Class string `json:"class"`
	Pos   string `json:"pos"`
}

func isMapIndexAssign(s ast.Stmt, info *types.Info) bool {
	switch s := s.(type) {
	case *ast.AssignStmt:
		for _, l := range s.Lhs {
			ix, ok := l.(*ast.IndexExpr)
			if !ok {
				if id, ok := l.(*ast.Ident); ok && id.Name == "_" {
					continue
				}
				return false
			}
			if _, ok := info.TypeOf(ix.X).Underlying().(*types.Map); !ok {
				return false
			}
		}
		return true
	case *ast.ExprStmt:
		if call, ok := s.X.(*ast.CallExpr); ok {
			if id, ok := call.Fun.(*ast.Ident); ok && id.Name == "delete" {
				return true
			}
			// method calls on a map-typed accumulator such as x.CopyFrom are not recognised: order-sensitive
		}
	case *ast.IncDecStmt:
		if ix, ok := s.X.(*ast.IndexExpr); ok {
			_, isMap := info.TypeOf(ix.X).Underlying().(*types.Map)
			return isMap
		}
	case *ast.BranchStmt:
		return s.Tok == token.CONTINUE
	case *ast.IfStmt:
		if s.Init != nil && !isPureDefine(s.Init) {
			return false
		}
		for _, b := range s.Body.List {
			if !isMapIndexAssign(b, info) {
				return false
			}
		}
		if s.Else != nil {
			if blk, ok := s.Else.(*ast.BlockStmt); ok {
				for _, b := range blk.List {
					if !isMapIndexAssign(b, info) {
						return false
					}
				}
			} else if !isMapIndexAssign(s.Else, info) {
				return false
			}
		}
		return true
	}
	return false
}

func isPureDefine(s ast.Stmt) bool {
	a, ok := s.(*ast.AssignStmt)
	return ok && a.Tok == token.DEFINE
}

// appendsOnlyTo returns the slice variable name when the body consists solely of `v = append(v, ...)`.
func appendsOnlyTo(body *ast.BlockStmt) string {
	name := ""
	for _, s := range body.List {
		if is, ok := s.(*ast.IfStmt); ok && is.Else == nil && is.Init == nil {
			n := appendsOnlyTo(is.Body)
			if n == "" || (name != "" && n != name) {
				return ""
			}
			name = n
			continue
		}
		a, ok := s.(*ast.AssignStmt)
		if !ok || len(a.Lhs) != 1 || len(a.Rhs) != 1 {
			return ""
		}
		id, ok := a.Lhs[0].(*ast.Ident)
		call, ok2 := a.Rhs[0].(*ast.CallExpr)
		if !ok || !ok2 {
			return ""
		}
		fn, ok := call.Fun.(*ast.Ident)
		if !ok || fn.Name != "append" || len(call.Args) < 2 {
			return ""
		}
		if first, ok := call.Args[0].(*ast.Ident); !ok || first.Name != id.Name {
			return ""
		}
		if name != "" && name != id.Name {
			return ""
		}
		name = id.Name
	}
	return name
}

func sortedLater(fn *ast.FuncDecl, after token.Pos, name string) bool {
	found := false
	ast.Inspect(fn, func(n ast.Node) bool {
		call, ok := n.(*ast.CallExpr)
		if !ok || call.Pos() < after {
			return true
		}
		sel, ok := call.Fun.(*ast.SelectorExpr)
		if !ok {
			return true
		}
		pkg, ok := sel.X.(*ast.Ident)
		if !ok || (pkg.Name != "slices" && pkg.Name != "sort") || !strings.HasPrefix(sel.Sel.Name, "Sort") && sel.Sel.Name != "Strings" && sel.Sel.Name != "Ints" && sel.Sel.Name != "Slice" {
			return true
		}
		if len(call.Args) > 0 {
			if id, ok := call.Args[0].(*ast.Ident); ok && id.Name == name {
				found = true
			}
		}
		return true
	})
	return found
}

func main() {
	dir, outdir := os.Args[1], os.Args[2]
	cfg := &packages.Config{Mode: packages.NeedName | packages.NeedFiles | packages.NeedSyntax | packages.NeedTypes | packages.NeedTypesInfo | packages.NeedImports | packages.NeedDeps, Dir: dir}
	pkgs, err := packages.Load(cfg, ".", "./internal/literals", "./internal/ctrlflow", "./internal/ssa2ast", "./internal/asthelper")
	if err != nil {
		fmt.Fprintln(os.Stderr, "load:", err)
		os.Exit(1)
	}
	var sites []site
	for _, pkg := range pkgs {
		if len(pkg.Errors) > 0 {
			fmt.Fprintln(os.Stderr, "package errors:", pkg.Errors[0])
			os.Exit(1)
		}
		short := pkg.PkgPath[strings.LastIndex(pkg.PkgPath, "/")+1:]
		for _, file := range pkg.Syntax {
			fname := filepath.Base(pkg.Fset.Position(file.Pos()).Filename)
			if strings.HasSuffix(fname, "_test.go") || strings.HasSuffix(fname, "_gen.go") || fname == "bench_test.go" {
				continue
			}
			for _, d := range file.Decls {
				fd, ok := d.(*ast.FuncDecl)
				if !ok || fd.Body == nil {
					continue
				}
				counter := map[string]int{}
				add := func(kind, class string, pos token.Pos) {
					counter[kind]++
					sites = append(sites, site{Where: fmt.Sprintf("%s/%s:%s:%s#%d", short, fname, fd.Name.Name, kind, counter[kind]), Kind: kind, Class: class,
						Pos: fmt.Sprintf("%s:%d", fname, pkg.Fset.Position(pos).Line)})
				}
				ast.Inspect(fd.Body, func(n ast.Node) bool {
					switch n := n.(type) {
					case *ast.RangeStmt:
						t := pkg.TypesInfo.TypeOf(n.X)
						if t == nil {
							return true
						}
						if _, ok := t.Underlying().(*types.Map); !ok {
							return true
						}
						class := "order-sensitive"
						all := true
						for _, s := range n.Body.List {
							if !isMapIndexAssign(s, pkg.TypesInfo) {
								all = false
							}
						}
						if all {
							class = "commutative"
						} else if v := appendsOnlyTo(n.Body); v != "" && sortedLater(fd, n.End(), v) {
							class = "sorted-before-use"
						} else if n.Key == nil && n.Value == nil {
							class = "commutative"
						}
						add("maprange", class, n.Pos())
					case *ast.CallExpr:
						sel, ok := n.Fun.(*ast.SelectorExpr)
						if !ok {
							return true
						}
						id, ok := sel.X.(*ast.Ident)
						if !ok {
							return true
						}
						if pn, ok := pkg.TypesInfo.Uses[id].(*types.PkgName); ok {
							switch pn.Imported().Path() {
							case "math/rand", "math/rand/v2":
								if sel.Sel.Name != "New" && sel.Sel.Name != "NewSource" {
									add("global-rand", "order-sensitive", n.Pos())
								}
							case "time":
								if sel.Sel.Name == "Now" || sel.Sel.Name == "Since" {
									add("clock", "logging-only", n.Pos())
								}
							case "crypto/rand":
								add("crypto-rand", "seed-random-only", n.Pos())
							case "os":
								if sel.Sel.Name == "Getpid" || sel.Sel.Name == "Getwd" || sel.Sel.Name == "Hostname" {
									add("os-"+sel.Sel.Name, "order-sensitive", n.Pos())
								}
							}
						}
					}
					return true
				})
			}
		}
	}
	sort.Slice(sites, func(i, j int) bool { return sites[i].Where < sites[j].Where })
	data, _ := json.MarshalIndent(sites, "", " ")
	os.WriteFile(filepath.Join(outdir, "sites.json"), data, 0o666)
}
