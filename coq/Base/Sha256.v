(* SHA-256 (FIPS 180-4) over byte lists; words are [N] reduced mod 2^32 explicitly.
   Validated against Go's crypto/sha256 by the correspondence stream of C16/C12. *)
From Verif Require Import Base.Bytes.
Open Scope N_scope.

Definition w32 : N := 4294967296.
Definition add32 (a b : N) : N := (a + b) mod w32.
Definition rotr (n x : N) : N := N.lor (N.shiftr x n) (N.shiftl x (32 - n) mod w32).
Definition shr (n x : N) : N := N.shiftr x n.
Definition not32 (x : N) : N := w32 - 1 - x.

Definition ch x y z := N.lxor (N.land x y) (N.land (not32 x) z).
Definition maj x y z := N.lxor (N.lxor (N.land x y) (N.land x z)) (N.land y z).
Definition bsig0 x := N.lxor (N.lxor (rotr 2 x) (rotr 13 x)) (rotr 22 x).
Definition bsig1 x := N.lxor (N.lxor (rotr 6 x) (rotr 11 x)) (rotr 25 x).
Definition ssig0 x := N.lxor (N.lxor (rotr 7 x) (rotr 18 x)) (shr 3 x).
Definition ssig1 x := N.lxor (N.lxor (rotr 17 x) (rotr 19 x)) (shr 10 x).

Definition K : list N :=
 [0x428a2f98; 0x71374491; 0xb5c0fbcf; 0xe9b5dba5; 0x3956c25b; 0x59f111f1; 0x923f82a4; 0xab1c5ed5;
  0xd807aa98; 0x12835b01; 0x243185be; 0x550c7dc3; 0x72be5d74; 0x80deb1fe; 0x9bdc06a7; 0xc19bf174;
  0xe49b69c1; 0xefbe4786; 0x0fc19dc6; 0x240ca1cc; 0x2de92c6f; 0x4a7484aa; 0x5cb0a9dc; 0x76f988da;
  0x983e5152; 0xa831c66d; 0xb00327c8; 0xbf597fc7; 0xc6e00bf3; 0xd5a79147; 0x06ca6351; 0x14292967;
  0x27b70a85; 0x2e1b2138; 0x4d2c6dfc; 0x53380d13; 0x650a7354; 0x766a0abb; 0x81c2c92e; 0x92722c85;
  0xa2bfe8a1; 0xa81a664b; 0xc24b8b70; 0xc76c51a3; 0xd192e819; 0xd6990624; 0xf40e3585; 0x106aa070;
  0x19a4c116; 0x1e376c08; 0x2748774c; 0x34b0bcb5; 0x391c0cb3; 0x4ed8aa4a; 0x5b9cca4f; 0x682e6ff3;
  0x748f82ee; 0x78a5636f; 0x84c87814; 0x8cc70208; 0x90befffa; 0xa4506ceb; 0xbef9a3f7; 0xc67178f2].

Definition H0 : list N :=
 [0x6a09e667; 0xbb67ae85; 0x3c6ef372; 0xa54ff53a; 0x510e527f; 0x9b05688c; 0x1f83d9ab; 0x5be0cd19].

(* padding: message, 0x80, zeros, 64-bit big-endian bit length; total a multiple of 64 *)
Definition be_bytes (n : nat) (v : N) : bytes :=
  rev (fst (fold_left (fun '(acc, x) _ => (acc ++ [x mod 256], x / 256)) (repeat tt n) ([], v))).

Definition pad (m : bytes) : bytes :=
  let l := N.of_nat (length m) in
  let zeros := N.to_nat ((119 - (l mod 64)) mod 64) in
  m ++ [128] ++ repeat 0 zeros ++ be_bytes 8 (l * 8).

Fixpoint words_of (n : nat) (l : bytes) : list N :=
  match n with
  | O => []
  | S n' =>
    match l with
    | a :: b :: c :: d :: l' => (((a * 256 + b) * 256 + c) * 256 + d) :: words_of n' l'
    | _ => []
    end
  end.

(* message schedule: [w] holds the words most recent first *)
Fixpoint schedule_aux (n : nat) (w : list N) : list N :=
  match n with
  | O => w
  | S n' =>
    let x := add32 (add32 (ssig1 (nth 1 w 0)) (nth 6 w 0)) (add32 (ssig0 (nth 14 w 0)) (nth 15 w 0)) in
    schedule_aux n' (x :: w)
  end.
Definition schedule (block : list N) : list N := rev (schedule_aux 48 (rev block)).

Definition round (st : list N) (kw : N * N) : list N :=
  match st with
  | [a; b; c; d; e; f; g; h] =>
    let t1 := add32 (add32 (add32 h (bsig1 e)) (add32 (ch e f g) (fst kw))) (snd kw) in
    let t2 := add32 (bsig0 a) (maj a b c) in
    [add32 t1 t2; a; b; c; add32 d t1; e; f; g]
  | _ => st
  end.

Definition compress (h : list N) (block : list N) : list N :=
  let st := fold_left round (combine K (schedule block)) h in
  map (fun p => add32 (fst p) (snd p)) (combine h st).

Fixpoint blocks (fuel : nat) (l : bytes) : list (list N) :=
  match fuel with
  | O => []
  | S f => match l with [] => [] | _ => words_of 16 l :: blocks f (skipn 64 l) end
  end.

Definition word_bytes (w : N) : bytes :=
  [w / 16777216; (w / 65536) mod 256; (w / 256) mod 256; w mod 256].

Definition sha256 (m : bytes) : bytes :=
  let p := pad m in
  flat_map word_bytes (fold_left compress (blocks (S (Nat.div (length p) 64)) p) H0).

(* FIPS 180-4 test vector "abc" *)
Example sha256_abc : sha256 [97; 98; 99] =
  [0xba;0x78;0x16;0xbf;0x8f;0x01;0xcf;0xea;0x41;0x41;0x40;0xde;0x5d;0xae;0x22;0x23;
   0xb0;0x03;0x61;0xa3;0x96;0x17;0x7a;0x9c;0xb4;0x10;0xff;0x61;0xf2;0x00;0x15;0xad].
Proof. vm_compute. reflexivity. Qed.

Example sha256_empty : firstn 4 (sha256 []) = [0xe3; 0xb0; 0xc4; 0x42].
Proof. vm_compute. reflexivity. Qed.
