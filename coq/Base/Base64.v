(* base64 without padding, URL and standard alphabets (encoding/base64 RawURLEncoding,
   RawStdEncoding, and URLEncoding.WithPadding(NoPadding) which garble uses for names). *)
From Verif Require Import Base.Bytes.
Open Scope N_scope.

(* the 6-bit symbol -> ASCII; [c62] and [c63] are the two alphabet-specific symbols *)
Definition sym (c62 c63 : N) (v : N) : N :=
  if v <? 26 then 65 + v            (* A-Z *)
  else if v <? 52 then 97 + (v - 26) (* a-z *)
  else if v <? 62 then 48 + (v - 52) (* 0-9 *)
  else if v =? 62 then c62 else c63.

Definition url_sym := sym 45 95.  (* '-' '_' *)
Definition std_sym := sym 43 47.  (* '+' '/' *)

Fixpoint encode_with (s : N -> N) (l : bytes) : str :=
  match l with
  | a :: b :: c :: l' =>
      s (a / 4) :: s ((a mod 4) * 16 + b / 16) :: s ((b mod 16) * 4 + c / 64) :: s (c mod 64)
      :: encode_with s l'
  | [a; b] => [s (a / 4); s ((a mod 4) * 16 + b / 16); s ((b mod 16) * 4)]
  | [a] => [s (a / 4); s ((a mod 4) * 16)]
  | [] => []
  end.

Definition encode_url := encode_with url_sym.
Definition encode_std := encode_with std_sym.

(* decoding (for -seed parsing and build IDs) *)
Definition unsym (c62 c63 : N) (c : N) : option N :=
  if in_range 65 90 c then Some (c - 65)
  else if in_range 97 122 c then Some (c - 97 + 26)
  else if in_range 48 57 c then Some (c - 48 + 52)
  else if c =? c62 then Some 62
  else if c =? c63 then Some 63
  else None.

Fixpoint unsyms (u : N -> option N) (l : str) : option (list N) :=
  match l with
  | [] => Some []
  | c :: l' => match u c, unsyms u l' with Some v, Some vs => Some (v :: vs) | _, _ => None end
  end.

(* Go's default (non-strict) decoders: a trailing group of one symbol is an error, unused low
   bits of the last symbol are ignored, and '\r' / '\n' are skipped anywhere. *)
Fixpoint decode_syms (l : list N) : option bytes :=
  match l with
  | a :: b :: c :: d :: l' =>
      match decode_syms l' with
      | Some r => Some ((a * 4 + b / 16) :: ((b mod 16) * 16 + c / 4) :: ((c mod 4) * 64 + d) :: r)
      | None => None
      end
  | [a; b; c] => Some [a * 4 + b / 16; (b mod 16) * 16 + c / 4]
  | [a; b] => Some [a * 4 + b / 16]
  | [_] => None
  | [] => Some []
  end.

Definition decode_with (u : N -> option N) (l : str) : option bytes :=
  match unsyms u (filter (fun c => negb ((c =? 10) || (c =? 13))) l) with Some vs => decode_syms vs | None => None end.

Definition decode_std := decode_with (unsym 43 47).
Definition decode_url := decode_with (unsym 45 95).

Example enc1 : encode_url [0; 16; 131; 255; 255; 254] = [65; 66; 67; 68; 95; 95; 95; 45].
Proof. vm_compute. reflexivity. Qed.
Example dec1 : decode_url [65; 66; 67; 68; 95; 95; 95; 45] = Some [0; 16; 131; 255; 255; 254].
Proof. vm_compute. reflexivity. Qed.
