(* Bytes and byte strings shared by all models.
   A byte is an [N] below 256; a string is a [list N].  Go's [string]/[[]byte] values are
   modelled by these lists, UTF-8 encoded exactly as Go stores them. *)
From Coq Require Export List NArith Bool Lia.
From Coq Require Import ZifyN ZifyNat ZifyBool.
Export ListNotations.
Open Scope N_scope.

Definition bytes := list N.
Definition str := list N.

Definition byte_ok (b : N) : bool := b <? 256.
Definition bytes_ok (l : bytes) : bool := forallb byte_ok l.

Lemma bytes_ok_app a b : bytes_ok (a ++ b) = bytes_ok a && bytes_ok b.
Proof. unfold bytes_ok. apply forallb_app. Qed.

Lemma bytes_ok_Forall l : bytes_ok l = true <-> Forall (fun b => b < 256) l.
Proof.
  unfold bytes_ok. rewrite forallb_forall, Forall_forall. unfold byte_ok.
  split; intros H x Hx; specialize (H x Hx); lia.
Qed.

(* decidable equality on byte strings *)
Fixpoint beq (a b : bytes) : bool :=
  match a, b with
  | [], [] => true
  | x :: a', y :: b' => (x =? y) && beq a' b'
  | _, _ => false
  end.

Lemma beq_eq a b : beq a b = true <-> a = b.
Proof.
  revert b; induction a as [|x a IH]; intros [|y b]; cbn; try (split; congruence).
  rewrite andb_true_iff, N.eqb_eq, IH. split; [intros [-> ->]; reflexivity | intros H; inversion H; auto].
Qed.

Lemma beq_refl a : beq a a = true.
Proof. apply beq_eq; reflexivity. Qed.

Fixpoint is_prefix (p s : bytes) : bool :=
  match p, s with
  | [], _ => true
  | x :: p', y :: s' => (x =? y) && is_prefix p' s'
  | _ :: _, [] => false
  end.

Lemma is_prefix_spec p s : is_prefix p s = true <-> exists t, s = p ++ t.
Proof.
  revert s; induction p as [|x p IH]; intros s; cbn.
  - split; [intros _; exists s; reflexivity | reflexivity].
  - destruct s as [|y s]; [split; [discriminate | intros [t Ht]; discriminate]|].
    rewrite andb_true_iff, N.eqb_eq, IH. split.
    + intros [-> [t ->]]. exists t. reflexivity.
    + intros [t Ht]. inversion Ht. split; [reflexivity | exists t; reflexivity].
Qed.

(* big-endian value of a byte list *)
Definition be_value (l : bytes) : N := fold_left (fun acc b => acc * 256 + b) l 0.

(* little-endian value of the first four bytes *)
Definition le32 (l : bytes) : N :=
  nth 0 l 0 + 256 * nth 1 l 0 + 65536 * nth 2 l 0 + 16777216 * nth 3 l 0.

Definition in_range (lo hi b : N) : bool := (lo <=? b) && (b <=? hi).
