(* Lemmas about Model/Flags.v (C20). *)
From Coq Require Import ZArith ZifyN ZifyNat ZifyBool.
From Verif Require Import Base.Bytes Model.Flags.
Open Scope N_scope.

(* ---------- splitting is a partition of argv, in order ---------- *)
Lemma split_concat_le bools n : forall argv, (length argv <= n)%nat ->
  fst (split_flags bools argv) ++ snd (split_flags bools argv) = argv.
Proof.
  induction n as [|n IH]; intros argv Hl.
  - destruct argv; [reflexivity | cbn in Hl; lia].
  - destruct argv as [|arg rest]; [reflexivity|]. cbn [split_flags].
    destruct (negb (starts_dash arg)); [reflexivity|].
    destruct (mem (norm_dd arg) bools || has_eq arg).
    + specialize (IH rest ltac:(cbn in Hl; lia)).
      destruct (split_flags bools rest) as [f a]. cbn in *. f_equal. exact IH.
    + destruct rest as [|v rest']; [reflexivity|].
      specialize (IH rest' ltac:(cbn in Hl; lia)).
      destruct (split_flags bools rest') as [f a]. cbn in *. do 2 f_equal. exact IH.
Qed.

Theorem split_concat bools argv :
  fst (split_flags bools argv) ++ snd (split_flags bools argv) = argv.
Proof. apply (split_concat_le bools (length argv)). lia. Qed.

(* ---------- agreement with the go command's rule ---------- *)
Lemma has_eq_cut a : has_eq a = match snd (cut_eq a) with Some _ => true | None => false end.
Proof.
  induction a as [|c r IH]; [reflexivity|]. cbn [cut_eq]. unfold has_eq in *. cbn [existsb].
  rewrite (N.eqb_sym EQ c). destruct (c =? EQ); [reflexivity|]. cbn [orb]. rewrite IH.
  destruct (cut_eq r) as [n v]. reflexivity.
Qed.

Lemma cut_eq_noeq a : snd (cut_eq a) = None -> fst (cut_eq a) = a.
Proof.
  induction a as [|c r IH]; [reflexivity|]. cbn [cut_eq]. destruct (c =? EQ); [discriminate|].
  destruct (cut_eq r) as [n v]. cbn in *. intros H. rewrite (IH H). reflexivity.
Qed.

(* a well-formed flag token "-body" or "--body" *)
Lemma flag_token_facts s body :
  flag_body s = Some body -> bad_body body = false ->
  starts_dash s = true /\ norm_dd s = DASH :: body /\ has_eq s = has_eq body.
Proof.
  unfold flag_body, bad_body. intros Hb Hbad.
  destruct s as [|c r]; [discriminate|].
  destruct (c =? DASH) eqn:Ec; [|discriminate]. apply N.eqb_eq in Ec. subst c.
  destruct r as [|c2 r2]; [injection Hb as <-; discriminate|].
  destruct (c2 =? DASH) eqn:Ec2.
  - apply N.eqb_eq in Ec2. subst c2. injection Hb as <-.
    repeat split; reflexivity.
  - injection Hb as <-. repeat split. cbn. rewrite Ec2. reflexivity.
Qed.

Lemma tables_agree_lookup bools defs name b :
  tables_agree bools defs = true -> lookup_def name defs = Some b -> mem (DASH :: name) bools = b.
Proof.
  unfold tables_agree. induction defs as [|[k v] defs IH]; cbn [forallb lookup_def]; [discriminate|].
  rewrite andb_true_iff. intros [H1 H2] Hl. destruct (beq name k) eqn:E.
  - apply beq_eq in E. subst k. injection Hl as <-. cbn in H1. apply Bool.eqb_prop in H1. exact H1.
  - apply IH; assumption.
Qed.

Lemma not_flag_no_dash s : flag_body s = None -> starts_dash s = false.
Proof.
  unfold flag_body, starts_dash. destruct s as [|c r]; [reflexivity|].
  destruct (c =? DASH); [|reflexivity]. destruct r as [|c2 r2]; [discriminate|].
  destruct (c2 =? DASH); discriminate.
Qed.

Lemma split_matches_go_le bools defs n :
  tables_agree bools defs = true ->
  forall argv f a, (length argv <= n)%nat ->
  go_split defs argv = Some (f, a) -> split_flags bools argv = (f, a).
Proof.
  intros Hta. unfold go_split. induction n as [|n IH]; intros argv f a Hl Hg.
  - destruct argv; [|cbn in Hl; lia]. cbn in Hg. injection Hg as <- <-. reflexivity.
  - destruct argv as [|s rest]; [cbn in Hg; injection Hg as <- <-; reflexivity|].
    cbn [go_parse] in Hg. cbn [split_flags].
    destruct (flag_body s) as [body|] eqn:Hfb.
    2:{ injection Hg as <- <-. rewrite (not_flag_no_dash s Hfb). reflexivity. }
    destruct (bad_body body) eqn:Hbad; [discriminate|].
    destruct (flag_token_facts s body Hfb Hbad) as (Hsd & Hnd & Heq).
    rewrite Hsd, Hnd, Heq, has_eq_cut. cbn [negb].
    destruct (cut_eq body) as [name inline] eqn:Hcut. cbn [snd].
    destruct (lookup_def name defs) as [isb|] eqn:Hlk; [|discriminate].
    destruct inline as [v|].
    + (* -name=value *)
      rewrite orb_true_r in Hg. rewrite orb_true_r.
      destruct (go_parse defs rest) as [[ts a']|] eqn:Hr; [|discriminate].
      injection Hg as <- <-.
      rewrite (IH rest (flat_map tok_strs ts) a' ltac:(cbn in Hl; lia)) by (rewrite Hr; reflexivity).
      reflexivity.
    + (* no inline value: body = name *)
      assert (Hname : body = name).
      { pose proof (cut_eq_noeq body) as H. rewrite Hcut in H. cbn in H. symmetry. apply H. reflexivity. }
      subst body. rewrite (tables_agree_lookup bools defs name isb Hta Hlk).
      rewrite orb_false_r in *. destruct isb.
      * destruct (go_parse defs rest) as [[ts a']|] eqn:Hr; [|discriminate].
        injection Hg as <- <-.
        rewrite (IH rest (flat_map tok_strs ts) a' ltac:(cbn in Hl; lia)) by (rewrite Hr; reflexivity).
        reflexivity.
      * destruct rest as [|v rest']; [discriminate|].
        destruct (go_parse defs rest') as [[ts a']|] eqn:Hr; [|discriminate].
        injection Hg as <- <-.
        rewrite (IH rest' (flat_map tok_strs ts) a' ltac:(cbn in Hl; lia)) by (rewrite Hr; reflexivity).
        reflexivity.
Qed.

Theorem split_matches_go bools defs argv f a :
  tables_agree bools defs = true ->
  go_split defs argv = Some (f, a) -> split_flags bools argv = (f, a).
Proof. intros H. apply (split_matches_go_le bools defs (length argv) H). lia. Qed.

(* ---------- tokens produced by go_parse are well formed ---------- *)
Definition tok_wf (defs : list (str * bool)) (t : tok) : Prop :=
  exists body isb,
    flag_body (t_raw t) = Some body /\ bad_body body = false /\
    cut_eq body = (t_name t, t_inline t) /\ lookup_def (t_name t) defs = Some isb /\
    (t_next t = None <-> (isb || match t_inline t with Some _ => true | None => false end) = true).

Lemma go_parse_wf_le defs n : forall argv ts a, (length argv <= n)%nat ->
  go_parse defs argv = Some (ts, a) -> Forall (tok_wf defs) ts.
Proof.
  induction n as [|n IH]; intros argv ts a Hl Hg.
  - destruct argv; [|cbn in Hl; lia]. cbn in Hg. injection Hg as <- <-. constructor.
  - destruct argv as [|s rest]; [cbn in Hg; injection Hg as <- <-; constructor|].
    cbn [go_parse] in Hg.
    destruct (flag_body s) as [body|] eqn:Hfb; [|injection Hg as <- <-; constructor].
    destruct (bad_body body) eqn:Hbad; [discriminate|].
    destruct (cut_eq body) as [name inline] eqn:Hcut.
    destruct (lookup_def name defs) as [isb|] eqn:Hlk; [|discriminate].
    destruct (isb || match inline with Some _ => true | None => false end) eqn:Hb.
    + destruct (go_parse defs rest) as [[ts' a']|] eqn:Hr; [|discriminate].
      injection Hg as <- <-. constructor.
      * exists body, isb. cbn. repeat split; auto.
      * eapply IH; [|exact Hr]. cbn in Hl. lia.
    + destruct rest as [|v rest']; [discriminate|].
      destruct (go_parse defs rest') as [[ts' a']|] eqn:Hr; [|discriminate].
      injection Hg as <- <-. constructor.
      * exists body, isb. cbn. apply orb_false_iff in Hb as [Hb1 Hb2]. destruct inline; [discriminate|].
        repeat split; auto; try discriminate. intros H. rewrite Hb1 in H. discriminate.
      * eapply IH; [|exact Hr]. cbn in Hl. lia.
Qed.

Lemma go_parse_wf defs argv ts a : go_parse defs argv = Some (ts, a) -> Forall (tok_wf defs) ts.
Proof. apply (go_parse_wf_le defs (length argv)). lia. Qed.

(* ---------- what is forwarded to `go list` ---------- *)
Definition fwd_tok (fwd : list (str * bool)) (t : tok) : list str :=
  if assoc (DASH :: t_name t) fwd
  then norm_dd (t_raw t) :: match t_next t with Some v => [v] | None => [] end
  else [].

Lemma cut_eq_dash body : cut_eq (DASH :: body) = (DASH :: fst (cut_eq body), snd (cut_eq body)).
Proof. cbn [cut_eq]. unfold DASH, EQ. cbn. destruct (cut_eq body). reflexivity. Qed.

Lemma filter_forward_spec fwd bools defs :
  tables_agree bools defs = true ->
  forall ts, Forall (tok_wf defs) ts ->
  fst (filter_forward fwd bools (flat_map tok_strs ts)) = flat_map (fwd_tok fwd) ts.
Proof.
  intros Hta ts H. induction H as [|t ts Ht _ IH]; [reflexivity|].
  destruct Ht as (body & isb & Hfb & Hbad & Hcut & Hlk & Hnext).
  destruct (flag_token_facts _ _ Hfb Hbad) as (Hsd & Hnd & Heq).
  cbn [flat_map]. unfold tok_strs at 1. unfold fwd_tok at 1.
  cbn [app filter_forward]. rewrite Hnd. rewrite cut_eq_dash, Hcut. cbn [fst snd].
  assert (Hhe : has_eq (DASH :: body) = match t_inline t with Some _ => true | None => false end).
  { change (has_eq (DASH :: body)) with (has_eq body). rewrite has_eq_cut, Hcut. reflexivity. }
  rewrite Hhe.
  destruct (t_inline t) as [iv|] eqn:Hin.
  - rewrite orb_true_r. assert (Hn : t_next t = None) by (apply Hnext; rewrite orb_true_r; reflexivity).
    rewrite Hn. cbn [app].
    destruct (filter_forward fwd bools (flat_map tok_strs ts)) as [f u] eqn:Hff. cbn [fst] in *.
    rewrite IH. destruct (assoc (DASH :: t_name t) fwd); reflexivity.
  - assert (Hname : body = t_name t).
    { pose proof (cut_eq_noeq body) as Hc. rewrite Hcut in Hc. cbn in Hc. symmetry. apply Hc. reflexivity. }
    subst body. rewrite (tables_agree_lookup bools defs _ isb Hta Hlk). rewrite orb_false_r.
    destruct isb.
    + assert (Hn : t_next t = None) by (apply Hnext; reflexivity). rewrite Hn. cbn [app].
      destruct (filter_forward fwd bools (flat_map tok_strs ts)) as [f u] eqn:Hff. cbn [fst] in *.
      rewrite IH. destruct (assoc (DASH :: t_name t) fwd); reflexivity.
    + destruct (t_next t) as [v|] eqn:Hn.
      2:{ exfalso. assert (false = true) by (apply Hnext; reflexivity). discriminate. }
      cbn [app].
      destruct (filter_forward fwd bools (flat_map tok_strs ts)) as [f u] eqn:Hff. cbn [fst] in *.
      rewrite IH. destruct (assoc (DASH :: t_name t) fwd); reflexivity.
Qed.

(* a flag that is not forwarded makes firstUnknown non-empty (reverse/map reject it) *)
Lemma pick_unknown_nonempty bf name later :
  (bf = false /\ name <> []) \/ later <> [] -> pick_unknown bf name later <> [].
Proof.
  unfold pick_unknown. intros [[-> Hn]|Hl].
  - destruct later; [exact Hn | discriminate].
  - destruct later; [congruence | discriminate].
Qed.

Lemma filter_unknown_spec fwd bools defs :
  tables_agree bools defs = true ->
  forall ts, Forall (tok_wf defs) ts ->
  Exists (fun t => assoc (DASH :: t_name t) fwd = false) ts ->
  snd (filter_forward fwd bools (flat_map tok_strs ts)) <> [].
Proof.
  intros Hta ts H. induction H as [|t ts Ht Hts IH]; intros Hex; [inversion Hex|].
  destruct Ht as (body & isb & Hfb & Hbad & Hcut & Hlk & Hnext).
  destruct (flag_token_facts _ _ Hfb Hbad) as (Hsd & Hnd & Heq).
  cbn [flat_map]. unfold tok_strs at 1.
  assert (Hlater : Exists (fun t => assoc (DASH :: t_name t) fwd = false) ts ->
                   snd (filter_forward fwd bools (flat_map tok_strs ts)) <> []) by exact IH.
  assert (Hthis : assoc (DASH :: t_name t) fwd = false \/ Exists (fun t => assoc (DASH :: t_name t) fwd = false) ts).
  { inversion Hex; auto. }
  cbn [app filter_forward]. rewrite Hnd, cut_eq_dash, Hcut. cbn [fst snd].
  assert (Hhe : has_eq (DASH :: body) = match t_inline t with Some _ => true | None => false end).
  { change (has_eq (DASH :: body)) with (has_eq body). rewrite has_eq_cut, Hcut. reflexivity. }
  rewrite Hhe.
  assert (Hpick : forall u, (Exists (fun t => assoc (DASH :: t_name t) fwd = false) ts -> u <> []) ->
                  pick_unknown (assoc (DASH :: t_name t) fwd) (DASH :: t_name t) u <> []).
  { intros u Hu. apply pick_unknown_nonempty. destruct Hthis as [H0|H0]; [left; split; [exact H0|discriminate] | right; apply Hu, H0]. }
  destruct (t_inline t) as [iv|] eqn:Hin.
  - rewrite orb_true_r. assert (Hn : t_next t = None) by (apply Hnext; rewrite orb_true_r; reflexivity).
    rewrite Hn. cbn [app].
    destruct (filter_forward fwd bools (flat_map tok_strs ts)) as [f u] eqn:Hff. cbn [snd] in *.
    apply Hpick, Hlater.
  - assert (Hname : body = t_name t).
    { pose proof (cut_eq_noeq body) as Hc. rewrite Hcut in Hc. cbn in Hc. symmetry. apply Hc. reflexivity. }
    subst body. rewrite (tables_agree_lookup bools defs _ isb Hta Hlk). rewrite orb_false_r.
    destruct isb.
    + assert (Hn : t_next t = None) by (apply Hnext; reflexivity). rewrite Hn. cbn [app].
      destruct (filter_forward fwd bools (flat_map tok_strs ts)) as [f u] eqn:Hff. cbn [snd] in *.
      apply Hpick, Hlater.
    + destruct (t_next t) as [v|] eqn:Hn.
      2:{ exfalso. assert (false = true) by (apply Hnext; reflexivity). discriminate. }
      cbn [app].
      destruct (filter_forward fwd bools (flat_map tok_strs ts)) as [f u] eqn:Hff. cbn [snd] in *.
      apply Hpick, Hlater.
Qed.

(* ---------- garble's own flags after the command ---------- *)
Lemma strip_prefix_some p s t : strip_prefix p s = Some t -> s = p ++ t.
Proof.
  revert s; induction p as [|x p IH]; intros s H; cbn in H; [injection H as ->; reflexivity|].
  destruct s as [|y s]; [discriminate|]. destruct (x =? y) eqn:E; [|discriminate].
  apply N.eqb_eq in E. subst y. cbn. f_equal. apply IH, H.
Qed.

Lemma cut_eq_app n t : has_eq n = false -> cut_eq (n ++ EQ :: t) = (n, Some t).
Proof.
  induction n as [|c n IH]; intros H; cbn [app cut_eq].
  - rewrite N.eqb_refl. reflexivity.
  - unfold has_eq in H. cbn [existsb] in H. apply orb_false_iff in H as [H1 H2].
    rewrite N.eqb_sym in H1. rewrite H1. rewrite (IH H2). reflexivity.
Qed.

Lemma cut_eq_plain n : has_eq n = false -> cut_eq n = (n, None).
Proof.
  induction n as [|c n IH]; intros H; cbn [cut_eq]; [reflexivity|].
  unfold has_eq in H. cbn [existsb] in H. apply orb_false_iff in H as [H1 H2].
  rewrite N.eqb_sym in H1. rewrite H1. rewrite (IH H2). reflexivity.
Qed.

Definition garble_names_ok : bool :=
  forallb (fun n => negb (has_eq n) && negb (starts_dash n) && negb (beq n [])) garble_flag_names.
Lemma garble_names_ok_true : garble_names_ok = true. Proof. vm_compute. reflexivity. Qed.

Lemma name_then_name body :
  name_then_end_or_eq body = true -> mem (fst (cut_eq body)) garble_flag_names = true.
Proof.
  unfold name_then_end_or_eq, mem. rewrite !existsb_exists. intros (n & Hin & Hn).
  exists n. split; [exact Hin|].
  pose proof garble_names_ok_true as Hok. unfold garble_names_ok in Hok. rewrite forallb_forall in Hok.
  specialize (Hok n Hin). rewrite !andb_true_iff, !negb_true_iff in Hok. destruct Hok as [[Hne _] _].
  destruct (strip_prefix n body) as [t|] eqn:Hs; [|discriminate].
  apply strip_prefix_some in Hs. subst body. destruct t as [|c t].
  - rewrite app_nil_r, (cut_eq_plain n Hne). apply beq_refl.
  - apply N.eqb_eq in Hn. subst c. rewrite (cut_eq_app n t Hne). apply beq_refl.
Qed.

Lemma name_then_dash r : name_then_end_or_eq (DASH :: r) = false.
Proof.
  unfold name_then_end_or_eq. apply not_true_is_false. intros H. rewrite existsb_exists in H.
  destruct H as (n & Hin & Hn).
  pose proof garble_names_ok_true as Hok. unfold garble_names_ok in Hok. rewrite forallb_forall in Hok.
  specialize (Hok n Hin). rewrite !andb_true_iff, !negb_true_iff in Hok. destruct Hok as [[_ Hnd] Hnn].
  destruct n as [|c n]; [discriminate|]. cbn [strip_prefix] in Hn. unfold starts_dash in Hnd.
  rewrite Hnd in Hn. discriminate.
Qed.

(* a well-formed go flag token whose name is not one of garble's is never rejected *)
Theorem no_false_reject defs t :
  tok_wf defs t -> mem (t_name t) garble_flag_names = false -> rx_garble (t_raw t) = false.
Proof.
  intros (body & isb & Hfb & Hbad & Hcut & _ & _) Hnm.
  assert (Hb : name_then_end_or_eq body = false).
  { apply not_true_is_false. intros H. apply name_then_name in H. rewrite Hcut in H. cbn [fst] in H. congruence. }
  unfold flag_body in Hfb. destruct (t_raw t) as [|c r]; [discriminate|].
  destruct (c =? DASH) eqn:Ec; [|discriminate]. cbn [rx_garble]. rewrite Ec. cbn [andb].
  destruct r as [|c2 r2]; [injection Hfb as <-; discriminate|].
  destruct (c2 =? DASH) eqn:Ec2.
  - injection Hfb as <-. cbn [andb]. rewrite Hb. apply N.eqb_eq in Ec2. subst c2.
    rewrite name_then_dash. reflexivity.
  - injection Hfb as <-. rewrite Hb. reflexivity.
Qed.

(* on the token list of an accepted command line, the rejection loop looks at flag tokens only *)
Lemma garble_flag_in_flags_tokens bools defs :
  tables_agree bools defs = true ->
  forall ts, Forall (tok_wf defs) ts ->
  garble_flag_in_flags bools (flat_map tok_strs ts) = existsb (fun t => rx_garble (t_raw t)) ts.
Proof.
  intros Hta ts H. induction H as [|t ts Ht _ IH]; [reflexivity|].
  destruct Ht as (body & isb & Hfb & Hbad & Hcut & Hlk & Hnext).
  destruct (flag_token_facts _ _ Hfb Hbad) as (Hsd & Hnd & Heq).
  cbn [flat_map existsb]. unfold tok_strs at 1. cbn [app garble_flag_in_flags].
  f_equal. unfold flag_complete. rewrite Hnd, Heq, has_eq_cut, Hcut. cbn [snd].
  destruct (t_inline t) as [iv|] eqn:Hin.
  - rewrite orb_true_r. assert (Hn : t_next t = None) by (apply Hnext; rewrite orb_true_r; reflexivity).
    rewrite Hn. cbn [app]. exact IH.
  - assert (Hname : body = t_name t).
    { pose proof (cut_eq_noeq body) as Hc. rewrite Hcut in Hc. cbn in Hc. symmetry. apply Hc. reflexivity. }
    subst body. rewrite (tables_agree_lookup bools defs _ isb Hta Hlk). rewrite orb_false_r.
    destruct isb.
    + assert (Hn : t_next t = None) by (apply Hnext; reflexivity). rewrite Hn. cbn [app]. exact IH.
    + destruct (t_next t) as [v|] eqn:Hn.
      2:{ exfalso. assert (false = true) by (apply Hnext; reflexivity). discriminate. }
      cbn [app]. exact IH.
Qed.

(* every spelling of every garble flag is rejected, whatever the value *)
Definition garble_spellings_rejected : bool :=
  forallb (fun n => rx_garble (DASH :: n) && rx_garble (DASH :: DASH :: n)) garble_flag_names.
Lemma garble_spellings_rejected_true : garble_spellings_rejected = true.
Proof. vm_compute. reflexivity. Qed.

Lemma strip_prefix_app n t : strip_prefix n (n ++ t) = Some t.
Proof. induction n as [|c n IH]; cbn; [reflexivity|]. rewrite N.eqb_refl. exact IH. Qed.

Theorem garble_flag_rejected n v dd :
  In n garble_flag_names ->
  rx_garble ((if dd : bool then [DASH; DASH] else [DASH]) ++ n ++ EQ :: v) = true.
Proof.
  intros Hin.
  assert (Hn : name_then_end_or_eq (n ++ EQ :: v) = true).
  { unfold name_then_end_or_eq. apply existsb_exists. exists n. split; [exact Hin|].
    rewrite strip_prefix_app. apply N.eqb_refl. }
  destruct dd; cbn [app rx_garble]; rewrite ?N.eqb_refl; cbn [andb].
  - rewrite Hn. rewrite orb_true_r. reflexivity.
  - rewrite Hn. reflexivity.
Qed.

(* ---------- the user's arguments reach the go command unchanged and in order ---------- *)
Theorem go_args_passthrough gbf bools command toolexec extra argv :
  exists prefix, go_args gbf bools command toolexec extra argv = prefix ++ argv /\
    prefix = [command] ++ gbf ++ [toolexec] ++ extra ++ (if beq command s_cmd_test then [s_vet_off] else []).
Proof.
  unfold go_args. pose proof (split_concat bools argv) as H.
  destruct (split_flags bools argv) as [f a]. cbn [fst snd] in H.
  eexists. split; [|reflexivity]. rewrite <- H. rewrite <- !app_assoc. reflexivity.
Qed.

