(* Lemmas about Model/Literals.v (C05): every decoder undoes its encoder, for all data, all
   random choices, all lengths. *)
From Coq Require Import ZArith ZifyN ZifyNat ZifyBool.
From Verif Require Import Base.Bytes Model.Literals.
Open Scope N_scope.

(* ---------- byte operators: exhaustive over 3 x 256 x 256, lifted ---------- *)
Definition bytes256 : list N := map N.of_nat (seq 0 256).
Lemma bytes256_in x : x < 256 -> In x bytes256.
Proof. intros H. unfold bytes256. apply in_map_iff. exists (N.to_nat x). split; [lia|]. apply in_seq. lia. Qed.

Definition ap_table_ok : bool :=
  forallb (fun o => forallb (fun x => forallb (fun y =>
    (ap (inv o) (ap o x y) y =? x) && (ap o x y <? 256)) bytes256) bytes256) [Xor; Add; Sub].
Lemma ap_table : ap_table_ok = true.
Proof. vm_compute. reflexivity. Qed.

Lemma ap_facts o x y : x < 256 -> y < 256 -> ap (inv o) (ap o x y) y = x /\ ap o x y < 256.
Proof.
  intros Hx Hy. pose proof ap_table as T. unfold ap_table_ok in T. rewrite forallb_forall in T.
  assert (Ho : In o [Xor; Add; Sub]) by (destruct o; cbn; tauto).
  specialize (T o Ho). rewrite forallb_forall in T. specialize (T x (bytes256_in x Hx)).
  rewrite forallb_forall in T. specialize (T y (bytes256_in y Hy)). lia.
Qed.
Lemma ap_inv o x y : x < 256 -> y < 256 -> ap (inv o) (ap o x y) y = x.
Proof. intros; apply ap_facts; assumption. Qed.
Lemma ap_lt o x y : x < 256 -> y < 256 -> ap o x y < 256.
Proof. intros; apply ap_facts; assumption. Qed.
Lemma inv_inv o : inv (inv o) = o. Proof. destruct o; reflexivity. Qed.

(* ---------- list update ---------- *)
Lemma upd_length l i v : length (upd l i v) = length l.
Proof. revert i; induction l as [|x l IH]; intros [|i]; cbn; auto. Qed.
Lemma at_upd_same l i v : (i < length l)%nat -> at_ (upd l i v) i = v.
Proof. revert i; induction l as [|x l IH]; intros [|i] H; cbn in *; try lia; auto. apply IH. lia. Qed.
Lemma at_upd_other l i j v : i <> j -> at_ (upd l i v) j = at_ l j.
Proof. revert i j; induction l as [|x l IH]; intros [|i] [|j] H; cbn; auto; try congruence. apply IH. congruence. Qed.
Lemma upd_upd_same l i v w : upd (upd l i v) i w = upd l i w.
Proof. revert i; induction l as [|x l IH]; intros [|i]; cbn; auto. f_equal. apply IH. Qed.
Lemma upd_at l i : upd l i (at_ l i) = l.
Proof. revert i; induction l as [|x l IH]; intros [|i]; cbn; auto. f_equal. apply IH. Qed.
Lemma upd_comm l i j v w : i <> j -> upd (upd l i v) j w = upd (upd l j w) i v.
Proof. revert i j; induction l as [|x l IH]; intros [|i] [|j] H; cbn; auto; try congruence. f_equal. apply IH. congruence. Qed.

Definition okb (d : bytes) : Prop := Forall (fun b => b < 256) d.
Lemma okb_upd d i v : okb d -> v < 256 -> okb (upd d i v).
Proof.
  unfold okb. revert i; induction d as [|x d IH]; intros [|i] H Hv; cbn; auto; inversion H; subst; constructor; auto.
Qed.
Lemma okb_at d i : okb d -> at_ d i < 256.
Proof.
  unfold okb, at_. revert i; induction d as [|x d IH]; intros [|i] H; cbn; try lia; inversion H; subst; auto.
Qed.

(* ---------- undoing a fold step by step ---------- *)
Lemma fold_inv {A S : Type} (F : S -> A -> S) (Inv : S -> Prop) (ok : A -> Prop) :
  (forall s a, Inv s -> ok a -> Inv (F s a)) ->
  forall l s, Forall ok l -> Inv s -> Inv (fold_left F l s).
Proof.
  intros H l. induction l as [|b l IH]; intros s Hok Hs; [exact Hs|]. inversion Hok; subst.
  cbn. apply IH; [assumption|]. apply H; assumption.
Qed.

Lemma fold_undo {A S : Type} (F G : S -> A -> S) (Inv : S -> Prop) (ok : A -> Prop) :
  (forall s a, Inv s -> ok a -> Inv (F s a) /\ G (F s a) a = s) ->
  forall l, Forall ok l -> forall s, Inv s -> fold_left G l (fold_left F (rev l) s) = s.
Proof.
  intros H l. induction l as [|a l IH]; intros Hl s Hs; [reflexivity|].
  inversion Hl as [|? ? Ha Hl']; subst.
  cbn [rev]. rewrite fold_left_app. cbn [fold_left].
  assert (HY : Inv (fold_left F (rev l) s)).
  { apply (fold_inv F Inv ok); [intros s' a' H1 H2; apply H; assumption | apply Forall_rev; exact Hl' | exact Hs]. }
  destruct (H _ a HY Ha) as [_ Hg]. rewrite Hg. apply IH; assumption.
Qed.

(* ---------- the external-key layer ---------- *)
Definition step_ok (n : nat) (s : step) : Prop := let '(i, _, k) := s in (i < n)%nat /\ k < 256.
Definition dinv (n : nat) (d : bytes) : Prop := length d = n /\ okb d.

Lemma do_step_undo n d s : dinv n d -> step_ok n s ->
  dinv n (do_step d s) /\ do_step (do_step d s) (inv_step s) = d.
Proof.
  destruct s as [[i o] k]. intros [Hl Hb] [Hi Hk]. cbn [do_step inv_step]. split.
  - split; [rewrite upd_length; exact Hl | apply okb_upd; [exact Hb | apply ap_lt; [apply okb_at, Hb | exact Hk]]].
  - rewrite at_upd_same by lia. rewrite ap_inv by (try apply okb_at; assumption).
    rewrite upd_upd_same. apply upd_at.
Qed.

Theorem layer_roundtrip ops d :
  okb d -> Forall (step_ok (length d)) ops -> run_layer (enc_layer ops d) = d.
Proof.
  intros Hb Hops. unfold run_layer, enc_layer. cbn [fst snd].
  rewrite <- map_rev.
  assert (Hfm : forall l s, fold_left do_step (map inv_step l) s = fold_left (fun s a => do_step s (inv_step a)) l s).
  { induction l as [|a l IH]; intros s; [reflexivity|]. cbn. apply IH. }
  rewrite Hfm.
  replace (fold_left do_step ops d) with (fold_left do_step (rev (rev ops)) d) by (rewrite rev_involutive; reflexivity).
  apply (fold_undo do_step (fun s a => do_step s (inv_step a)) (dinv (length d)) (step_ok (length d))).
  - intros s a Hs Ha. apply do_step_undo; assumption.
  - apply Forall_rev. exact Hops.
  - split; [reflexivity | exact Hb].
Qed.

(* ---------- literals with an optional key ---------- *)
Theorem atom_roundtrip v c : v < 256 -> (match c with Some (_, k) => k < 256 | None => True end) ->
  run_atom (enc_atom v c) = v.
Proof. intros Hv Hc. destruct c as [[o k]|]; cbn; [apply ap_inv; assumption | reflexivity]. Qed.

(* ---------- simple ---------- *)
Lemma zipw_undo o d key : okb d -> okb key -> length key = length d ->
  zipw (ap (inv o)) (zipw (ap o) d key) key = d.
Proof.
  revert key; induction d as [|x d IH]; intros [|k key] Hd Hk Hl; cbn in *; try discriminate; [reflexivity|].
  inversion Hd; inversion Hk; subst. rewrite ap_inv by assumption. f_equal. apply IH; auto.
Qed.
Lemma zipw_length f a b : length (zipw f a b) = Nat.min (length a) (length b).
Proof. revert b; induction a as [|x a IH]; intros [|y b]; cbn; auto. Qed.
Lemma zipw_okb o a b : okb a -> okb b -> okb (zipw (ap o) a b).
Proof.
  unfold okb. revert b; induction a as [|x a IH]; intros [|y b] Ha Hb; cbn; try constructor.
  - inversion Ha; inversion Hb; subst. apply ap_lt; assumption.
  - inversion Ha; inversion Hb; subst. apply IH; assumption.
Qed.

Theorem simple_roundtrip key o kops dops d :
  okb d -> okb key -> length key = length d ->
  Forall (step_ok (length key)) kops -> Forall (step_ok (length d)) dops ->
  let '(kl, dl, o') := enc_simple key o kops dops d in run_simple kl dl o' = d.
Proof.
  intros Hd Hk Hl Hko Hdo. unfold enc_simple, run_simple.
  rewrite (layer_roundtrip kops key Hk Hko).
  assert (Hz : okb (zipw (ap o) d key)) by (apply zipw_okb; assumption).
  assert (Hzl : length (zipw (ap o) d key) = length d) by (rewrite zipw_length; lia).
  rewrite (layer_roundtrip dops _ Hz) by (rewrite Hzl; exact Hdo).
  rewrite firstn_all2 by lia. rewrite skipn_all2 by lia. rewrite app_nil_r.
  apply zipw_undo; assumption.
Qed.

(* ---------- swap ---------- *)
Lemma swap_step_undo (f g : N -> N) d p q :
  (forall x, x < 256 -> g (f x) = x /\ f x < 256) -> okb d -> (p < length d)%nat -> (q < length d)%nat ->
  (length (swap_step f d p q) = length d /\ okb (swap_step f d p q)) /\
  swap_step g (swap_step f d p q) p q = d.
Proof.
  intros Hfg Hd Hp Hq. unfold swap_step. split.
  - split; [rewrite !upd_length; reflexivity|].
    apply okb_upd; [apply okb_upd; [exact Hd|] |]; apply Hfg, okb_at, Hd.
  - destruct (Hfg (at_ d q) (okb_at d q Hd)) as [Gq _].
    destruct (Hfg (at_ d p) (okb_at d p Hd)) as [Gp _].
    destruct (Nat.eq_dec p q) as [->|Hne].
    + rewrite !upd_upd_same. rewrite !at_upd_same by lia. rewrite Gq. apply upd_at.
    + rewrite (at_upd_same _ q) by (rewrite upd_length; lia).
      rewrite (at_upd_other _ q p) by congruence. rewrite (at_upd_same _ p) by lia.
      rewrite Gp, Gq.
      (* upd (upd (upd (upd d p a) q b) p d[p]) q d[q] = d *)
      rewrite (upd_comm (upd d p (f (at_ d q))) q p) by congruence.
      rewrite (upd_upd_same d p). rewrite upd_upd_same. rewrite (upd_at d p). apply upd_at.
Qed.

Definition pair_ok (n : nat) (t : nat * nat * nat) : Prop := let '(_, p, q) := t in (p < n)%nat /\ (q < n)%nat.

Lemma run_swap_from_fold i pos o shift d :
  run_swap_from i pos o shift d =
  fold_left (fun d '(i, p, q) => swap_step (fun x => ap o x (local_key i p q shift)) d p q) (pairs_from i pos) d.
Proof.
  assert (H : forall n pos, (length pos <= n)%nat -> forall i d,
    run_swap_from i pos o shift d =
    fold_left (fun d '(i, p, q) => swap_step (fun x => ap o x (local_key i p q shift)) d p q) (pairs_from i pos) d).
  { induction n as [|n IH]; intros pos0 Hl i0 d0.
    - destruct pos0; [reflexivity | cbn in Hl; lia].
    - destruct pos0 as [|p [|q r]]; try reflexivity.
      cbn [run_swap_from pairs_from fold_left]. apply IH. cbn in Hl. lia. }
  apply (H (length pos)). lia.
Qed.

Lemma local_key_lt i p q s : local_key i p q s < 256.
Proof. unfold local_key. apply N.mod_lt. discriminate. Qed.

Theorem swap_data_roundtrip pos o shift d :
  okb d -> Forall (pair_ok (length d)) (pairs_from 0 pos) ->
  run_swap_from 0 pos (inv o) shift (enc_swap_data pos o shift d) = d.
Proof.
  intros Hd Hp. rewrite run_swap_from_fold. unfold enc_swap_data.
  apply (fold_undo
           (fun d '(i, p, q) => swap_step (fun x => ap o x (local_key i p q shift)) d p q)
           (fun d '(i, p, q) => swap_step (fun x => ap (inv o) x (local_key i p q shift)) d p q)
           (dinv (length d)) (pair_ok (length d))).
  - intros s [[i p] q] [Hl Hb] [H1 H2].
    destruct (swap_step_undo (fun x => ap o x (local_key i p q shift)) (fun x => ap (inv o) x (local_key i p q shift)) s p q) as [[Ha Hb'] Hc].
    + intros x Hx. split; [apply ap_inv | apply ap_lt]; auto using local_key_lt.
    + exact Hb.
    + lia.
    + lia.
    + split; [split; [rewrite Ha; exact Hl | exact Hb'] | exact Hc].
  - exact Hp.
  - split; [reflexivity | exact Hd].
Qed.

(* ---------- seed ---------- *)
Theorem seed_roundtrip o d : okb d -> forall s, s < 256 ->
  run_seed_from s (inv o) (enc_seed_from s o d) = d.
Proof.
  intros Hd. induction Hd as [|b d Hb _ IH]; intros s Hs; [reflexivity|].
  cbn [enc_seed_from run_seed_from]. rewrite ap_inv by assumption. f_equal. apply IH.
  apply N.mod_lt. discriminate.
Qed.

(* ---------- the string wrapper and byte arrays ---------- *)
Theorem wrap_roundtrip junk s d : (s <= length junk)%nat -> unwrap s (length d) (wrap junk s d) = d.
Proof.
  intros Hs. unfold unwrap, wrap. rewrite skipn_app. rewrite firstn_length, Nat.min_l by exact Hs.
  rewrite skipn_all2 by (rewrite firstn_length; lia). replace (s - s)%nat with 0%nat by lia.
  cbn [app skipn]. rewrite firstn_app, firstn_all, Nat.sub_diag. cbn. apply app_nil_r.
Qed.

Theorem array_roundtrip len d : (length d <= len)%nat ->
  length (to_array len d) = len /\ firstn (length d) (to_array len d) = d /\
  skipn (length d) (to_array len d) = repeat 0 (len - length d).
Proof.
  intros H. unfold to_array. repeat split.
  - rewrite app_length, repeat_length. lia.
  - rewrite firstn_app, firstn_all, Nat.sub_diag. cbn. apply app_nil_r.
  - rewrite skipn_app, skipn_all, Nat.sub_diag. reflexivity.
Qed.

(* ---------- shuffle ---------- *)
Lemma place_other acc sigma vals j : ~ In j sigma -> at_ (place acc sigma vals) j = at_ acc j.
Proof.
  revert acc vals; induction sigma as [|k s IH]; intros acc [|v vals] Hn; cbn [place]; auto.
  rewrite IH by (intros H; apply Hn; right; exact H).
  apply at_upd_other. intros ->. apply Hn. left. reflexivity.
Qed.
Lemma place_length acc sigma vals : length (place acc sigma vals) = length acc.
Proof. revert acc vals; induction sigma as [|k s IH]; intros acc [|v vals]; cbn; auto. rewrite IH. apply upd_length. Qed.
Lemma place_okb acc sigma vals : okb acc -> okb vals -> okb (place acc sigma vals).
Proof.
  revert acc vals; induction sigma as [|k s IH]; intros acc [|v vals] Ha Hv; cbn; auto.
  inversion Hv; subst. apply IH; [apply okb_upd; assumption | assumption].
Qed.
Lemma place_at acc sigma vals i :
  NoDup sigma -> Forall (fun j => (j < length acc)%nat) sigma -> length sigma = length vals ->
  (i < length sigma)%nat -> at_ (place acc sigma vals) (nth i sigma 0%nat) = nth i vals 0.
Proof.
  revert acc vals i; induction sigma as [|k s IH]; intros acc [|v vals] i Hnd Hlt Hl Hi; cbn [place length nth] in *; try lia.
  inversion Hnd; inversion Hlt; subst. destruct i as [|i].
  - rewrite place_other by assumption. apply at_upd_same. assumption.
  - apply IH; auto; try lia. rewrite upd_length. assumption.
Qed.

Lemma lxor_cancel a k : N.lxor (N.lxor a k) k = a.
Proof. rewrite N.lxor_assoc, N.lxor_nilpotent, N.lxor_0_r. reflexivity. Qed.

Lemma map_nth_seq (d : bytes) : map (fun i => at_ d i) (seq 0 (length d)) = d.
Proof.
  unfold at_. induction d as [|x d IH]; [reflexivity|]. cbn [length seq map nth]. f_equal.
  rewrite <- seq_shift, map_map. exact IH.
Qed.

Lemma nth_map_seq (f : nat -> N) n i : (i < n)%nat -> nth i (map f (seq 0 n)) 0 = f i.
Proof.
  intros H. rewrite (nth_indep _ 0 (f 0%nat)) by (rewrite map_length, seq_length; exact H).
  change (f 0%nat) with ((fun k => f k) 0%nat). rewrite map_nth. rewrite seq_nth by exact H. reflexivity.
Qed.

Lemma okb_repeat n : okb (repeat 0 n).
Proof. unfold okb. induction n; cbn; constructor; [lia | assumption]. Qed.

Lemma sh_full_okb ops key d : okb d -> okb key -> okb (sh_full ops key d).
Proof.
  intros Hd Hk. unfold sh_full, okb. apply Forall_app. split; [|exact Hk].
  apply Forall_map, Forall_forall. intros i _. apply ap_lt; apply okb_at; assumption.
Qed.

Theorem shuffle_roundtrip ops key idxk sigma kas fops kops d :
  okb d -> okb key -> okb idxk -> length key = length d ->
  NoDup sigma -> length sigma = (2 * length d)%nat -> Forall (fun j => (j < 2 * length d)%nat) sigma ->
  Forall (step_ok (2 * length d)) fops -> Forall (step_ok (length idxk)) kops ->
  let '(fl, kl, args) := enc_shuffle ops key idxk sigma kas fops kops d in run_shuffle fl kl args = d.
Proof.
  intros Hd Hk Hi Hlk Hnd Hls Hlt Hfo Hko. unfold enc_shuffle, run_shuffle.
  set (full := sh_full ops key d).
  assert (Hfl : length full = (2 * length d)%nat).
  { unfold full, sh_full. rewrite app_length, map_length, seq_length. lia. }
  assert (Hfok : okb full) by (apply sh_full_okb; assumption).
  set (shuffled := place (repeat 0 (length full)) sigma full).
  assert (Hsl : length shuffled = (2 * length d)%nat) by (unfold shuffled; rewrite place_length, repeat_length; exact Hfl).
  assert (Hsok : okb shuffled) by (apply place_okb; [apply okb_repeat | exact Hfok]).
  rewrite (layer_roundtrip fops shuffled Hsok) by (rewrite Hsl; exact Hfo).
  rewrite (layer_roundtrip kops idxk Hi Hko).
  unfold sh_args. rewrite map_map.
  rewrite <- (map_nth_seq d) at 2. apply map_ext_in. intros i Hin. apply in_seq in Hin. cbn [Nat.add] in Hin.
  rewrite !lxor_cancel, !Nat2N.id.
  assert (Hat : forall j, (j < 2 * length d)%nat -> at_ shuffled (nth j sigma 0%nat) = nth j full 0).
  { intros j Hj. unfold shuffled. apply place_at; auto.
    - rewrite repeat_length, Hfl. exact Hlt.
    - rewrite Hfl. exact Hls.
    - lia. }
  rewrite !Hat by lia.
  assert (H1 : nth i full 0 = ap (nth i ops Xor) (at_ d i) (at_ key i)).
  { unfold full, sh_full. rewrite app_nth1 by (rewrite map_length, seq_length; lia).
    apply (nth_map_seq (fun i => ap (nth i ops Xor) (at_ d i) (at_ key i))). lia. }
  assert (H2 : nth (length d + i) full 0 = at_ key i).
  { unfold full, sh_full. rewrite app_nth2 by (rewrite map_length, seq_length; lia).
    rewrite map_length, seq_length. replace (length d + i - length d)%nat with i by lia. reflexivity. }
  rewrite H1, H2. apply ap_inv; apply okb_at; assumption.
Qed.

(* ---------- C09: when does an encoded byte equal the plaintext byte? ---------- *)
Definition neutral_table_ok : bool :=
  forallb (fun o => forallb (fun x => forallb (fun k =>
    Bool.eqb (ap o x k =? x) (k =? 0)) bytes256) bytes256) [Xor; Add; Sub].
Lemma neutral_table : neutral_table_ok = true.
Proof. vm_compute. reflexivity. Qed.
Theorem enc_byte_equals_plain_iff_neutral o x k : x < 256 -> k < 256 -> (ap o x k = x <-> k = 0).
Proof.
  intros Hx Hk. pose proof neutral_table as T. unfold neutral_table_ok in T. rewrite forallb_forall in T.
  assert (Ho : In o [Xor; Add; Sub]) by (destruct o; cbn; tauto).
  specialize (T o Ho). rewrite forallb_forall in T. specialize (T x (bytes256_in x Hx)).
  rewrite forallb_forall in T. specialize (T k (bytes256_in k Hk)).
  apply Bool.eqb_prop in T. split; intros H.
  - apply N.eqb_eq. rewrite <- T. apply N.eqb_eq. exact H.
  - apply N.eqb_eq. rewrite T. apply N.eqb_eq. exact H.
Qed.

(* ---------- split ---------- *)
Lemma mod256_land x : x mod 256 = N.land x 255.
Proof. change 256 with (2 ^ 8). change 255 with (N.ones 8). symmetry. apply N.land_ones. Qed.

Lemma land_lxor_distr a b c : N.land (N.lxor a b) c = N.lxor (N.land a c) (N.land b c).
Proof.
  apply N.bits_inj. intros k. rewrite !N.land_spec, !N.lxor_spec, !N.land_spec.
  destruct (N.testbit a k), (N.testbit b k), (N.testbit c k); reflexivity.
Qed.

Lemma lxor_mod256 a b : (N.lxor a b) mod 256 = N.lxor (a mod 256) (b mod 256).
Proof. rewrite !mod256_land. apply land_lxor_distr. Qed.

Lemma mod256_small x : x < 256 -> x mod 256 = x.
Proof. intros H. apply N.mod_small, H. Qed.

Lemma decrypt_encrypt o K K' d : okb d -> K' < 256 -> K mod 256 = K' -> forall y,
  decrypt_from y (inv o) K (encrypt_from y o K' d) = d.
Proof.
  intros Hd HK' HK. induction Hd as [|b d Hb _ IH]; intros y; [reflexivity|].
  cbn [encrypt_from decrypt_from]. rewrite lxor_mod256, HK.
  assert (Hk : N.lxor K' (y mod 256) < 256).
  { rewrite <- (mod256_small K' HK'), <- lxor_mod256. apply N.mod_lt. discriminate. }
  rewrite ap_inv by assumption. f_equal. apply IH.
Qed.

Lemma find_case_in cs k c : NoDup (map fst cs) -> In (k, c) cs -> find_case cs k = Some c.
Proof.
  induction cs as [|[k' c'] r IH]; intros Hnd Hin; [contradiction|]. cbn [find_case].
  inversion Hnd as [|? ? Hnotin Hnd']; subst. destruct Hin as [H|H].
  - injection H as -> ->. rewrite N.eqb_refl. reflexivity.
  - destruct (N.eqb_spec k' k) as [->|Hne]; [|apply IH; assumption].
    exfalso. apply Hnotin. apply in_map_iff. exists (k, c). split; [reflexivity | exact H].
Qed.

(* the int accumulator of the emitted loop and the byte accumulator of the generator agree mod 256 *)
Lemma split_key_agree idx : forall c K K', K mod 256 = K' ->
  (fold_left (fun k p => N.lxor k (snd p * N.of_nat (fst p))) (combine (seq c (length idx)) idx) K) mod 256
  = split_key_from c idx K'.
Proof.
  induction idx as [|ix r IH]; intros c K K' H; [exact H|].
  cbn [length seq combine fold_left split_key_from fst snd]. apply IH. rewrite lxor_mod256, H. reflexivity.
Qed.

Lemma combine_app {A B} (l1 l1' : list A) (l2 l2' : list B) :
  length l1 = length l2 -> combine (l1 ++ l1') (l2 ++ l2') = combine l1 l2 ++ combine l1' l2'.
Proof.
  revert l2; induction l1 as [|x l1 IH]; intros [|y l2] H; cbn in *; try discriminate; [reflexivity|].
  f_equal. apply IH. lia.
Qed.

Lemma split_key_from_lt idx : forall c K, K < 256 -> split_key_from c idx K < 256.
Proof.
  induction idx as [|ix r IH]; intros c K HK; [exact HK|]. cbn [split_key_from]. apply IH.
  rewrite <- (mod256_small K HK), <- lxor_mod256. apply N.mod_lt. discriminate.
Qed.

Section Split.
  Variable n : nat.                      (* number of chunks *)
  Variable idx : list N.                 (* the permutation: n + 2 state numbers *)
  Variable ps : list piece.              (* the emitted chunk expressions, in original order *)
  Variable o : bop.
  Variable key0 : N.
  Variable cs : list (N * scase).        (* the switch cases, in any (shuffled) order *)
  Variable data : bytes.
  Hypothesis Hidx : length idx = S (S n).
  Hypothesis Hnd : NoDup idx.
  Hypothesis Hps : length ps = n.
  Hypothesis Hkey0 : key0 < 256.
  Hypothesis Hdata : okb data.
  Hypothesis Hcs_len : length cs = S n.
  Hypothesis Hcs_nd : NoDup (map fst cs).
  Hypothesis Hchunk : forall k, (k < n)%nat -> In (nth k idx 0, CChunk (nth (S k) idx 0) (nth k ps (PAtom (0, None)))) cs.
  Hypothesis Hdec : In (nth n idx 0, CDecrypt (nth (S n) idx 0) (inv o)) cs.
  (* the chunks hold the data encrypted with the generator's final key *)
  Hypothesis Henc : concat (map run_piece ps) = encrypt_from 0 o (split_key_from 0 (firstn (S n) idx) key0) data.

  Let exit := nth (S n) idx 0.
  Let acc (c : nat) (K : N) : N :=
    fold_left (fun k p => N.lxor k (snd p * N.of_nat (fst p))) (combine (seq 0 c) (firstn c idx)) K.

  Lemma idx_ne_exit k : (k <= n)%nat -> nth k idx 0 <> exit.
  Proof.
    intros Hk Heq. unfold exit in Heq.
    assert (Hk' : (k < length idx)%nat) by lia. assert (Hn' : (S n < length idx)%nat) by lia.
    pose proof (proj1 (NoDup_nth idx 0) Hnd k (S n) Hk' Hn' Heq). lia.
  Qed.

  Lemma acc_step c K : (c < length idx)%nat -> acc (S c) K = N.lxor (acc c K) (nth c idx 0 * N.of_nat c).
  Proof.
    intros Hc. unfold acc.
    assert (Hf : firstn (S c) idx = firstn c idx ++ [nth c idx 0]).
    { clear -Hc. revert c Hc. induction idx as [|x l IH]; intros [|c] Hc; cbn in *; try lia; [reflexivity|]. f_equal. apply IH. lia. }
    rewrite Hf, seq_S. cbn [Nat.add].
    rewrite combine_app by (rewrite seq_length, firstn_length; lia). rewrite fold_left_app. reflexivity.
  Qed.

  (* the loop, started at the c-th state with the first c chunks appended *)
  Lemma split_loop_from : forall m c fuel, (c + m = n)%nat -> (m + 2 <= fuel)%nat ->
    run_split_loop fuel cs exit (nth c idx 0) (N.of_nat c) (acc c key0) (concat (map run_piece (firstn c ps)))
    = Some data.
  Proof.
    induction m as [|m IH]; intros c fuel Hc Hf.
    - (* c = n: the decrypt case, then exit *)
      assert (c = n) by lia. subst c. destruct fuel as [|[|fuel]]; try lia.
      cbn [run_split_loop]. destruct (N.eqb_spec (nth n idx 0) exit) as [E|_]; [exfalso; apply (idx_ne_exit n); [lia | exact E]|].
      rewrite (find_case_in cs _ _ Hcs_nd Hdec). fold exit. rewrite N.eqb_refl.
      rewrite firstn_all2 by lia. rewrite Henc. f_equal.
      apply decrypt_encrypt; [exact Hdata | | ].
      + apply split_key_from_lt, Hkey0.
      + rewrite <- (acc_step n key0) by lia. unfold acc.
        rewrite <- (firstn_length_le idx (n := S n)) at 1 by lia.
        apply split_key_agree. apply mod256_small, Hkey0.
    - (* a chunk case *)
      destruct fuel as [|fuel]; [lia|]. cbn [run_split_loop].
      destruct (N.eqb_spec (nth c idx 0) exit) as [E|_]; [exfalso; apply (idx_ne_exit c); [lia | exact E]|].
      rewrite (find_case_in cs _ _ Hcs_nd (Hchunk c ltac:(lia))).
      replace (N.of_nat c + 1)%N with (N.of_nat (S c)) by lia.
      rewrite <- (acc_step c key0) by lia.
      assert (Hfn : concat (map run_piece (firstn c ps)) ++ run_piece (nth c ps (PAtom (0, None))) = concat (map run_piece (firstn (S c) ps))).
      { assert (Hf2 : firstn (S c) ps = firstn c ps ++ [nth c ps (PAtom (0, None))]).
        { assert (Hlt : (c < length ps)%nat) by lia. clear -Hlt. revert c Hlt. induction ps as [|x l IHl]; intros [|c] Hlt; cbn in *; try lia; [reflexivity|]. f_equal. apply IHl. lia. }
        rewrite Hf2, map_app, concat_app. cbn. rewrite app_nil_r. reflexivity. }
      rewrite Hfn. apply IH; lia.
  Qed.

  Theorem split_roundtrip : run_split (nth 0 idx 0) exit (key0, None) cs = Some data.
  Proof.
    unfold run_split. cbn [run_atom]. rewrite Hcs_len.
    change (Some data) with (Some data).
    pose proof (split_loop_from n 0 (S (S (S n))) ltac:(lia) ltac:(lia)) as H.
    cbn [N.of_nat firstn map concat] in H. unfold acc in H. cbn [seq firstn combine fold_left] in H. exact H.
  Qed.
End Split.
