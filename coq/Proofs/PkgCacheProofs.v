(* Lemmas about Model/PkgCache.v (C07). *)
From Coq Require Import ZArith ZifyNat.
From Verif Require Import Base.Bytes Model.PkgCache.

(* ---------- a damaged entry is a miss, an undamaged one a full hit ---------- *)
Definition data_ok (orig : bytes) (e : entry) : Prop :=
  match e_data e with
  | Some d => d = orig \/ (length d < length orig)%nat
  | None => True
  end.
Definition index_ok (orig : bytes) (e : entry) : Prop :=
  match e_index e with IValid size => size = length orig | _ => True end.

Lemma fault_preserves orig e f : data_ok orig e -> index_ok orig e -> data_ok orig (apply_fault e f) /\ index_ok orig (apply_fault e f).
Proof.
  unfold data_ok, index_ok. intros Hd Hi. destruct f; cbn [apply_fault e_data e_index].
  - split; [exact Hd | exact I].
  - split; [exact I | exact Hi].
  - split; [exact Hd | destruct (e_index e); exact I].
  - split; [|exact Hi]. destruct (e_data e) as [d|]; [|exact I].
    destruct orig as [|x o]; [left; destruct Hd as [->|Hd]; [reflexivity | cbn in Hd; lia] | right; cbn; lia].
  - split; [exact Hd | destruct (e_index e); exact I].
  - split; [|exact Hi]. destruct (e_data e) as [d|]; [|exact I]. rewrite firstn_length.
    destruct Hd as [->|Hd].
    + destruct orig as [|x o]; [left; destruct n; reflexivity|]. right. cbn [length Nat.pred]. lia.
    + right. lia.
Qed.

Theorem get_file_sound orig fs :
  let e := fold_left apply_fault fs (put orig) in get_file e = Miss \/ get_file e = Hit orig.
Proof.
  cbn zeta.
  assert (H : data_ok orig (fold_left apply_fault fs (put orig)) /\ index_ok orig (fold_left apply_fault fs (put orig))).
  { assert (H0 : data_ok orig (put orig) /\ index_ok orig (put orig)) by (unfold data_ok, index_ok; cbn; auto).
    revert H0. generalize (put orig). induction fs as [|f fs IH]; intros e He; [exact He|].
    cbn [fold_left]. apply IH. destruct He. apply fault_preserves; assumption. }
  destruct H as [Hd Hi]. unfold get_file, data_ok, index_ok in *.
  destruct (e_index (fold_left apply_fault fs (put orig))) as [| |size]; auto.
  destruct (e_data (fold_left apply_fault fs (put orig))) as [d|]; auto.
  destruct (Nat.eqb_spec (length d) size) as [E|E]; auto.
  right. destruct Hd as [->|Hd]; [reflexivity | lia].
Qed.

(* with no fault at all the entry is a hit *)
Theorem get_file_hit orig : get_file (put orig) = Hit orig.
Proof. unfold get_file, put. cbn. rewrite Nat.eqb_refl. reflexivity. Qed.

(* ---------- the reflection cache does not depend on which entries are present ---------- *)
Section G.
  Variable A : Type.
  Variable base : A.
  Variable merge : A -> A -> A.
  Variable own : nat -> A -> A.
  Variable imports : nat -> list nat.
  Variable reflectp : nat -> bool.
  Variable rank : nat -> nat.
  Hypothesis merge_base : forall a, merge a base = a.
  Hypothesis rank_imports : forall p i, In i (imports p) -> (rank i < rank p)%nat.

  Notation spec := (spec A base merge own imports reflectp).
  Notation compute := (compute A base merge own imports reflectp).

  Lemma spec_fuel_irrelevant : forall n m p, (rank p < n)%nat -> (rank p < m)%nat -> spec n p = spec m p.
  Proof.
    induction n as [|n IH]; intros m p Hn Hm; [lia|]. destruct m as [|m]; [lia|]. cbn [PkgCache.spec].
    destruct (reflectp p); [|reflexivity]. f_equal.
    assert (H : forall l acc, (forall i, In i l -> In i (imports p)) ->
              fold_left (fun acc i => merge acc (spec n i)) l acc = fold_left (fun acc i => merge acc (spec m i)) l acc).
    { induction l as [|i l IHl]; intros acc Hs; [reflexivity|]. cbn [fold_left].
      rewrite (IH m i) by (pose proof (rank_imports p i (Hs i (or_introl eq_refl))); lia).
      apply IHl. intros j Hj. apply Hs. right. exact Hj. }
    apply H. auto.
  Qed.

  (* every entry present in the store is what an empty-cache build computes *)
  Definition correct (s : store A) : Prop := forall p a, s p = Some a -> a = spec (S (rank p)) p.

  Lemma correct_set s p a : correct s -> a = spec (S (rank p)) p -> correct (set A s p a).
  Proof.
    intros Hs Ha q b. unfold set. destruct (Nat.eqb_spec q p) as [->|Hne]; [intros H; injection H as <-; exact Ha | apply Hs].
  Qed.

  Theorem compute_independent_of_cache : forall n s p, (rank p < n)%nat -> correct s ->
    fst (compute n s p) = spec n p /\ correct (snd (compute n s p)).
  Proof.
    induction n as [|n IH]; intros s p Hr Hs; [lia|]. cbn [PkgCache.compute PkgCache.spec].
    destruct (reflectp p) eqn:Ep; cbn [negb]; [|split; [reflexivity | exact Hs]].
    (* the fold over the imports *)
    assert (Hfold : forall l acc s0, (forall i, In i l -> In i (imports p)) -> correct s0 ->
      let r := fold_left (fun '(acc, s) i =>
                 match s i with
                 | Some a => (merge acc a, s)
                 | None => if negb (reflectp i) then (acc, s) else let '(a, s2) := compute n s i in (merge acc a, s2)
                 end) l (acc, s0) in
      fst r = fold_left (fun acc i => merge acc (spec n i)) l acc /\ correct (snd r)).
    { induction l as [|i l IHl]; intros acc s0 Hsub Hs0; [split; [reflexivity | exact Hs0]|].
      cbn [fold_left].
      assert (Hi : (rank i < n)%nat) by (pose proof (rank_imports p i (Hsub i (or_introl eq_refl))); lia).
      destruct (s0 i) as [a|] eqn:Esi.
      - rewrite (Hs0 i a Esi). rewrite (spec_fuel_irrelevant (S (rank i)) n i) by lia.
        apply IHl; [intros j Hj; apply Hsub; right; exact Hj | exact Hs0].
      - destruct (reflectp i) eqn:Ei; cbn [negb].
        + destruct (IH s0 i Hi Hs0) as [H1 H2]. destruct (compute n s0 i) as [a s2]. cbn [fst snd] in *. subst a.
          apply IHl; [intros j Hj; apply Hsub; right; exact Hj | exact H2].
        + assert (Hb : spec n i = base) by (destruct n; [lia|]; cbn [PkgCache.spec]; rewrite Ei; reflexivity).
          rewrite Hb, merge_base. apply IHl; [intros j Hj; apply Hsub; right; exact Hj | exact Hs0]. }
    specialize (Hfold (imports p) base s (fun i H => H) Hs). cbn zeta in Hfold.
    match goal with |- context [fold_left ?f (imports p) (base, s)] =>
      destruct (fold_left f (imports p) (base, s)) as [acc s'] eqn:Ef end.
    cbn [fst snd] in *. destruct Hfold as [-> Hc].
    split; [reflexivity|]. apply correct_set; [exact Hc|].
    rewrite (spec_fuel_irrelevant (S (rank p)) (S n) p) by lia. cbn [PkgCache.spec]. rewrite Ep. reflexivity.
  Qed.

  Theorem load_independent_of_cache n s p : (rank p < n)%nat -> correct s ->
    fst (load A base merge own imports reflectp n s p) = spec n p /\
    correct (snd (load A base merge own imports reflectp n s p)).
  Proof.
    intros Hr Hs. unfold load. destruct (s p) as [a|] eqn:E.
    - cbn. split; [|exact Hs]. rewrite (Hs p a E). apply spec_fuel_irrelevant; lia.
    - apply compute_independent_of_cache; assumption.
  Qed.
End G.
