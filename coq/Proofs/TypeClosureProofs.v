(* The walk of reflect.go records exactly what reflection can reach (C08). *)
From Coq Require Import Arith Lia.
From Verif Require Import Base.Bytes Model.TypeClosure.

Lemma obj_eqb_eq a b : obj_eqb a b = true <-> a = b.
Proof.
  destruct a, b; cbn; split; intros H; try discriminate; try (apply Nat.eqb_eq in H; congruence);
    try (injection H as ->; apply Nat.eqb_refl).
Qed.
Lemma memo_In o l : memo o l = true <-> In o l.
Proof.
  unfold memo. rewrite existsb_exists. split.
  - intros (x & Hx & He). apply obj_eqb_eq in He. subst. exact Hx.
  - intros H. exists o. split; [exact H | apply obj_eqb_eq; reflexivity].
Qed.
Lemma addo_In x o l : In x (addo o l) <-> x = o \/ In x l.
Proof.
  unfold addo. destruct (memo o l) eqn:E.
  - split; [auto|]. intros [->|H]; [apply memo_In, E | exact H].
  - cbn. split; intros [H|H]; auto.
Qed.
Lemma incl_addo o l : incl l (addo o l).
Proof. intros x H. apply addo_In. right. exact H. Qed.

Section P.
  Variable underlying : nat -> ty.
  Notation walk := (walk underlying).
  Notation direct := (direct).
  Notation reach := (reach underlying).

  (* ---- the shapes of [direct] on the list-carrying constructors *)
  Lemma direct_struct fs : direct (TStruct fs) = directs (map (fun p => (Some (fst p), snd p)) fs).
  Proof.
    unfold directs. induction fs as [|[fid ft] r IH]; [reflexivity|].
    cbn [map flat_map fst snd]. rewrite <- IH. reflexivity.
  Qed.
  Lemma direct_func ps rs : direct (TFunc ps rs) = directs (map (fun t => (None, t)) (ps ++ rs)).
  Proof.
    unfold directs. rewrite map_app, flat_map_app. cbn [TypeClosure.direct]. f_equal.
    - induction ps as [|x r IH]; [reflexivity|]. cbn. rewrite IH. reflexivity.
    - induction rs as [|x r IH]; [reflexivity|]. cbn. rewrite IH. reflexivity.
  Qed.
  Lemma direct_map k v : direct (TMap k v) = directs [(None, k); (None, v)].
  Proof. unfold directs. cbn. rewrite app_nil_r. reflexivity. Qed.

  (* ---- properties of a walker, lifted to [walks] *)
  Definition mono (w : ty -> list obj -> option (list obj)) : Prop :=
    forall t rec rec', w t rec = Some rec' -> incl rec rec'.
  Definition covers (w : ty -> list obj -> option (list obj)) : Prop :=
    forall t rec rec', w t rec = Some rec' -> incl (direct t) rec'.
  (* every recorded declared type is either still being walked (in G) or has its direct objects recorded *)
  Definition closed_ex (G : list nat) (rec : list obj) : Prop :=
    forall id, In (ONamed id) rec -> In id G \/ incl (direct (underlying id)) rec.
  Definition keeps_closed (w : ty -> list obj -> option (list obj)) : Prop :=
    forall G t rec rec', w t rec = Some rec' -> closed_ex G rec -> closed_ex G rec'.
  (* nothing is recorded that is not reachable *)
  Definition sound (w : ty -> list obj -> option (list obj)) : Prop :=
    forall t rec rec', w t rec = Some rec' -> forall o, In o rec' -> In o rec \/ reach t o.

  Lemma closed_ex_incl G rec o : closed_ex G rec -> (forall id, o <> ONamed id) -> closed_ex G (addo o rec).
  Proof.
    intros H Ho id Hin. apply addo_In in Hin as [Heq|Hin]; [exfalso; apply (Ho id); symmetry; exact Heq|].
    destruct (H id Hin) as [Hg|Hi]; [left; exact Hg | right; intros x Hx; apply incl_addo, Hi, Hx].
  Qed.

  Lemma walks_mono w : mono w -> forall ts rec rec', walks w ts rec = Some rec' -> incl rec rec'.
  Proof.
    intros Hw. induction ts as [|[fo t] r IH]; intros rec rec' H; cbn in H; [injection H as <-; apply incl_refl|].
    destruct (w t _) as [rec2|] eqn:E; [|discriminate].
    apply (incl_tran (m := rec2)); [|apply (IH _ _ H)].
    apply (incl_tran (m := match fo with Some fid => addo (OField fid) rec | None => rec end)); [destruct fo; [apply incl_addo | apply incl_refl] | apply (Hw _ _ _ E)].
  Qed.

  Lemma walks_covers w : mono w -> covers w -> forall ts rec rec', walks w ts rec = Some rec' -> incl (directs ts) rec'.
  Proof.
    intros Hm Hc. induction ts as [|[fo t] r IH]; intros rec rec' H; cbn in H; [intros x []|].
    destruct (w t _) as [rec2|] eqn:E; [|discriminate].
    unfold directs. cbn [flat_map fst snd]. intros x Hx. apply in_app_or in Hx as [Hx|Hx]; [|apply (IH _ _ H), Hx].
    apply (walks_mono w Hm _ _ _ H).
    destruct fo as [fid|]; [destruct Hx as [<-|Hx]; [apply (Hm _ _ _ E), addo_In; left; reflexivity|]|]; apply (Hc _ _ _ E), Hx.
  Qed.

  Lemma walks_keeps w : keeps_closed w -> forall G ts rec rec', walks w ts rec = Some rec' -> closed_ex G rec -> closed_ex G rec'.
  Proof.
    intros Hk G. induction ts as [|[fo t] r IH]; intros rec rec' H Hc; cbn in H; [injection H as <-; exact Hc|].
    destruct (w t _) as [rec2|] eqn:E; [|discriminate]. apply (IH _ _ H). apply (Hk G _ _ _ E).
    destruct fo as [fid|]; [apply closed_ex_incl; [exact Hc | intros id; discriminate] | exact Hc].
  Qed.

  (* reach only depends on the direct objects *)
  Lemma reach_incl t1 t2 o : incl (direct t1) (direct t2) -> reach t1 o -> reach t2 o.
  Proof. intros Hi H. inversion H; subst; [apply reach_direct, Hi; assumption | eapply reach_named; [apply Hi; eassumption | assumption]]. Qed.

  Lemma directs_in ts fo t : In (fo, t) ts -> incl (direct t) (directs ts).
  Proof.
    intros H x Hx. unfold directs. apply in_flat_map. exists (fo, t). split; [exact H|]. cbn. destruct fo; [right|]; exact Hx.
  Qed.
  Lemma directs_field ts fid t : In (Some fid, t) ts -> In (OField fid) (directs ts).
  Proof. intros H. unfold directs. apply in_flat_map. exists (Some fid, t). split; [exact H | left; reflexivity]. Qed.

  Lemma walks_sound w : sound w -> forall (tt : ty) ts, incl (directs ts) (direct tt) ->
    forall rec rec', walks w ts rec = Some rec' -> forall o, In o rec' -> In o rec \/ reach tt o.
  Proof.
    intros Hs tt. induction ts as [|[fo t] r IH]; intros Hi rec rec' H o Ho; cbn in H; [injection H as <-; left; exact Ho|].
    destruct (w t _) as [rec2|] eqn:E; [|discriminate].
    assert (Hr : incl (directs r) (direct tt)).
    { intros x Hx. apply Hi. unfold directs in *. cbn [flat_map]. apply in_or_app. right. exact Hx. }
    destruct (IH Hr _ _ H o Ho) as [H2|H2]; [|right; exact H2].
    destruct (Hs _ _ _ E o H2) as [H1|H1].
    - destruct fo as [fid|]; [|left; exact H1]. apply addo_In in H1 as [->|H1]; [|left; exact H1].
      right. apply reach_direct, Hi, (directs_field _ fid t). left. reflexivity.
    - right. apply (reach_incl t tt o); [|exact H1]. intros x Hx. apply Hi. apply (directs_in _ fo t); [left; reflexivity | exact Hx].
  Qed.

  (* ---- the walk itself *)
  Lemma walk_all : forall fuel, mono (walk fuel) /\ covers (walk fuel) /\ keeps_closed (walk fuel) /\ sound (walk fuel).
  Proof.
    induction fuel as [|f (IHm & IHc & IHk & IHs)]; [repeat split; intros ? ? ? ? H; discriminate|].
    assert (Hm : mono (walk (S f))).
    { intros t rec rec' H. cbn [TypeClosure.walk] in H. destruct t as [|id|r|fs|e|k v|ps rs].
      - injection H as <-. apply incl_refl.
      - destruct (memo (ONamed id) rec); [injection H as <-; apply incl_refl|]. intros x Hx. apply (IHm _ _ _ H). right. exact Hx.
      - apply (IHm _ _ _ H).
      - apply (walks_mono _ IHm _ _ _ H).
      - apply (IHm _ _ _ H).
      - apply (walks_mono _ IHm _ _ _ H).
      - apply (walks_mono _ IHm _ _ _ H). }
    assert (Hc : covers (walk (S f))).
    { intros t rec rec' H. cbn [TypeClosure.walk] in H. destruct t as [|id|r|fs|e|k v|ps rs].
      - intros x [].
      - intros x [<-|[]]. destruct (memo (ONamed id) rec) eqn:E; [injection H as <-; apply memo_In, E|]. apply (IHm _ _ _ H). left. reflexivity.
      - apply (IHc _ _ _ H).
      - rewrite direct_struct. apply (walks_covers _ IHm IHc _ _ _ H).
      - apply (IHc _ _ _ H).
      - rewrite direct_map. apply (walks_covers _ IHm IHc _ _ _ H).
      - rewrite direct_func. apply (walks_covers _ IHm IHc _ _ _ H). }
    assert (Hk : keeps_closed (walk (S f))).
    { intros G t rec rec' H Hcl. cbn [TypeClosure.walk] in H. destruct t as [|id|r|fs|e|k v|ps rs].
      - injection H as <-. exact Hcl.
      - destruct (memo (ONamed id) rec) eqn:E; [injection H as <-; exact Hcl|].
        assert (Hcl0 : closed_ex (id :: G) (ONamed id :: rec)).
        { intros id' [Heq|Hin]; [injection Heq as <-; left; left; reflexivity|].
          destruct (Hcl id' Hin) as [Hg|Hi]; [left; right; exact Hg | right; intros x Hx; right; apply Hi, Hx]. }
        pose proof (IHk _ _ _ _ H Hcl0) as Hcl1. pose proof (IHc _ _ _ H) as Hdir.
        intros id' Hin. destruct (Hcl1 id' Hin) as [[<-|Hg]|Hi]; [right; exact Hdir | left; exact Hg | right; exact Hi].
      - apply (IHk _ _ _ _ H Hcl).
      - apply (walks_keeps _ IHk _ _ _ _ H Hcl).
      - apply (IHk _ _ _ _ H Hcl).
      - apply (walks_keeps _ IHk _ _ _ _ H Hcl).
      - apply (walks_keeps _ IHk _ _ _ _ H Hcl). }
    assert (Hs : sound (walk (S f))).
    { intros t rec rec' H o Ho. cbn [TypeClosure.walk] in H. destruct t as [|id|r|fs|e|k v|ps rs].
      - injection H as <-. left. exact Ho.
      - destruct (memo (ONamed id) rec) eqn:E; [injection H as <-; left; exact Ho|].
        destruct (IHs _ _ _ H o Ho) as [[<-|H1]|H1]; [right; apply reach_direct; left; reflexivity | left; exact H1|].
        right. apply (reach_named underlying _ id); [left; reflexivity | exact H1].
      - destruct (IHs _ _ _ H o Ho) as [H1|H1]; [left; exact H1 | right; apply (reach_incl r); [apply incl_refl | exact H1]].
      - apply (walks_sound _ IHs (TStruct fs) _ (eq_ind_r (fun l => incl _ l) (incl_refl _) (direct_struct fs)) _ _ H o Ho).
      - destruct (IHs _ _ _ H o Ho) as [H1|H1]; [left; exact H1 | right; apply (reach_incl e); [apply incl_refl | exact H1]].
      - apply (walks_sound _ IHs (TMap k v) _ (eq_ind_r (fun l => incl _ l) (incl_refl _) (direct_map k v)) _ _ H o Ho).
      - apply (walks_sound _ IHs (TFunc ps rs) _ (eq_ind_r (fun l => incl _ l) (incl_refl _) (direct_func ps rs)) _ _ H o Ho). }
    repeat split; assumption.
  Qed.

  (* completeness: whatever reflection can reach from t is recorded *)
  Theorem walk_complete fuel t R : walk fuel t [] = Some R -> forall o, reach t o -> In o R.
  Proof.
    intros H. destruct (walk_all fuel) as (_ & Hc & Hk & _).
    assert (Hcl : forall id, In (ONamed id) R -> incl (direct (underlying id)) R).
    { intros id Hin. destruct (Hk [] _ _ _ H (fun id' (Hf : In (ONamed id') []) => match Hf with end) id Hin) as [[]|Hi]. exact Hi. }
    assert (Hgen : forall t' o, reach t' o -> incl (direct t') R -> In o R).
    { intros t' o Hr. induction Hr as [t' o Hd | t' id o Hd _ IH]; intros Hi; [apply Hi, Hd | apply IH, Hcl, Hi, Hd]. }
    intros o Hr. apply (Hgen t o Hr). apply (Hc _ _ _ H).
  Qed.

  (* soundness: nothing else is *)
  Theorem walk_sound fuel t R : walk fuel t [] = Some R -> forall o, In o R -> reach t o.
  Proof. intros H o Ho. destruct (walk_all fuel) as (_ & _ & _ & Hs). destruct (Hs _ _ _ H o Ho) as [[]|Hr]. exact Hr. Qed.
End P.
