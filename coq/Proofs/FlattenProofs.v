(* Flattening preserves behaviour: every run of the original graph is a run of the flattened one,
   with the same final program state and the same exit block (C11). *)
From Coq Require Import Arith Lia.
From Verif Require Import Base.Bytes Model.Flatten.
Open Scope nat_scope.

(* ---------- list plumbing ---------- *)
Lemma nth_error_seq m k : k < m -> nth_error (seq 0 m) k = Some k.
Proof.
  intros H. rewrite (nth_error_nth' (seq 0 m) 0) by (rewrite seq_length; exact H). rewrite seq_nth by exact H. reflexivity.
Qed.

Lemma nth_error_map_seq {A} (f : nat -> A) m k : k < m -> nth_error (map f (seq 0 m)) k = Some (f k).
Proof. intros H. apply map_nth_error, nth_error_seq, H. Qed.

Lemma rewrite_blocks_length n off g : length (rewrite_blocks n off g) = length g.
Proof. revert off; induction g as [|b r IH]; intros off; cbn; auto. Qed.

Lemma all_edges_app a b : all_edges (a ++ b) = all_edges a ++ all_edges b.
Proof. unfold all_edges. apply flat_map_app. Qed.

Lemma all_edges_cons b r : all_edges (b :: r) = edges_of b ++ all_edges r.
Proof. reflexivity. Qed.

Lemma rewrite_blocks_nth n g : forall off j b, nth_error g j = Some b ->
  nth_error (rewrite_blocks n off g) j =
  Some {| baction := baction b; bterm := rewrite_term n (off + edge_offset g j) (bterm b) |}.
Proof.
  induction g as [|b0 r IH]; intros off j b H; [destruct j; discriminate|].
  destruct j as [|j]; cbn in H.
  - injection H as ->. cbn. unfold edge_offset. cbn. rewrite Nat.add_0_r. reflexivity.
  - cbn [rewrite_blocks nth_error]. rewrite (IH _ _ _ H). unfold edge_offset. cbn [firstn].
    rewrite all_edges_cons, app_length. do 3 f_equal. lia.
Qed.

(* the edges of block j sit at positions edge_offset g j, ... of the global edge list *)
Lemma edges_position g j b : nth_error g j = Some b ->
  firstn (length (edges_of b)) (skipn (edge_offset g j) (all_edges g)) = edges_of b.
Proof.
  intros H. apply nth_error_split in H as (l1 & l2 & -> & Hl). subst j.
  unfold edge_offset. rewrite firstn_app, firstn_all, Nat.sub_diag. cbn [firstn]. rewrite app_nil_r.
  rewrite all_edges_app. rewrite skipn_app, skipn_all, Nat.sub_diag. cbn [skipn app].
  rewrite all_edges_cons.
  rewrite firstn_app, firstn_all, Nat.sub_diag. cbn [firstn]. apply app_nil_r.
Qed.

Lemma nth_of_firstn_skipn {A} (l : list A) off k len d : k < len ->
  nth k (firstn len (skipn off l)) d = nth (off + k) l d.
Proof.
  revert l; induction off as [|off IH]; intros l H.
  - cbn [skipn Nat.add]. revert k len H. induction l as [|x l IHl]; intros [|k] [|len] H; cbn; try lia; auto. apply IHl. lia.
  - destruct l as [|x l]; [cbn; destruct k, len; reflexivity|]. cbn [skipn Nat.add nth]. apply IH, H.
Qed.

Lemma edges_bound g j b : nth_error g j = Some b ->
  edge_offset g j + length (edges_of b) <= length (all_edges g).
Proof.
  intros H. apply nth_error_split in H as (l1 & l2 & -> & Hl). subst j.
  unfold edge_offset. rewrite firstn_app, firstn_all, Nat.sub_diag. cbn [firstn]. rewrite app_nil_r.
  rewrite all_edges_app, app_length, all_edges_cons, app_length. lia.
Qed.

Lemma nth_firstn_lt {A} (l : list A) : forall m k d, k < m -> nth k (firstn m l) d = nth k l d.
Proof.
  induction l as [|x l IH]; intros m k d H; [destruct m, k; reflexivity|].
  destruct m as [|m]; [lia|]. destruct k as [|k]; [reflexivity|]. cbn. apply IH. lia.
Qed.

Section Steps.
  Variable S : Type.
  Variable act : nat -> S -> S.
  Variable cond : nat -> S -> bool.
  Variable gr : cfg.

  (* several Next-steps in a row *)
  Inductive nsteps : nat -> state S -> state S -> Prop :=
  | ns0 st : nsteps 0 st st
  | nsS k st st1 st2 : step S act cond gr st = Next S st1 -> nsteps k st1 st2 -> nsteps (Datatypes.S k) st st2.

  Lemma nsteps_run k st st' : nsteps k st st' -> forall f r, run S act cond gr f st' = Some r -> run S act cond gr (k + f) st = Some r.
  Proof.
    intros H. induction H as [|k st st1 st2 Hs _ IH]; intros f r Hr; [exact Hr|].
    cbn [Nat.add run]. rewrite Hs. apply IH, Hr.
  Qed.

  Lemma nsteps_trans a b st1 st2 st3 : nsteps a st1 st2 -> nsteps b st2 st3 -> nsteps (a + b) st1 st3.
  Proof. intros H. induction H; intros H2; cbn; [exact H2 | econstructor; eauto]. Qed.

  (* still running after k blocks: no result with fuel k or less *)
  Lemma nsteps_run_none k st st' : nsteps k st st' -> forall f, f <= k -> run S act cond gr f st = None.
  Proof.
    intros H. induction H as [|k st st1 st2 Hs _ IH]; intros f Hf.
    - assert (f = 0) by lia. subst f. reflexivity.
    - destruct f as [|f]; [reflexivity|]. cbn [run]. rewrite Hs. apply IH. lia.
  Qed.

  (* more fuel never changes a result *)
  Lemma run_mono f st r : run S act cond gr f st = Some r -> forall f', f <= f' -> run S act cond gr f' st = Some r.
  Proof.
    revert st. induction f as [|f IH]; intros st H f' Hf; [discriminate|].
    destruct f' as [|f']; [lia|]. cbn [run] in *. destruct (step S act cond gr st); try exact H; try discriminate.
    apply IH; [exact H | lia].
  Qed.

  Lemma run_det f1 f2 st r1 r2 : run S act cond gr f1 st = Some r1 -> run S act cond gr f2 st = Some r2 -> r1 = r2.
  Proof.
    intros H1 H2. pose proof (run_mono _ _ _ H1 (f1 + f2) ltac:(lia)) as A. pose proof (run_mono _ _ _ H2 (f1 + f2) ltac:(lia)) as B.
    congruence.
  Qed.
End Steps.
Arguments nsteps {S}.
Arguments ns0 {S}.
Arguments nsS {S}.
Arguments nsteps_run {S act cond gr}.
Arguments nsteps_trans {S act cond gr}.
Arguments nsteps_run_none {S act cond gr}.
Arguments run_mono {S act cond gr}.
Arguments run_det {S act cond gr}.

Section Sim.
  Variable S : Type.
  Variable act : nat -> S -> S.
  Variable cond : nat -> S -> bool.
  Variable g : cfg.
  Variable keys : list N.

  Let n := length g.
  Let es := all_edges g.
  Let m := length es.
  Let fg := flatten keys g.
  Let E := flat_entry g.

  Hypothesis Hwf : wf g = true.
  Hypothesis Hm : 0 < m.
  Hypothesis Hklen : m <= length keys.
  Hypothesis Hknd : NoDup (firstn m keys).
  Hypothesis Hknz : Forall (fun k => k <> 0%N) (firstn m keys).

  Notation nstepsf := (nsteps act cond fg).
  Notation nstepso := (nsteps act cond g).
  Notation stepf := (step S act cond fg).
  Notation runf := (run S act cond fg).
  Notation stepo := (step S act cond g).
  Notation runo := (run S act cond g).

  (* ---- the four kinds of blocks of the flattened graph *)
  Lemma fg_orig j b : nth_error g j = Some b ->
    nth_error fg j = Some {| baction := baction b; bterm := rewrite_term n (edge_offset g j) (bterm b) |}.
  Proof.
    intros H. unfold fg, flatten. rewrite nth_error_app1 by (rewrite rewrite_blocks_length; apply nth_error_Some; congruence).
    rewrite (rewrite_blocks_nth _ _ _ _ _ H). reflexivity.
  Qed.

  Lemma fg_fake k : k < m ->
    nth_error fg (n + k) = Some {| baction := ASetKey (nth k keys 0%N); bterm := TJump E |}.
  Proof.
    intros H. unfold fg, flatten. rewrite nth_error_app2 by (rewrite rewrite_blocks_length; fold n; lia).
    rewrite rewrite_blocks_length. fold n es m. replace (n + k - n) with k by lia.
    rewrite nth_error_app1 by (rewrite map_length, seq_length; exact H).
    rewrite (nth_error_map_seq _ m k H). reflexivity.
  Qed.

  Lemma fg_if k : k < m ->
    nth_error fg (n + m + k) =
    Some {| baction := ANone; bterm := TIf (CKeyEq (nth k keys 0%N)) (nth k es 0) (if Nat.ltb (Datatypes.S k) m then n + m + Datatypes.S k else 0) |}.
  Proof.
    intros H. unfold fg, flatten. rewrite nth_error_app2 by (rewrite rewrite_blocks_length; fold n; lia).
    rewrite rewrite_blocks_length. fold n es m. replace (n + m + k - n) with (m + k) by lia.
    rewrite nth_error_app2 by (rewrite map_length, seq_length; lia). rewrite map_length, seq_length.
    replace (m + k - m) with k by lia.
    rewrite nth_error_app1 by (rewrite map_length, seq_length; exact H).
    rewrite (nth_error_map_seq _ m k H). reflexivity.
  Qed.

  Lemma fg_entry : nth_error fg E = Some {| baction := ANone; bterm := TJump (n + m) |}.
  Proof.
    unfold fg, flatten, E, flat_entry. fold n es m.
    rewrite nth_error_app2 by (rewrite rewrite_blocks_length; fold n; lia). rewrite rewrite_blocks_length. fold n.
    rewrite nth_error_app2 by (rewrite map_length, seq_length; lia). rewrite map_length, seq_length.
    rewrite nth_error_app2 by (rewrite map_length, seq_length; lia). rewrite map_length, seq_length.
    replace (n + 2 * m - n - m - m) with 0 by lia. reflexivity.
  Qed.

  Lemma key_neq j k : j < m -> k < m -> j <> k -> nth k keys 0%N <> nth j keys 0%N.
  Proof.
    intros Hj Hk Hne Heq.
    assert (H1 : nth k (firstn m keys) 0%N = nth k keys 0%N) by (apply nth_firstn_lt; exact Hk).
    assert (H2 : nth j (firstn m keys) 0%N = nth j keys 0%N) by (apply nth_firstn_lt; exact Hj).
    assert (Hl : length (firstn m keys) = m) by (rewrite firstn_length; lia).
    apply Hne. symmetry. apply (proj1 (NoDup_nth (firstn m keys) 0%N) Hknd); [lia | lia | congruence].
  Qed.

  (* the if-chain: with the dispatcher variable holding key k, if-block j <= k leads to edge target k *)
  Lemma chain_to_target s k : k < m -> forall d j, j + d = k ->
    nstepsf (Datatypes.S d) (n + m + j, nth k keys 0%N, s) (nth k es 0, nth k keys 0%N, s).
  Proof.
    intros Hk. induction d as [|d IH]; intros j Hj.
    - assert (j = k) by lia. subst j. econstructor; [|constructor].
      cbn [step]. rewrite (fg_if k Hk). cbn. rewrite N.eqb_refl. reflexivity.
    - assert (Hjm : j < m) by lia. econstructor.
      + cbn [step]. rewrite (fg_if j Hjm). cbn [baction bterm run_action eval_cond].
        destruct (N.eqb_spec (nth k keys 0%N) (nth j keys 0%N)) as [Heq|_]; [exfalso; apply (key_neq j k); try lia; exact Heq|].
        destruct (Nat.ltb_spec (Datatypes.S j) m); [reflexivity | lia].
      + replace (n + m + Datatypes.S j) with (n + m + (Datatypes.S j)) by reflexivity. apply IH. lia.
  Qed.

  (* a fake block: set the key, go through the dispatcher, arrive at the edge's target *)
  Lemma fake_to_target s v k : k < m ->
    nstepsf (k + 3) (n + k, v, s) (nth k es 0, nth k keys 0%N, s).
  Proof.
    intros Hk. replace (k + 3) with (1 + (1 + Datatypes.S k)) by lia.
    apply (nsteps_trans 1 _ _ (E, nth k keys 0%N, s)); [econstructor; [|constructor]; cbn [step]; rewrite (fg_fake k Hk); reflexivity|].
    apply (nsteps_trans 1 _ _ (n + m + 0, nth k keys 0%N, s)); [econstructor; [|constructor]; cbn [step]; rewrite fg_entry, Nat.add_0_r; reflexivity|].
    apply chain_to_target; [exact Hk | lia].
  Qed.

  Lemma key_nz j : j < m -> nth j keys 0%N <> 0%N.
  Proof.
    intros Hj. rewrite <- (nth_firstn_lt keys m j 0%N Hj).
    apply (proj1 (Forall_forall _ _) Hknz). apply nth_In. rewrite firstn_length. lia.
  Qed.

  (* at function entry the dispatcher variable is 0: every comparison fails, control reaches block 0 *)
  Lemma chain_from_start s : forall d j, j + Datatypes.S d = m -> nstepsf (Datatypes.S d) (n + m + j, 0%N, s) (0, 0%N, s).
  Proof.
    induction d as [|d IH]; intros j Hj; (assert (Hjm : j < m) by lia).
    - econstructor; [|constructor]. cbn [step]. rewrite (fg_if j Hjm). cbn [baction bterm run_action eval_cond].
      destruct (N.eqb_spec 0%N (nth j keys 0%N)) as [Heq|_]; [exfalso; apply (key_nz j Hjm); congruence|].
      destruct (Nat.ltb_spec (Datatypes.S j) m); [lia | reflexivity].
    - econstructor.
      + cbn [step]. rewrite (fg_if j Hjm). cbn [baction bterm run_action eval_cond].
        destruct (N.eqb_spec 0%N (nth j keys 0%N)) as [Heq|_]; [exfalso; apply (key_nz j Hjm); congruence|].
        destruct (Nat.ltb_spec (Datatypes.S j) m); [reflexivity | lia].
      + apply IH. lia.
  Qed.

  Lemma entry_to_block0 s : nstepsf (Datatypes.S (Datatypes.S (m - 1))) (E, 0%N, s) (0, 0%N, s).
  Proof.
    econstructor; [cbn [step]; rewrite fg_entry; reflexivity|]. cbn [run_action].
    rewrite <- (Nat.add_0_r (n + m)). apply chain_from_start. lia.
  Qed.

  (* ---- where the edges of an original block sit *)
  Lemma wf_block j b : nth_error g j = Some b -> orig_block n b = true.
  Proof.
    intros H. unfold wf in Hwf. apply andb_true_iff in Hwf as [Hf _].
    apply (proj1 (forallb_forall _ _) Hf). eapply nth_error_In, H.
  Qed.

  Lemma edge_first j b t rest : nth_error g j = Some b -> edges_of b = t :: rest ->
    edge_offset g j < m /\ nth (edge_offset g j) es 0 = t.
  Proof.
    intros H He. pose proof (edges_bound g j b H) as Hb. pose proof (edges_position g j b H) as Hp.
    rewrite He in Hb, Hp. cbn [length] in Hb, Hp. fold es m in Hb. split; [lia|].
    rewrite <- (Nat.add_0_r (edge_offset g j)). fold es in Hp.
    rewrite <- (nth_of_firstn_skipn es (edge_offset g j) 0 (Datatypes.S (length rest)) 0) by lia. rewrite Hp. reflexivity.
  Qed.

  Lemma edge_second j b t f : nth_error g j = Some b -> edges_of b = [t; f] ->
    Datatypes.S (edge_offset g j) < m /\ nth (Datatypes.S (edge_offset g j)) es 0 = f.
  Proof.
    intros H He. pose proof (edges_bound g j b H) as Hb. pose proof (edges_position g j b H) as Hp.
    rewrite He in Hb, Hp. cbn [length] in Hb, Hp. fold es m in Hb. split; [lia|].
    replace (Datatypes.S (edge_offset g j)) with (edge_offset g j + 1) by lia. fold es in Hp.
    rewrite <- (nth_of_firstn_skipn es (edge_offset g j) 1 2 0) by lia. rewrite Hp. reflexivity.
  Qed.

  (* ---- the simulation: original blocks behave the same whatever the dispatcher variable holds *)
  Lemma sim_from_block : forall fuel pc v s r, pc < n -> runo fuel (pc, v, s) = Some r ->
    forall v', exists fuel', runf fuel' (pc, v', s) = Some r.
  Proof.
    induction fuel as [|fuel IH]; intros pc v s r Hpc Hr v'; [discriminate|].
    destruct (nth_error g pc) as [b|] eqn:Eb; [|apply nth_error_None in Eb; fold n in Eb; lia].
    pose proof (wf_block pc b Eb) as Hob. unfold orig_block in Hob. apply andb_true_iff in Hob as [Ha Ht].
    destruct (baction b) as [a| |] eqn:Ea; try discriminate.
    cbn [run step] in Hr. rewrite Eb, Ea in Hr. cbn [run_action] in Hr.
    destruct (bterm b) as [t|c t f| |] eqn:Et.
    - (* jump *)
      apply Nat.ltb_lt in Ht.
      destruct (edge_first pc b t [] Eb) as [Hk Hn]; [unfold edges_of; rewrite Et; reflexivity|].
      set (k := edge_offset g pc) in *.
      destruct (IH t v (act a s) r Ht Hr (nth k keys 0%N)) as [f' Hf'].
      exists (1 + ((k + 3) + f')). cbn [Nat.add run step]. rewrite (fg_orig pc b Eb). cbn [baction bterm]. rewrite Ea, Et. cbn [run_action rewrite_term].
      fold k. apply (nsteps_run (k + 3) _ _ (fake_to_target (act a s) v' k Hk)). rewrite Hn. exact Hf'.
    - (* conditional *)
      destruct c as [c|kk]; [|discriminate]. apply andb_true_iff in Ht as [Ht Hf]. apply Nat.ltb_lt in Ht, Hf.
      destruct (edge_first pc b t [f] Eb) as [Hk Hn]; [unfold edges_of; rewrite Et; reflexivity|].
      destruct (edge_second pc b t f Eb) as [Hk2 Hn2]; [unfold edges_of; rewrite Et; reflexivity|].
      set (k := edge_offset g pc) in *. cbn [eval_cond] in Hr.
      destruct (cond c (act a s)) eqn:Ec.
      + destruct (IH t v (act a s) r Ht Hr (nth k keys 0%N)) as [f' Hf'].
        exists (1 + ((k + 3) + f')). cbn [Nat.add run step]. rewrite (fg_orig pc b Eb). cbn [baction bterm]. rewrite Ea, Et. cbn [run_action rewrite_term eval_cond].
        fold k. rewrite Ec. apply (nsteps_run (k + 3) _ _ (fake_to_target (act a s) v' k Hk)). rewrite Hn. exact Hf'.
      + destruct (IH f v (act a s) r Hf Hr (nth (Datatypes.S k) keys 0%N)) as [f' Hf'].
        exists (1 + ((Datatypes.S k + 3) + f')). cbn [Nat.add run step]. rewrite (fg_orig pc b Eb). cbn [baction bterm]. rewrite Ea, Et. cbn [run_action rewrite_term eval_cond].
        fold k. rewrite Ec. apply (nsteps_run (Datatypes.S k + 3) _ _ (fake_to_target (act a s) v' (Datatypes.S k) Hk2)). rewrite Hn2. exact Hf'.
    - injection Hr as <-. exists 1. cbn [run step]. rewrite (fg_orig pc b Eb). cbn [baction bterm]. rewrite Ea, Et. reflexivity.
    - injection Hr as <-. exists 1. cbn [run step]. rewrite (fg_orig pc b Eb). cbn [baction bterm]. rewrite Ea, Et. reflexivity.
  Qed.

  (* a call of the flattened function (entry block = dispatcher entry, dispatcher variable 0) ends in
     the same block with the same program state as a call of the original *)
  Theorem flatten_preserves_runs fuel s r :
    runo fuel (0, 0%N, s) = Some r -> exists fuel', runf fuel' (E, 0%N, s) = Some r.
  Proof.
    intros Hr. assert (H0 : 0 < n). { unfold wf in Hwf. apply andb_true_iff in Hwf as [_ H]. apply Nat.ltb_lt in H. exact H. }
    destruct (sim_from_block fuel 0 0%N s r H0 Hr 0%N) as [f' Hf'].
    exists (Datatypes.S (Datatypes.S (m - 1)) + f'). apply (nsteps_run _ _ _ (entry_to_block0 s)). exact Hf'.
  Qed.
  (* ---- the converse: the flattened function produces no result the original does not *)
  Lemma orig_progress : forall k pc v s, pc < n ->
    (exists f r, runo f (pc, v, s) = Some r) \/ (exists pc' s', pc' < n /\ nstepso k (pc, v, s) (pc', v, s')).
  Proof.
    induction k as [|k IH]; intros pc v s Hpc; [right; exists pc, s; split; [exact Hpc | constructor]|].
    destruct (nth_error g pc) as [b|] eqn:Eb; [|apply nth_error_None in Eb; fold n in Eb; lia].
    pose proof (wf_block pc b Eb) as Hob. unfold orig_block in Hob. apply andb_true_iff in Hob as [Ha Ht].
    destruct (baction b) as [a| |] eqn:Ea; try discriminate.
    assert (Hstep : forall t, t < n -> stepo (pc, v, s) = Next S (t, v, act a s) ->
              (exists f r, runo f (pc, v, s) = Some r) \/ (exists pc' s', pc' < n /\ nstepso (Datatypes.S k) (pc, v, s) (pc', v, s'))).
    { intros t Htn Hs. destruct (IH t v (act a s) Htn) as [(f & r & Hr) | (pc' & s' & Hp & Hn)].
      - left. exists (Datatypes.S f), r. cbn [run]. rewrite Hs. exact Hr.
      - right. exists pc', s'. split; [exact Hp | econstructor; [exact Hs | exact Hn]]. }
    destruct (bterm b) as [t|c t f| |] eqn:Et.
    - apply Nat.ltb_lt in Ht. apply (Hstep t Ht). cbn [step]. rewrite Eb, Ea, Et. reflexivity.
    - destruct c as [c|kk]; [|discriminate]. apply andb_true_iff in Ht as [Ht Hf]. apply Nat.ltb_lt in Ht, Hf.
      destruct (cond c (act a s)) eqn:Ec.
      + apply (Hstep t Ht). cbn [step]. rewrite Eb, Ea, Et. cbn [run_action eval_cond]. rewrite Ec. reflexivity.
      + apply (Hstep f Hf). cbn [step]. rewrite Eb, Ea, Et. cbn [run_action eval_cond]. rewrite Ec. reflexivity.
    - left. exists 1, (pc, act a s). cbn [run step]. rewrite Eb, Ea, Et. reflexivity.
    - left. exists 1, (pc, act a s). cbn [run step]. rewrite Eb, Ea, Et. reflexivity.
  Qed.

  Lemma sim_nsteps : forall k pc v s pc' s', pc < n -> nstepso k (pc, v, s) (pc', v, s') ->
    forall v', exists k' v'', k <= k' /\ nstepsf k' (pc, v', s) (pc', v'', s').
  Proof.
    induction k as [|k IH]; intros pc v s pc' s' Hpc H v'.
    - inversion H; subst. exists 0, v'. split; [lia | constructor].
    - inversion H as [|k0 st0 st1 st2 Hs Hn]; subst.
      destruct (nth_error g pc) as [b|] eqn:Eb; [|apply nth_error_None in Eb; fold n in Eb; lia].
      pose proof (wf_block pc b Eb) as Hob. unfold orig_block in Hob. apply andb_true_iff in Hob as [Ha Ht].
      destruct (baction b) as [a| |] eqn:Ea; try discriminate.
      cbn [step] in Hs. rewrite Eb, Ea in Hs. cbn [run_action] in Hs.
      destruct (bterm b) as [t|c t f| |] eqn:Et; try discriminate.
      + apply Nat.ltb_lt in Ht. injection Hs as <-.
        destruct (edge_first pc b t [] Eb) as [Hk Hnth]; [unfold edges_of; rewrite Et; reflexivity|].
        set (e := edge_offset g pc) in *.
        destruct (IH t v (act a s) pc' s' Ht Hn (nth e keys 0%N)) as (k' & v'' & Hle & Hf).
        exists (1 + ((e + 3) + k')), v''. split; [lia|].
        apply (nsteps_trans 1 _ _ (n + e, v', act a s)).
        { econstructor; [|constructor]. cbn [step]. rewrite (fg_orig pc b Eb). cbn [baction bterm]. rewrite Ea, Et. reflexivity. }
        apply (nsteps_trans (e + 3) _ _ _ _ (fake_to_target (act a s) v' e Hk)). rewrite Hnth. exact Hf.
      + destruct c as [c|kk]; [|discriminate]. apply andb_true_iff in Ht as [Ht Hf0]. apply Nat.ltb_lt in Ht, Hf0.
        destruct (edge_first pc b t [f] Eb) as [Hk Hnth]; [unfold edges_of; rewrite Et; reflexivity|].
        destruct (edge_second pc b t f Eb) as [Hk2 Hnth2]; [unfold edges_of; rewrite Et; reflexivity|].
        set (e := edge_offset g pc) in *. cbn [eval_cond] in Hs. injection Hs as <-.
        destruct (cond c (act a s)) eqn:Ec.
        * destruct (IH t v (act a s) pc' s' Ht Hn (nth e keys 0%N)) as (k' & v'' & Hle & Hf).
          exists (1 + ((e + 3) + k')), v''. split; [lia|].
          apply (nsteps_trans 1 _ _ (n + e, v', act a s)).
          { econstructor; [|constructor]. cbn [step]. rewrite (fg_orig pc b Eb). cbn [baction bterm]. rewrite Ea, Et. cbn [run_action rewrite_term eval_cond]. rewrite Ec. reflexivity. }
          apply (nsteps_trans (e + 3) _ _ _ _ (fake_to_target (act a s) v' e Hk)). rewrite Hnth. exact Hf.
        * destruct (IH f v (act a s) pc' s' Hf0 Hn (nth (Datatypes.S e) keys 0%N)) as (k' & v'' & Hle & Hf).
          exists (1 + ((Datatypes.S e + 3) + k')), v''. split; [lia|].
          apply (nsteps_trans 1 _ _ (n + Datatypes.S e, v', act a s)).
          { econstructor; [|constructor]. cbn [step]. rewrite (fg_orig pc b Eb). cbn [baction bterm]. rewrite Ea, Et. cbn [run_action rewrite_term eval_cond]. rewrite Ec. reflexivity. }
          apply (nsteps_trans (Datatypes.S e + 3) _ _ _ _ (fake_to_target (act a s) v' (Datatypes.S e) Hk2)). rewrite Hnth2. exact Hf.
  Qed.

  Theorem flatten_reflects_runs fuel' s r :
    runf fuel' (E, 0%N, s) = Some r -> exists fuel, runo fuel (0, 0%N, s) = Some r.
  Proof.
    intros Hr. assert (H0 : 0 < n). { unfold wf in Hwf. apply andb_true_iff in Hwf as [_ H]. apply Nat.ltb_lt in H. exact H. }
    destruct (orig_progress fuel' 0 0%N s H0) as [(f & r0 & Hr0) | (pc' & s' & Hp & Hn)].
    - destruct (flatten_preserves_runs f s r0 Hr0) as [f'' Hf''].
      rewrite (run_det _ _ _ _ _ Hr Hf''). exists f. exact Hr0.
    - destruct (sim_nsteps fuel' 0 0%N s pc' s' H0 Hn 0%N) as (k' & v'' & Hle & Hf).
      pose proof (nsteps_trans _ _ _ _ _ (entry_to_block0 s) Hf) as Hall.
      rewrite (nsteps_run_none _ _ _ Hall fuel') in Hr by lia. discriminate.
  Qed.

  (* both directions: the flattened function returns r iff the original does (and so it diverges iff
     the original does) *)
  Theorem flatten_equivalent s r :
    (exists fuel, runo fuel (0, 0%N, s) = Some r) <-> (exists fuel, runf fuel (E, 0%N, s) = Some r).
  Proof.
    split; intros [f H]; [eapply flatten_preserves_runs | eapply flatten_reflects_runs]; exact H.
  Qed.
End Sim.

(* ---------- the deciders are sound, so a dumped instance that passes them is covered ---------- *)
Lemma action_eqb_eq a b : action_eqb a b = true -> a = b.
Proof. destruct a, b; cbn; intros H; try discriminate; try reflexivity; f_equal; [apply Nat.eqb_eq | apply N.eqb_eq]; exact H. Qed.
Lemma condx_eqb_eq a b : condx_eqb a b = true -> a = b.
Proof. destruct a, b; cbn; intros H; try discriminate; f_equal; [apply Nat.eqb_eq | apply N.eqb_eq]; exact H. Qed.
Lemma term_eqb_eq a b : term_eqb a b = true -> a = b.
Proof.
  destruct a, b; cbn; intros H; try discriminate; try reflexivity.
  - f_equal. apply Nat.eqb_eq, H.
  - apply andb_true_iff in H as [H H3]. apply andb_true_iff in H as [H1 H2].
    apply condx_eqb_eq in H1. apply Nat.eqb_eq in H2, H3. congruence.
Qed.
Lemma cfg_eqb_eq : forall a b, cfg_eqb a b = true -> a = b.
Proof.
  induction a as [|x a IH]; intros [|y b] H; cbn in H; try discriminate; [reflexivity|].
  apply andb_true_iff in H as [H1 H2]. unfold block_eqb in H1. apply andb_true_iff in H1 as [Ha Ht].
  apply action_eqb_eq in Ha. apply term_eqb_eq in Ht. f_equal; [destruct x, y; cbn in *; congruence | apply IH, H2].
Qed.
Lemma nodupb_NoDup l : nodupb l = true -> NoDup l.
Proof.
  induction l as [|x r IH]; cbn; intros H; [constructor|]. apply andb_true_iff in H as [H1 H2].
  constructor; [|apply IH, H2]. intros Hin. apply negb_true_iff in H1.
  assert (existsb (N.eqb x) r = true) by (apply existsb_exists; exists x; split; [exact Hin | apply N.eqb_refl]). congruence.
Qed.

Theorem flatten_checked_instance (S : Type) act cond keys g real :
  hyps_okb keys g = true -> cfg_eqb (flatten keys g) real = true ->
  forall s r, (exists fuel, run S act cond g fuel (0, 0%N, s) = Some r) <->
              (exists fuel, run S act cond real fuel (flat_entry g, 0%N, s) = Some r).
Proof.
  intros Hh He. apply cfg_eqb_eq in He. subst real. unfold hyps_okb in Hh.
  apply andb_true_iff in Hh as [Hh H4]. apply andb_true_iff in Hh as [Hh H3].
  apply andb_true_iff in Hh as [Hh H2]. apply andb_true_iff in Hh as [Hh H1].
  apply flatten_equivalent.
  - exact Hh.
  - apply Nat.ltb_lt. assumption.
  - apply Nat.leb_le. assumption.
  - apply nodupb_NoDup. assumption.
  - apply Forall_forall. intros k Hk.
    match goal with H : forallb _ _ = true |- _ => pose proof (proj1 (forallb_forall _ _) H k Hk) as Hz end.
    apply negb_true_iff, N.eqb_neq in Hz. exact Hz.
Qed.
