(* Lemmas about Model/Names.v: well-formedness of obfuscated names (C16), salting (C12). *)
From Verif Require Import Base.Bytes Base.Sha256 Base.Base64 Model.Names.
From Coq Require Import ZArith ZifyN ZifyNat ZifyBool.
Open Scope N_scope.
Ltac Zify.zify_post_hook ::= Z.div_mod_to_equations.

(* ---------- the base64 alphabet ---------- *)
Definition url_char (c : N) : bool := is_lower c || is_upper c || is_digit c || (c =? 45) || (c =? 95).
Definition ident_char (c : N) : bool := is_letter c || is_digit c.

Lemma url_sym_char v : url_char (url_sym v) = true.
Proof.
  unfold url_sym, sym, url_char, is_lower, is_upper, is_digit, in_range.
  destruct (v <? 26) eqn:?; [lia|]. destruct (v <? 52) eqn:?; [lia|].
  destruct (v <? 62) eqn:?; [lia|]. destruct (v =? 62) eqn:?; lia.
Qed.

Lemma encode_url_chars l : Forall (fun c => url_char c = true) (encode_url l).
Proof.
  unfold encode_url.
  assert (H : forall n l, (length l <= n)%nat -> Forall (fun c => url_char c = true) (encode_with url_sym l)).
  { induction n as [|n IH]; intros l0 Hl.
    - destruct l0; [constructor | cbn in Hl; lia].
    - destruct l0 as [|a [|b [|c l']]]; cbn [encode_with].
      + constructor.
      + repeat constructor; apply url_sym_char.
      + repeat constructor; apply url_sym_char.
      + repeat (constructor; [apply url_sym_char|]). apply IH. cbn in Hl. lia. }
  apply (H (length l)). lia.
Qed.

Lemma encode_with_length9 s l : length l = 9%nat -> length (encode_with s l) = 12%nat.
Proof.
  intros H. do 10 (destruct l as [|? l]; cbn in H; try lia). reflexivity.
Qed.

(* ---------- shape of name_of_sum ---------- *)
Lemma hash_length_range sum : 6 <= hash_length sum <= 12.
Proof. unfold hash_length, min_hash_length, max_hash_length. lia. Qed.

Lemma name_length sum i e :
  length sum = 32%nat ->
  length (name_of_sum sum i e) = N.to_nat (hash_length sum).
Proof.
  intros Hs. unfold name_of_sum.
  assert (Hl : length (encode_url (firstn needed_sum_bytes sum)) = 12%nat).
  { apply encode_with_length9. rewrite firstn_length. unfold needed_sum_bytes. lia. }
  pose proof (hash_length_range sum) as Hr.
  set (b64 := firstn _ _).
  assert (Hb : length b64 = N.to_nat (hash_length sum)).
  { unfold b64. rewrite firstn_length, Hl. lia. }
  assert (Hfe : forall l, length (fix_export i e l) = length l) by (intros [|? ?]; reflexivity).
  assert (Hfd : forall l, length (fix_first_digit l) = length l) by (intros [|? ?]; reflexivity).
  rewrite Hfe, map_length, Hfd. exact Hb.
Qed.

Theorem name_length_bounds sum i e :
  length sum = 32%nat -> (6 <= length (name_of_sum sum i e) <= 12)%nat.
Proof.
  intros Hs. rewrite (name_length sum i e Hs). pose proof (hash_length_range sum). lia.
Qed.

Lemma fix_dash_ident c : url_char c = true -> ident_char (fix_dash c) = true.
Proof.
  unfold url_char, ident_char, fix_dash, is_letter, is_lower, is_upper, is_digit, in_range.
  intros H. destruct (c =? 45) eqn:?; lia.
Qed.

Lemma fix_dash_digit c : is_digit (fix_dash c) = true -> is_digit c = true.
Proof. unfold fix_dash, is_digit, in_range. destruct (c =? 45) eqn:?; lia. Qed.

Lemma firstn_Forall {A} (P : A -> Prop) n l : Forall P l -> Forall P (firstn n l).
Proof.
  revert l; induction n as [|n IH]; intros [|x l] H; cbn; try constructor.
  - inversion H; assumption.
  - apply IH. inversion H; assumption.
Qed.

Theorem name_charset sum i e :
  Forall (fun c => ident_char c = true) (name_of_sum sum i e).
Proof.
  unfold name_of_sum.
  set (b64 := firstn _ _).
  assert (Hb : Forall (fun c => url_char c = true) b64).
  { unfold b64. apply firstn_Forall, encode_url_chars. }
  destruct b64 as [|c l]; [constructor|].
  inversion Hb as [|? ? Hc Hl]; subst.
  cbn [fix_first_digit map fix_export].
  constructor.
  - unfold url_char, ident_char, fix_dash, is_letter, is_lower, is_upper, is_digit, in_range,
      to_upper, to_lower in *.
    destruct i, e; cbn [andb];
    repeat match goal with |- context [if ?b then _ else _] => destruct b eqn:? end; lia.
  - rewrite Forall_map. eapply Forall_impl; [|exact Hl]. intros a Ha. apply fix_dash_ident, Ha.
Qed.

Definition first_char (l : str) : N := hd 0 l.

Theorem name_first_not_digit sum i e :
  length sum = 32%nat -> is_digit (first_char (name_of_sum sum i e)) = false.
Proof.
  intros Hs. pose proof (name_length_bounds sum i e Hs) as Hlen.
  unfold name_of_sum in *.
  set (b64 := firstn _ _) in *.
  assert (Hb : Forall (fun c => url_char c = true) b64).
  { unfold b64. apply firstn_Forall, encode_url_chars. }
  destruct b64 as [|c l]; [cbn in Hlen; lia|].
  inversion Hb as [|? ? Hc Hl]; subst.
  cbn [fix_first_digit map fix_export first_char hd].
  unfold url_char, fix_dash, is_letter, is_lower, is_upper, is_digit, in_range, to_upper, to_lower in *.
  destruct i, e; cbn [andb];
  repeat match goal with |- context [if ?b then _ else _] => destruct b eqn:? end; lia.
Qed.

(* exported exactly when the original identifier was exported *)
Theorem export_preserved sum e :
  length sum = 32%nat -> is_upper (first_char (name_of_sum sum true e)) = e.
Proof.
  intros Hs. pose proof (name_length_bounds sum true e Hs) as Hlen.
  unfold name_of_sum in *.
  set (b64 := firstn _ _) in *.
  assert (Hb : Forall (fun c => url_char c = true) b64).
  { unfold b64. apply firstn_Forall, encode_url_chars. }
  destruct b64 as [|c l]; [cbn in Hlen; lia|].
  inversion Hb as [|? ? Hc Hl]; subst.
  cbn [fix_first_digit map fix_export first_char hd].
  unfold url_char, fix_dash, is_letter, is_lower, is_upper, is_digit, in_range, to_upper, to_lower in *.
  destruct e; cbn [andb];
  repeat match goal with |- context [if ?b then _ else _] => destruct b eqn:? end; lia.
Qed.

(* a name is a valid ASCII Go identifier (letters, digits, underscore; not starting with a digit) *)
Definition valid_name (n : str) : bool :=
  (Nat.leb 6 (length n)) && (Nat.leb (length n) 12) &&
  forallb ident_char n && negb (is_digit (first_char n)).

Theorem name_valid sum i e : length sum = 32%nat -> valid_name (name_of_sum sum i e) = true.
Proof.
  intros Hs. unfold valid_name.
  pose proof (name_length_bounds sum i e Hs) as [H6 H12].
  rewrite (name_first_not_digit sum i e Hs).
  assert (Hc : forallb ident_char (name_of_sum sum i e) = true).
  { apply forallb_forall. pose proof (name_charset sum i e) as Hf. rewrite Forall_forall in Hf. exact Hf. }
  rewrite Hc. apply Nat.leb_le in H6. apply Nat.leb_le in H12. rewrite H6, H12. reflexivity.
Qed.

(* ---------- sha256 output shape ---------- *)
Lemma round_length st kw : length st = 8%nat -> length (round st kw) = 8%nat.
Proof.
  intros H. do 9 (destruct st as [|? st]; cbn in H; try lia). reflexivity.
Qed.

Lemma fold_round_length l st : length st = 8%nat -> length (fold_left round l st) = 8%nat.
Proof.
  revert st; induction l as [|x l IH]; intros st H; cbn; [exact H|]. apply IH, round_length, H.
Qed.

Lemma compress_length h b : length h = 8%nat -> length (compress h b) = 8%nat.
Proof.
  intros H. unfold compress. rewrite map_length, combine_length, fold_round_length by exact H. lia.
Qed.

Lemma fold_compress_length l h : length h = 8%nat -> length (fold_left compress l h) = 8%nat.
Proof.
  revert h; induction l as [|x l IH]; intros h H; cbn; [exact H|]. apply IH, compress_length, H.
Qed.

Theorem sha256_length m : length (sha256 m) = 32%nat.
Proof.
  unfold sha256. set (st := fold_left _ _ _).
  assert (H : length st = 8%nat) by (apply fold_compress_length; reflexivity).
  do 9 (destruct st as [|? st]; cbn in H; try lia). reflexivity.
Qed.

(* ---------- the name is a function of (salt, seed, name) only; composite facts ---------- *)
Theorem hash_custom_valid salt seed name i e : valid_name (hash_custom salt seed name i e) = true.
Proof. apply name_valid, sha256_length. Qed.

Theorem hash_custom_export salt seed name e :
  is_upper (first_char (hash_custom salt seed name true e)) = e.
Proof. apply export_preserved, sha256_length. Qed.

(* ---------- collisions: equal names force (almost) equal hash prefixes ---------- *)
Definition sextets (l : bytes) : list N := encode_with (fun v => v) l.

Lemma encode_with_map s l : encode_with s l = map s (sextets l).
Proof.
  unfold sextets.
  assert (H : forall n l, (length l <= n)%nat -> encode_with s l = map s (encode_with (fun v => v) l)).
  { induction n as [|n IH]; intros l0 Hl.
    - destruct l0; [reflexivity | cbn in Hl; lia].
    - destruct l0 as [|a [|b [|c l']]]; cbn [encode_with map]; try reflexivity.
      rewrite IH by (cbn in Hl; lia). reflexivity. }
  apply (H (length l)). lia.
Qed.

Lemma bytes_ok_cons a l : bytes_ok (a :: l) = true -> a < 256 /\ bytes_ok l = true.
Proof.
  unfold bytes_ok. cbn [forallb]. rewrite andb_true_iff. unfold byte_ok. intros [H1 H2]. split; [lia | exact H2].
Qed.

Lemma sextets_lt l : bytes_ok l = true -> Forall (fun v => v < 64) (sextets l).
Proof.
  unfold sextets.
  assert (H : forall n l, (length l <= n)%nat -> bytes_ok l = true ->
            Forall (fun v => v < 64) (encode_with (fun v => v) l)).
  { induction n as [|n IH]; intros l0 Hl Hok.
    - destruct l0; [constructor | cbn in Hl; lia].
    - destruct l0 as [|a [|b [|c l']]]; cbn [encode_with].
      + constructor.
      + apply bytes_ok_cons in Hok as [Ha _]. repeat constructor; lia.
      + apply bytes_ok_cons in Hok as [Ha Hok]. apply bytes_ok_cons in Hok as [Hb _].
        repeat constructor; lia.
      + apply bytes_ok_cons in Hok as [Ha Hok]. apply bytes_ok_cons in Hok as [Hb Hok].
        apply bytes_ok_cons in Hok as [Hc Hok].
        repeat (constructor; [lia|]). apply IH; [cbn in Hl; lia | exact Hok]. }
  intros Hok. apply (H (length l)); [lia | exact Hok].
Qed.

(* two 6-bit symbols print alike after the dash fix-up iff equal or both in {'a' (26), '-' (62)} *)
Definition tail_equivb (a b : N) : bool :=
  (a =? b) || (((a =? 26) || (a =? 62)) && ((b =? 26) || (b =? 62))).

Definition range64 : list N := map N.of_nat (seq 0 64).

Lemma range64_in v : v < 64 -> In v range64.
Proof.
  intros H. unfold range64. apply in_map_iff. exists (N.to_nat v). split; [lia|].
  apply in_seq. lia.
Qed.

Definition tail_table_ok : bool :=
  forallb (fun a => forallb (fun b =>
    implb (fix_dash (url_sym a) =? fix_dash (url_sym b)) (tail_equivb a b)) range64) range64.

Lemma tail_table : tail_table_ok = true.
Proof. vm_compute. reflexivity. Qed.

Lemma tail_equiv_of_eq a b : a < 64 -> b < 64 ->
  fix_dash (url_sym a) = fix_dash (url_sym b) -> tail_equivb a b = true.
Proof.
  intros Ha Hb He. pose proof tail_table as T. unfold tail_table_ok in T.
  rewrite forallb_forall in T. specialize (T a (range64_in a Ha)).
  rewrite forallb_forall in T. specialize (T b (range64_in b Hb)).
  rewrite He, N.eqb_refl in T. exact T.
Qed.

(* at most four leading symbols print alike after all fix-ups, for each (is_ident, is_exported) *)
Definition head_fix (i e : bool) (v : N) : N :=
  hd 0 (fix_export i e (map fix_dash (fix_first_digit [url_sym v]))).
Definition head_class_size (i e : bool) (v : N) : nat :=
  length (filter (fun w => head_fix i e w =? head_fix i e v) range64).
Definition head_table_ok : bool :=
  forallb (fun ie => forallb (fun v => Nat.leb (head_class_size (fst ie) (snd ie) v) 4) range64)
          [(true, true); (true, false); (false, true); (false, false)].

Theorem head_classes_small : head_table_ok = true.
Proof. vm_compute. reflexivity. Qed.

Lemma map_eq_Forall2 {A B} (f : A -> B) l1 l2 :
  map f l1 = map f l2 -> Forall2 (fun a b => f a = f b) l1 l2.
Proof.
  revert l2; induction l1 as [|a l1 IH]; intros [|b l2] H; cbn in H; try discriminate; constructor.
  - injection H as H1 H2. exact H1.
  - apply IH. injection H as H1 H2. exact H2.
Qed.

Lemma map_tl {A B} (f : A -> B) l : tl (map f l) = map f (tl l).
Proof. destruct l; reflexivity. Qed.

Lemma tl_fix_export i e l : tl (fix_export i e l) = tl l.
Proof. destruct l; reflexivity. Qed.
Lemma tl_fix_first_digit l : tl (fix_first_digit l) = tl l.
Proof. destruct l; reflexivity. Qed.

Lemma In_firstn {A} n (l : list A) x : In x (firstn n l) -> In x l.
Proof.
  revert l; induction n as [|n IH]; intros [|y l] H; cbn in H; try contradiction.
  destruct H as [->|H]; [left; reflexivity | right; apply IH, H].
Qed.

Definition name_sextets (sum : bytes) : list N :=
  firstn (N.to_nat (hash_length sum)) (sextets (firstn needed_sum_bytes sum)).

Lemma firstn_map {A B} (f : A -> B) n l : firstn n (map f l) = map f (firstn n l).
Proof. revert l; induction n; intros [|x l]; cbn; try reflexivity. rewrite IHn. reflexivity. Qed.

Lemma Forall_tl {A} (P : A -> Prop) l : Forall P l -> Forall P (tl l).
Proof. intros H. destruct l; [constructor | inversion H; assumption]. Qed.

Theorem collision_requires_prefix_collision s1 s2 i e :
  length s1 = 32%nat -> length s2 = 32%nat -> bytes_ok s1 = true -> bytes_ok s2 = true ->
  name_of_sum s1 i e = name_of_sum s2 i e ->
  hash_length s1 = hash_length s2 /\
  Forall2 (fun a b => tail_equivb a b = true) (tl (name_sextets s1)) (tl (name_sextets s2)).
Proof.
  intros L1 L2 O1 O2 Heq. split.
  - pose proof (name_length s1 i e L1) as H1. pose proof (name_length s2 i e L2) as H2.
    rewrite Heq in H1. lia.
  - apply (f_equal (@tl N)) in Heq. unfold name_of_sum in Heq.
    rewrite !tl_fix_export, !map_tl, !tl_fix_first_digit in Heq.
    unfold encode_url in Heq. rewrite !encode_with_map, !firstn_map, !map_tl, !map_map in Heq.
    apply map_eq_Forall2 in Heq. unfold name_sextets.
    assert (B1 : Forall (fun v => v < 64) (tl (firstn (N.to_nat (hash_length s1)) (sextets (firstn needed_sum_bytes s1))))).
    { apply Forall_tl, firstn_Forall, sextets_lt. unfold bytes_ok in *.
      rewrite forallb_forall in *. intros x Hx. apply O1. eapply In_firstn; eauto. }
    assert (B2 : Forall (fun v => v < 64) (tl (firstn (N.to_nat (hash_length s2)) (sextets (firstn needed_sum_bytes s2))))).
    { apply Forall_tl, firstn_Forall, sextets_lt. unfold bytes_ok in *.
      rewrite forallb_forall in *. intros x Hx. apply O2. eapply In_firstn; eauto. }
    revert B1 B2 Heq.
    generalize (tl (firstn (N.to_nat (hash_length s1)) (sextets (firstn needed_sum_bytes s1)))).
    generalize (tl (firstn (N.to_nat (hash_length s2)) (sextets (firstn needed_sum_bytes s2)))).
    intros l2 l1 B1 B2 F. induction F as [|a b l1' l2' Hab F IH]; [constructor|].
    inversion B1; inversion B2; subst. constructor; [apply tail_equiv_of_eq; assumption | apply IH; assumption].
Qed.

(* sha256 produces bytes *)
Lemma word_bytes_ok w : w < w32 -> bytes_ok (word_bytes w) = true.
Proof. unfold w32, word_bytes, bytes_ok, byte_ok. cbn [forallb]. intros H. lia. Qed.

Lemma add32_lt a b : add32 a b < w32.
Proof. unfold add32, w32. lia. Qed.

Lemma compress_lt h b : Forall (fun w => w < w32) (compress h b).
Proof.
  unfold compress. apply Forall_map. apply Forall_forall. intros p _. apply add32_lt.
Qed.

Lemma fold_compress_lt l h : Forall (fun w => w < w32) h -> Forall (fun w => w < w32) (fold_left compress l h).
Proof.
  revert h; induction l as [|x l IH]; intros h H; cbn; [exact H|]. apply IH, compress_lt.
Qed.

Theorem sha256_bytes_ok m : bytes_ok (sha256 m) = true.
Proof.
  unfold sha256. set (st := fold_left _ _ _).
  assert (H : Forall (fun w => w < w32) st).
  { apply fold_compress_lt. unfold H0, w32. repeat constructor; lia. }
  clearbody st. induction H as [|w l Hw _ IH]; [reflexivity|].
  cbn [flat_map]. rewrite bytes_ok_app, IH, word_bytes_ok by exact Hw. reflexivity.
Qed.

(* ================= C12: what the salt depends on ================= *)
Definition no_byte (b : N) (l : bytes) : bool := forallb (fun c => negb (c =? b)) l.

(* splitting at the first occurrence of a separator byte *)
Lemma app_sep_inj (sep : N) a1 a2 r1 r2 :
  no_byte sep a1 = true -> no_byte sep a2 = true ->
  a1 ++ sep :: r1 = a2 ++ sep :: r2 -> a1 = a2 /\ r1 = r2.
Proof.
  revert a2; induction a1 as [|x a1 IH]; intros [|y a2] H1 H2 H; cbn in *.
  - injection H as ->. auto.
  - injection H as <- _. rewrite N.eqb_refl in H2. discriminate.
  - injection H as -> _. rewrite N.eqb_refl in H1. discriminate.
  - injection H as -> H. apply andb_true_iff in H1 as [_ H1]. apply andb_true_iff in H2 as [_ H2].
    destruct (IH a2 H1 H2 H) as [-> ->]. auto.
Qed.

Lemma app_len_inj {A} (a1 a2 r1 r2 : list A) :
  length a1 = length a2 -> a1 ++ r1 = a2 ++ r2 -> a1 = a2 /\ r1 = r2.
Proof.
  revert a2; induction a1 as [|x a1 IH]; intros [|y a2] Hl H; cbn in *; try discriminate; auto.
  injection H as -> H. injection Hl as Hl. destruct (IH a2 Hl H) as [-> ->]. auto.
Qed.

(* seeded: the hash input is path ++ "|" ++ seed ++ name; injective in (path, seed, name) for
   seeds of one length and paths without '|' *)
Theorem seeded_input_injective p1 p2 s1 s2 n1 n2 :
  no_byte 124 p1 = true -> no_byte 124 p2 = true -> length s1 = length s2 ->
  (p1 ++ [124]) ++ s1 ++ n1 = (p2 ++ [124]) ++ s2 ++ n2 -> p1 = p2 /\ s1 = s2 /\ n1 = n2.
Proof.
  intros H1 H2 Hl H. rewrite <- !app_assoc in H. cbn [app] in H.
  destruct (app_sep_inj 124 _ _ _ _ H1 H2 H) as [-> H'].
  destruct (app_len_inj _ _ _ _ Hl H') as [-> ->]. auto.
Qed.

(* seeded names depend on nothing but (seed, package path, name) *)
Theorem seeded_name_depends_only_on c1 c2 path aid1 aid2 name i e :
  c_seed c1 = c_seed c2 -> seed_present c1 = true ->
  hash_with_package c1 path aid1 name i e = hash_with_package c2 path aid2 name i e.
Proof.
  intros Hs Hp. unfold hash_with_package, pkg_salt.
  assert (Hp2 : seed_present c2 = true) by (unfold seed_present in *; rewrite <- Hs; exact Hp).
  rewrite Hp, Hp2, Hs. reflexivity.
Qed.

Theorem seeded_field_depends_only_on c1 c2 shape f e :
  c_seed c1 = c_seed c2 -> seed_present c1 = true ->
  hash_with_struct c1 shape f e = hash_with_struct c2 shape f e.
Proof.
  intros Hs Hp. unfold hash_with_struct, struct_salt.
  assert (Hp2 : seed_present c2 = true) by (unfold seed_present in *; rewrite <- Hs; exact Hp).
  rewrite Hp, Hp2, Hs. reflexivity.
Qed.

(* unseeded: the input of the package salt, h ++ binary_id ++ " GOGARBLE=" ++ g ++ flags *)
Definition seedless (c : gcfg) : Prop := c_seed c = [] /\ c_testobf c = [].

Definition flag_combo (c : gcfg) : bool * bool * bool := (c_literals c, c_tiny c, c_ctrlflow c).
Definition flags_of_combo (k : bool * bool * bool) : bytes :=
  let '(l, t, cf) := k in
  (if l then s_literals else []) ++ (if t then s_tiny else []) ++ [] ++ (if cf then s_ctrlflow else []) ++ [].

Lemma build_flags_seedless c : seedless c -> build_flags c = flags_of_combo (flag_combo c).
Proof.
  intros [Hs Ht]. unfold build_flags, flags_of_combo, flag_combo, seed_present. rewrite Hs, Ht. reflexivity.
Qed.

Definition combos : list (bool * bool * bool) :=
  [(false,false,false);(false,false,true);(false,true,false);(false,true,true);
   (true,false,false);(true,false,true);(true,true,false);(true,true,true)].

Lemma combos_all k : In k combos.
Proof. destruct k as [[[] []] []]; cbn; tauto. Qed.

Definition eqb3 (a b : bool * bool * bool) : bool :=
  let '(a1, a2, a3) := a in let '(b1, b2, b3) := b in Bool.eqb a1 b1 && Bool.eqb a2 b2 && Bool.eqb a3 b3.

(* the 8 seedless flag strings are pairwise distinct, and each is empty or starts with a space *)
Definition flags_table_ok : bool :=
  forallb (fun a => forallb (fun b => implb (beq (flags_of_combo a) (flags_of_combo b)) (eqb3 a b)) combos
                    && match flags_of_combo a with [] => true | c :: _ => c =? 32 end) combos.
Lemma flags_table_ok_true : flags_table_ok = true. Proof. vm_compute. reflexivity. Qed.

Lemma eqb3_eq a b : eqb3 a b = true -> a = b.
Proof. destruct a as [[[] []] []], b as [[[] []] []]; cbn; intros H; try discriminate; reflexivity. Qed.

Lemma flags_of_combo_inj a b : flags_of_combo a = flags_of_combo b -> a = b.
Proof.
  intros H. pose proof flags_table_ok_true as T. unfold flags_table_ok in T. rewrite forallb_forall in T.
  specialize (T a (combos_all a)). apply andb_true_iff in T as [T _]. rewrite forallb_forall in T.
  specialize (T b (combos_all b)). rewrite H, beq_refl in T. cbn in T. apply eqb3_eq, T.
Qed.

Lemma flags_head a : match flags_of_combo a with [] => True | c :: _ => c = 32 end.
Proof.
  pose proof flags_table_ok_true as T. unfold flags_table_ok in T. rewrite forallb_forall in T.
  specialize (T a (combos_all a)). apply andb_true_iff in T as [_ T].
  destruct (flags_of_combo a); [exact I | apply N.eqb_eq, T].
Qed.

(* g ++ f where g has no space and f is empty or starts with a space: the split is unique *)
Lemma nospace_split g1 g2 f1 f2 :
  no_byte 32 g1 = true -> no_byte 32 g2 = true ->
  match f1 with [] => True | c :: _ => c = 32 end -> match f2 with [] => True | c :: _ => c = 32 end ->
  g1 ++ f1 = g2 ++ f2 -> g1 = g2 /\ f1 = f2.
Proof.
  revert g2; induction g1 as [|x g1 IH]; intros [|y g2] H1 H2 F1 F2 H; cbn in *.
  - auto.
  - destruct f1 as [|c f1]; [discriminate|]. injection H as -> H. subst. rewrite N.eqb_refl in H2. discriminate.
  - destruct f2 as [|c f2]; [discriminate|]. injection H as -> H. subst. rewrite N.eqb_refl in H1. discriminate.
  - injection H as -> H. apply andb_true_iff in H1 as [_ H1]. apply andb_true_iff in H2 as [_ H2].
    destruct (IH g2 H1 H2 F1 F2 H) as [-> ->]. auto.
Qed.

Theorem unseeded_input_injective h1 h2 c1 c2 :
  seedless c1 -> seedless c2 ->
  length h1 = length h2 -> length (c_binary_id c1) = length (c_binary_id c2) ->
  no_byte 32 (c_gogarble c1) = true -> no_byte 32 (c_gogarble c2) = true ->
  garble_hash_input h1 c1 = garble_hash_input h2 c2 ->
  h1 = h2 /\ c_binary_id c1 = c_binary_id c2 /\ c_gogarble c1 = c_gogarble c2 /\ flag_combo c1 = flag_combo c2.
Proof.
  intros S1 S2 Lh Lb G1 G2 H. unfold garble_hash_input in H.
  destruct (app_len_inj _ _ _ _ Lh H) as [-> H1].
  destruct (app_len_inj _ _ _ _ Lb H1) as [Hb H2].
  destruct (app_len_inj s_gogarble s_gogarble _ _ eq_refl H2) as [_ H3].
  rewrite (build_flags_seedless c1 S1), (build_flags_seedless c2 S2) in H3.
  destruct (nospace_split _ _ _ _ G1 G2 (flags_head _) (flags_head _) H3) as [Hg Hf].
  repeat split; auto. apply flags_of_combo_inj, Hf.
Qed.

(* with a space in GOGARBLE the encoding is ambiguous: two different configurations, one input *)
Theorem hash_input_ambiguous_refuted :
  exists h c1 c2, flag_combo c1 <> flag_combo c2 /\ garble_hash_input h c1 = garble_hash_input h c2.
Proof.
  exists [1],
    {| c_literals := false; c_tiny := true; c_ctrlflow := false; c_seed := []; c_gogarble := [42; 44]; c_binary_id := [2]; c_testobf := [] |},
    {| c_literals := false; c_tiny := false; c_ctrlflow := false; c_seed := []; c_gogarble := [42; 44] ++ s_tiny; c_binary_id := [2]; c_testobf := [] |}.
  split; [cbn; discriminate | vm_compute; reflexivity].
Qed.
