(* Lemmas about Model/Rename.v (C01, C13). *)
From Verif Require Import Base.Bytes Model.Flags Model.Names Model.Scope Model.Rename.
Open Scope N_scope.

Section R.
  Variable obj : Type.
  Variable rn : obj -> str.

  Lemma lookup_in (s : scope obj) n o : lookup s n = Some o -> In (n, o) s.
  Proof.
    induction s as [|[m o'] r IH]; cbn; [discriminate|]. destruct (beq n m) eqn:E.
    - intros H. injection H as ->. apply beq_eq in E. subst. left; reflexivity.
    - intros H. right. apply IH, H.
  Qed.

  (* within one scope: under no_clash the renamed lookup finds the same binding *)
  Lemma lookup_rename (s : scope obj) (all : list (str * obj)) n o :
    (forall b, In b s -> In b all) ->
    (forall n1 o1 n2 o2, In (n1, o1) all -> In (n2, o2) all -> (rn o1 = rn o2 <-> n1 = n2)) ->
    In (n, o) all ->
    lookup (rename_scope rn s) (rn o) = match lookup s n with Some o' => Some o' | None => None end.
  Proof.
    intros Hsub Hnc Hin. induction s as [|[m o'] r IH]; [reflexivity|].
    cbn [rename_scope map lookup fst snd].
    assert (Hm : In (m, o') all) by (apply Hsub; left; reflexivity).
    destruct (beq n m) eqn:E.
    - apply beq_eq in E. subst m.
      assert (Hr : rn o = rn o') by (apply (Hnc n o n o' Hin Hm); reflexivity).
      rewrite Hr, beq_refl. reflexivity.
    - assert (Hr : beq (rn o) (rn o') = false).
      { apply not_true_is_false. intros Hb. apply beq_eq in Hb.
        apply (Hnc n o m o' Hin Hm) in Hb. subst m. rewrite beq_refl in E. discriminate. }
      rewrite Hr. apply IH. intros b Hb. apply Hsub. right. exact Hb.
  Qed.

  Lemma resolve_in (c : list (scope obj)) n o : resolve c n = Some o -> In (n, o) (bindings c).
  Proof.
    induction c as [|s r IH]; cbn; [discriminate|]. unfold bindings. cbn [concat]. rewrite in_app_iff.
    destruct (lookup s n) eqn:E.
    - intros H. injection H as ->. left. apply lookup_in, E.
    - intros H. right. apply IH, H.
  Qed.

  (* renaming preserves resolution: whatever a name resolved to, the new name of that object
     resolves to the same object in the renamed scopes *)
  Theorem rename_preserves_resolution (c : list (scope obj)) n o :
    no_clash rn c -> resolve c n = Some o -> resolve (rename_chain rn c) (rn o) = Some o.
  Proof.
    intros Hnc Hres. pose proof (resolve_in c n o Hres) as Hin.
    assert (Hgen : forall c', (forall b, In b (bindings c') -> In b (bindings c)) ->
                   resolve c' n = Some o -> resolve (rename_chain rn c') (rn o) = Some o).
    { induction c' as [|s r IH]; intros Hsub Hr; cbn in *; [discriminate|].
      rewrite (lookup_rename s (bindings c) n o).
      - destruct (lookup s n) eqn:E; [exact Hr|]. apply IH; [|exact Hr].
        intros b Hb. apply Hsub. unfold bindings. cbn [concat]. apply in_or_app. right. exact Hb.
      - intros b Hb. apply Hsub. unfold bindings. cbn [concat]. apply in_or_app. left. exact Hb.
      - exact Hnc.
      - exact Hin. }
    apply Hgen; [auto | exact Hres].
  Qed.

  (* and a name that resolved to nothing visible is not captured by a renamed binding either *)
  Theorem rename_no_capture (c : list (scope obj)) n o :
    no_clash rn c -> In (n, o) (bindings c) ->
    forall o', resolve (rename_chain rn c) (rn o) = Some o' -> exists n', In (n', o') (bindings c) /\ n' = n.
  Proof.
    intros Hnc Hin. induction c as [|s r IH]; intros o' Hr; [discriminate|].
    assert (Hall : forall c' , (forall b, In b (bindings c') -> In b (bindings (s :: r))) ->
                   resolve (rename_chain rn c') (rn o) = Some o' -> exists n', In (n', o') (bindings (s :: r)) /\ n' = n).
    { clear IH Hr. induction c' as [|s' r' IH']; intros Hsub Hr; cbn in Hr; [discriminate|].
      destruct (lookup (rename_scope rn s') (rn o)) eqn:E.
      - injection Hr as ->. apply lookup_in in E. unfold rename_scope in E. apply in_map_iff in E as ([m o2] & Heq & Hin2).
        cbn in Heq. injection Heq as Hrn ->. exists m. split.
        + apply Hsub. unfold bindings. cbn [concat]. apply in_or_app. left. exact Hin2.
        + assert (Hm : In (m, o') (bindings (s :: r))) by (apply Hsub; unfold bindings; cbn [concat]; apply in_or_app; left; exact Hin2).
          symmetry. apply (Hnc n o m o' Hin Hm). symmetry. exact Hrn.
      - apply IH'; [|exact Hr]. intros b Hb. apply Hsub. unfold bindings. cbn [concat]. apply in_or_app. right. exact Hb. }
    apply (Hall (s :: r)); auto.
  Qed.
End R.

(* interface satisfaction is preserved by a renaming that is injective on the method names in play *)
Lemma mem_map_inj (f : str -> str) (l : list str) (x : str) :
  (forall a b, In a (x :: l) -> In b (x :: l) -> f a = f b -> a = b) ->
  mem (f x) (map f l) = mem x l.
Proof.
  intros Hinj. unfold mem. induction l as [|y l IH]; [reflexivity|]. cbn [map existsb].
  assert (Hy : beq (f x) (f y) = beq x y).
  { destruct (beq x y) eqn:E.
    - apply beq_eq in E. subst. apply beq_refl.
    - apply not_true_is_false. intros Hb. apply beq_eq in Hb.
      apply Hinj in Hb; [subst; rewrite beq_refl in E; discriminate | left; reflexivity | right; left; reflexivity]. }
  rewrite Hy. f_equal. apply IH. intros a b Ha Hb. apply Hinj.
  - destruct Ha as [->|Ha]; [left; reflexivity | right; right; exact Ha].
  - destruct Hb as [->|Hb]; [left; reflexivity | right; right; exact Hb].
Qed.

Theorem implements_preserved (f : str -> str) (t i : list str) :
  (forall a b, In a (t ++ i) -> In b (t ++ i) -> f a = f b -> a = b) ->
  implements (map f t) (map f i) = implements t i.
Proof.
  intros Hinj. unfold implements. induction i as [|m i IH]; [reflexivity|]. cbn [map forallb].
  rewrite mem_map_inj.
  - f_equal. apply IH. intros a b Ha Hb. apply Hinj; apply in_app_iff.
    + apply in_app_iff in Ha as [Ha|Ha]; [left; exact Ha | right; right; exact Ha].
    + apply in_app_iff in Hb as [Hb|Hb]; [left; exact Hb | right; right; exact Hb].
  - intros a b Ha Hb. apply Hinj; apply in_app_iff.
    + destruct Ha as [->|Ha]; [right; left; reflexivity | left; exact Ha].
    + destruct Hb as [->|Hb]; [right; left; reflexivity | left; exact Hb].
Qed.

(* ---------- fixed points of the decision ---------- *)
Theorem decide_keeps_entry_points intr to_obf d :
  (o_kind d = KFunc \/ o_kind d = KMethod) ->
  (beq (o_name d) s_main || beq (o_name d) s_init || beq (o_name d) s_TestMain) = true ->
  decide intr to_obf d = Keep.
Proof.
  intros Hk Hn. unfold decide. destruct (o_universe d); [reflexivity|].
  destruct (special_keep _ _); [reflexivity|]. destruct (negb _); [reflexivity|].
  destruct Hk as [-> | ->]; destruct (intrinsic _ _ _); try reflexivity;
    destruct (o_exported d); cbn [andb]; rewrite ?Hn; reflexivity.
Qed.

Theorem decide_keeps_exported_methods intr to_obf d :
  o_kind d = KMethod -> o_exported d = true -> decide intr to_obf d = Keep.
Proof.
  intros Hk He. unfold decide. destruct (o_universe d); [reflexivity|].
  destruct (special_keep _ _); [reflexivity|]. destruct (negb _); [reflexivity|].
  rewrite Hk, He. destruct (intrinsic _ _ _); reflexivity.
Qed.

Theorem decide_keeps_tests intr to_obf d :
  o_kind d = KFunc -> is_prefix s_Test (o_name d) = true -> o_test_sig d = true -> decide intr to_obf d = Keep.
Proof.
  intros Hk Hp Ht. unfold decide. destruct (o_universe d); [reflexivity|].
  destruct (special_keep _ _); [reflexivity|]. destruct (negb _); [reflexivity|].
  rewrite Hk, Hp, Ht. destruct (intrinsic _ _ _); [reflexivity|].
  cbn [andb]. rewrite andb_false_r. destruct (_ || _); reflexivity.
Qed.

Theorem decide_keeps_plain_packages intr to_obf d :
  to_obf (o_pkg d) = false -> decide intr to_obf d = Keep.
Proof.
  intros H. unfold decide. destruct (o_universe d); [reflexivity|].
  destruct (special_keep _ _); [reflexivity|]. rewrite H. reflexivity.
Qed.

Theorem decide_keeps_universe intr to_obf d : o_universe d = true -> decide intr to_obf d = Keep.
Proof. intros H. unfold decide. rewrite H. reflexivity. Qed.

(* everything else that is a variable, type, field, function or unexported method of an
   obfuscated package is hashed *)
Theorem decide_hashes_the_rest intr to_obf d :
  o_universe d = false -> special_keep (o_pkg d) (o_name d) = false -> to_obf (o_pkg d) = true ->
  match o_kind d with
  | KVar | KType => decide intr to_obf d = HashPkg
  | KField => decide intr to_obf d = HashStruct
  | _ => True
  end.
Proof.
  intros Hu Hs Ht. unfold decide. rewrite Hu, Hs, Ht. destruct (o_kind d); cbn; auto.
Qed.
