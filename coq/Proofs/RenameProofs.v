(* Lemmas about Model/Rename.v (C01, C13). *)
From Verif Require Import Base.Bytes Model.Flags Model.Names Model.Scope Model.Rename.
Open Scope N_scope.

Section R.
  Variable obj : Type.
  Variable rn : obj -> str.

  Lemma lookup_in (s : scope obj) n o : lookup s n = Some o -> In (n, o) s.
  Proof.
    induction s as [|[m o'] r IH]; cbn; [discriminate|]. destruct (beq n m) eqn:E.
    - intros H. injection H as ->. apply beq_eq in E. subst. left; reflexivity.
    - intros H. right. apply IH, H.
  Qed.

  (* within one scope: under no_clash the renamed lookup finds the same binding *)
  Lemma lookup_rename (s : scope obj) (all : list (str * obj)) n o :
    (forall b, In b s -> In b all) ->
    (forall n1 o1 n2 o2, In (n1, o1) all -> In (n2, o2) all -> (rn o1 = rn o2 <-> n1 = n2)) ->
    In (n, o) all ->
    lookup (rename_scope rn s) (rn o) = match lookup s n with Some o' => Some o' | None => None end.
  Proof.
    intros Hsub Hnc Hin. induction s as [|[m o'] r IH]; [reflexivity|].
    cbn [rename_scope map lookup fst snd].
    assert (Hm : In (m, o') all) by (apply Hsub; left; reflexivity).
    destruct (beq n m) eqn:E.
    - apply beq_eq in E. subst m.
      assert (Hr : rn o = rn o') by (apply (Hnc n o n o' Hin Hm); reflexivity).
      rewrite Hr, beq_refl. reflexivity.
    - assert (Hr : beq (rn o) (rn o') = false).
      { apply not_true_is_false. intros Hb. apply beq_eq in Hb.
        apply (Hnc n o m o' Hin Hm) in Hb. subst m. rewrite beq_refl in E. discriminate. }
      rewrite Hr. apply IH. intros b Hb. apply Hsub. right. exact Hb.
  Qed.

  Lemma resolve_in (c : list (scope obj)) n o : resolve c n = Some o -> In (n, o) (bindings c).
  Proof.
    induction c as [|s r IH]; cbn; [discriminate|]. unfold bindings. cbn [concat]. rewrite in_app_iff.
    destruct (lookup s n) eqn:E.
    - intros H. injection H as ->. left. apply lookup_in, E.
    - intros H. right. apply IH, H.
  Qed.

  (* renaming preserves resolution: whatever a name resolved to, the new name of that object
     resolves to the same object in the renamed scopes *)
  Theorem rename_preserves_resolution (c : list (scope obj)) n o :
    no_clash rn c -> resolve c n = Some o -> resolve (rename_chain rn c) (rn o) = Some o.
  Proof.
    intros Hnc Hres. pose proof (resolve_in c n o Hres) as Hin.
    assert (Hgen : forall c', (forall b, In b (bindings c') -> In b (bindings c)) ->
                   resolve c' n = Some o -> resolve (rename_chain rn c') (rn o) = Some o).
    { induction c' as [|s r IH]; intros Hsub Hr; cbn in *; [discriminate|].
      rewrite (lookup_rename s (bindings c) n o).
      - destruct (lookup s n) eqn:E; [exact Hr|]. apply IH; [|exact Hr].
        intros b Hb. apply Hsub. unfold bindings. cbn [concat]. apply in_or_app. right. exact Hb.
      - intros b Hb. apply Hsub. unfold bindings. cbn [concat]. apply in_or_app. left. exact Hb.
      - exact Hnc.
      - exact Hin. }
    apply Hgen; [auto | exact Hres].
  Qed.

  (* and a name that resolved to nothing visible is not captured by a renamed binding either *)
  Theorem rename_no_capture (c : list (scope obj)) n o :
    no_clash rn c -> In (n, o) (bindings c) ->
    forall o', resolve (rename_chain rn c) (rn o) = Some o' -> exists n', In (n', o') (bindings c) /\ n' = n.
  Proof.
    intros Hnc Hin. induction c as [|s r IH]; intros o' Hr; [discriminate|].
    assert (Hall : forall c' , (forall b, In b (bindings c') -> In b (bindings (s :: r))) ->
                   resolve (rename_chain rn c') (rn o) = Some o' -> exists n', In (n', o') (bindings (s :: r)) /\ n' = n).
    { clear IH Hr. induction c' as [|s' r' IH']; intros Hsub Hr; cbn in Hr; [discriminate|].
      destruct (lookup (rename_scope rn s') (rn o)) eqn:E.
      - injection Hr as ->. apply lookup_in in E. unfold rename_scope in E. apply in_map_iff in E as ([m o2] & Heq & Hin2).
        cbn in Heq. injection Heq as Hrn ->. exists m. split.
        + apply Hsub. unfold bindings. cbn [concat]. apply in_or_app. left. exact Hin2.
        + assert (Hm : In (m, o') (bindings (s :: r))) by (apply Hsub; unfold bindings; cbn [concat]; apply in_or_app; left; exact Hin2).
          symmetry. apply (Hnc n o m o' Hin Hm). symmetry. exact Hrn.
      - apply IH'; [|exact Hr]. intros b Hb. apply Hsub. unfold bindings. cbn [concat]. apply in_or_app. right. exact Hb. }
    apply (Hall (s :: r)); auto.
  Qed.
End R.

(* interface satisfaction is preserved by a renaming that is injective on the method names in play *)
Lemma mem_map_inj (f : str -> str) (l : list str) (x : str) :
  (forall a b, In a (x :: l) -> In b (x :: l) -> f a = f b -> a = b) ->
  mem (f x) (map f l) = mem x l.
Proof.
  intros Hinj. unfold mem. induction l as [|y l IH]; [reflexivity|]. cbn [map existsb].
  assert (Hy : beq (f x) (f y) = beq x y).
  { destruct (beq x y) eqn:E.
    - apply beq_eq in E. subst. apply beq_refl.
    - apply not_true_is_false. intros Hb. apply beq_eq in Hb.
      apply Hinj in Hb; [subst; rewrite beq_refl in E; discriminate | left; reflexivity | right; left; reflexivity]. }
  rewrite Hy. f_equal. apply IH. intros a b Ha Hb. apply Hinj.
  - destruct Ha as [->|Ha]; [left; reflexivity | right; right; exact Ha].
  - destruct Hb as [->|Hb]; [left; reflexivity | right; right; exact Hb].
Qed.

Theorem implements_preserved (f : str -> str) (t i : list str) :
  (forall a b, In a (t ++ i) -> In b (t ++ i) -> f a = f b -> a = b) ->
  implements (map f t) (map f i) = implements t i.
Proof.
  intros Hinj. unfold implements. induction i as [|m i IH]; [reflexivity|]. cbn [map forallb].
  rewrite mem_map_inj.
  - f_equal. apply IH. intros a b Ha Hb. apply Hinj; apply in_app_iff.
    + apply in_app_iff in Ha as [Ha|Ha]; [left; exact Ha | right; right; exact Ha].
    + apply in_app_iff in Hb as [Hb|Hb]; [left; exact Hb | right; right; exact Hb].
  - intros a b Ha Hb. apply Hinj; apply in_app_iff.
    + destruct Ha as [->|Ha]; [right; left; reflexivity | left; exact Ha].
    + destruct Hb as [->|Hb]; [right; left; reflexivity | left; exact Hb].
Qed.

(* ---------- fixed points of the decision ---------- *)
Theorem decide_keeps_entry_points intr to_obf d :
  (o_kind d = KFunc \/ o_kind d = KMethod) ->
  (beq (o_name d) s_main || beq (o_name d) s_init || beq (o_name d) s_TestMain) = true ->
  decide intr to_obf d = Keep.
Proof.
  intros Hk Hn. unfold decide. destruct (o_universe d); [reflexivity|].
  destruct (special_keep _ _); [reflexivity|]. destruct (negb _); [reflexivity|].
  destruct Hk as [-> | ->]; destruct (intrinsic _ _ _); try reflexivity;
    destruct (o_exported d); cbn [andb]; rewrite ?Hn; reflexivity.
Qed.

Theorem decide_keeps_exported_methods intr to_obf d :
  o_kind d = KMethod -> o_exported d = true -> decide intr to_obf d = Keep.
Proof.
  intros Hk He. unfold decide. destruct (o_universe d); [reflexivity|].
  destruct (special_keep _ _); [reflexivity|]. destruct (negb _); [reflexivity|].
  rewrite Hk, He. destruct (intrinsic _ _ _); reflexivity.
Qed.

Theorem decide_keeps_tests intr to_obf d :
  o_kind d = KFunc -> is_prefix s_Test (o_name d) = true -> o_test_sig d = true -> decide intr to_obf d = Keep.
Proof.
  intros Hk Hp Ht. unfold decide. destruct (o_universe d); [reflexivity|].
  destruct (special_keep _ _); [reflexivity|]. destruct (negb _); [reflexivity|].
  rewrite Hk, Hp, Ht. destruct (intrinsic _ _ _); [reflexivity|].
  cbn [andb]. rewrite andb_false_r. destruct (_ || _); reflexivity.
Qed.

Theorem decide_keeps_plain_packages intr to_obf d :
  to_obf (o_pkg d) = false -> decide intr to_obf d = Keep.
Proof.
  intros H. unfold decide. destruct (o_universe d); [reflexivity|].
  destruct (special_keep _ _); [reflexivity|]. rewrite H. reflexivity.
Qed.

Theorem decide_keeps_universe intr to_obf d : o_universe d = true -> decide intr to_obf d = Keep.
Proof. intros H. unfold decide. rewrite H. reflexivity. Qed.

(* everything else that is a variable, type, field, function or unexported method of an
   obfuscated package is hashed *)
Theorem decide_hashes_the_rest intr to_obf d :
  o_universe d = false -> special_keep (o_pkg d) (o_name d) = false -> to_obf (o_pkg d) = true ->
  match o_kind d with
  | KVar | KType => decide intr to_obf d = HashPkg
  | KField => decide intr to_obf d = HashStruct
  | _ => True
  end.
Proof.
  intros Hu Hs Ht. unfold decide. rewrite Hu, Hs, Ht. destruct (o_kind d); cbn; auto.
Qed.

(* ================= linkname rewriting agrees with the naming decision ================= *)
From Verif Require Import Model.Linkname.

Section LN.
  Variable lookup_pkg : str -> lookup_result.
  Variable hname : str -> str -> str.
  Variable ipath : str -> str.
  Variable intr : list (str * list str).
  Variable cur_path : str.
  Variable cur_obf : bool.
  Variable exported : str -> bool.

  Lemma cut_dot_nodot s : existsb (N.eqb DOT) s = false -> cut_dot s = None.
  Proof.
    induction s as [|c r IH]; [reflexivity|]. cbn [existsb cut_dot]. intros H.
    apply orb_false_iff in H as [H1 H2]. rewrite N.eqb_sym in H1. rewrite H1, (IH H2). reflexivity.
  Qed.

  Lemma cut_dot_app a b : existsb (N.eqb DOT) a = false -> cut_dot (a ++ DOT :: b) = Some (a, b).
  Proof.
    induction a as [|c a IH]; intros H; cbn [app cut_dot].
    - reflexivity.
    - cbn [existsb] in H. apply orb_false_iff in H as [H1 H2]. rewrite N.eqb_sym in H1. rewrite H1, (IH H2). reflexivity.
  Qed.

  (* a plain function target "path.fname": path has no dot-prefix that is a package (here: no dot
     at all, the common case of std and single-element paths is covered by the oracle stream for
     dotted paths), fname is an identifier without dots *)
  Theorem linkname_function_agrees local path fname :
    existsb (N.eqb DOT) path = false -> existsb (N.eqb DOT) fname = false ->
    ends_with s_under_test path = false ->
    lookup_pkg path = Found true -> intrinsic intr path fname = false ->
    beq (path ++ DOT :: fname) s_main_main = false ->
    snd (linkname_rewrite lookup_pkg hname ipath intr cur_path cur_obf exported local (path ++ DOT :: fname))
    = ipath path ++ [DOT] ++ hname path fname.
  Proof.
    intros Hp Hf Ht Hl Hi Hmm.
    assert (Hne : forall new, new <> [] ->
      linkname_rewrite lookup_pkg hname ipath intr cur_path cur_obf exported local new =
      (if negb (existsb (N.eqb DOT) new) then (directive_local_name hname intr cur_path cur_obf local, new)
       else if beq new s_main_main || beq new s_main_inittask || beq new s_runtime_inittask then (directive_local_name hname intr cur_path cur_obf local, new)
       else match find_pkg lookup_pkg (S (length new)) [] new with
            | inl (Some (path, foreign, t)) =>
                if negb t || intrinsic intr path foreign then (directive_local_name hname intr cur_path cur_obf local, new)
                else (directive_local_name hname intr cur_path cur_obf local, ipath path ++ [DOT] ++ rewrite_foreign hname exported path foreign)
            | _ => (directive_local_name hname intr cur_path cur_obf local, new)
            end)).
    { intros new Hn. destruct new; [congruence | reflexivity]. }
    rewrite Hne by (destruct path; discriminate). clear Hne.
    assert (Hd : existsb (N.eqb DOT) (path ++ DOT :: fname) = true).
    { rewrite existsb_app. cbn [existsb]. change (DOT =? DOT) with true. rewrite orb_true_r. reflexivity. }
    rewrite Hd. cbn [negb]. rewrite Hmm.
    assert (H2 : beq (path ++ DOT :: fname) s_main_inittask = false).
    { apply not_true_is_false. intros Hb. apply beq_eq in Hb.
      assert (Hc : cut_dot (path ++ DOT :: fname) = cut_dot s_main_inittask) by (rewrite Hb; reflexivity).
      rewrite (cut_dot_app path fname Hp) in Hc. vm_compute in Hc. injection Hc as _ Hc. subst fname. discriminate. }
    assert (H3 : beq (path ++ DOT :: fname) s_runtime_inittask = false).
    { apply not_true_is_false. intros Hb. apply beq_eq in Hb.
      assert (Hc : cut_dot (path ++ DOT :: fname) = cut_dot s_runtime_inittask) by (rewrite Hb; reflexivity).
      rewrite (cut_dot_app path fname Hp) in Hc. vm_compute in Hc. injection Hc as _ Hc. subst fname. discriminate. }
    rewrite H2, H3. cbn [orb].
    cbn [find_pkg]. rewrite (cut_dot_app path fname Hp). cbn [app]. rewrite Ht, Hl. cbn [negb orb].
    rewrite Hi. cbn [snd]. unfold rewrite_foreign. rewrite (cut_dot_nodot fname Hf). reflexivity.
  Qed.

  (* targets in packages garble does not know, or does not obfuscate, are left byte for byte *)
  Theorem linkname_unknown_unchanged local new :
    (forall p, lookup_pkg p = NotFound) ->
    snd (linkname_rewrite lookup_pkg hname ipath intr cur_path cur_obf exported local new) = new.
  Proof.
    intros Hnf. unfold linkname_rewrite. destruct new as [|c r]; [reflexivity|].
    destruct (negb _); [reflexivity|]. destruct (_ || _); [reflexivity|].
    assert (H : forall fuel pre rest, find_pkg lookup_pkg fuel pre rest = inl None \/ find_pkg lookup_pkg fuel pre rest = inr false).
    { induction fuel as [|f IH]; intros pre rest; [right; reflexivity|]. cbn [find_pkg].
      destruct (cut_dot rest) as [[a b]|]; [|left; reflexivity].
      destruct (ends_with _ _); [apply IH|]. rewrite Hnf. apply IH. }
    destruct (H (S (length (c :: r))) [] (c :: r)) as [-> | ->]; reflexivity.
  Qed.
End LN.
