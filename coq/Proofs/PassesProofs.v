(* Each control-flow pass preserves and reflects every run of the function (C11). *)
From Coq Require Import Arith Lia.
From Verif Require Import Base.Bytes Model.Passes.
Open Scope nat_scope.

(* ---------- list plumbing ---------- *)
Lemma nth_error_seq m k : k < m -> nth_error (seq 0 m) k = Some k.
Proof.
  intros H. rewrite (nth_error_nth' (seq 0 m) 0) by (rewrite seq_length; exact H). rewrite seq_nth by exact H. reflexivity.
Qed.
Lemma nth_error_map_seq {A} (f : nat -> A) m k : k < m -> nth_error (map f (seq 0 m)) k = Some (f k).
Proof. intros H. apply map_nth_error, nth_error_seq, H. Qed.
Lemma nth_firstn_lt {A} (l : list A) : forall m k d, k < m -> nth k (firstn m l) d = nth k l d.
Proof.
  induction l as [|x l IH]; intros m k d H; [destruct m, k; reflexivity|].
  destruct m as [|m]; [lia|]. destruct k as [|k]; [reflexivity|]. cbn. apply IH. lia.
Qed.
Lemma nth_of_firstn_skipn {A} (l : list A) off k len d : k < len ->
  nth k (firstn len (skipn off l)) d = nth (off + k) l d.
Proof.
  revert l; induction off as [|off IH]; intros l H.
  - cbn [skipn Nat.add]. revert k len H. induction l as [|x l IHl]; intros [|k] [|len] H; cbn; try lia; auto. apply IHl. lia.
  - destruct l as [|x l]; [cbn; destruct k, len; reflexivity|]. cbn [skipn Nat.add nth]. apply IH, H.
Qed.

Lemma modify_length g i f : length (modify g i f) = length g.
Proof. revert i; induction g as [|b r IH]; intros [|i]; cbn; auto. Qed.
Lemma modify_same g : forall i f b, nth_error g i = Some b -> nth_error (modify g i f) i = Some (f b).
Proof. induction g as [|b0 r IH]; intros [|i] f b H; cbn in *; try discriminate; [congruence | apply IH, H]. Qed.
Lemma modify_other g : forall i j f, i <> j -> nth_error (modify g i f) j = nth_error g j.
Proof. induction g as [|b0 r IH]; intros [|i] [|j] f H; cbn; try reflexivity; try lia. apply IH. lia. Qed.

(* ---------- runs ---------- *)
Section Steps.
  Variable S : Type.
  Variable act : nat -> S -> S.
  Variable cond : nat -> S -> bool.
  Variable gr : cfg.

  (* several Next-steps in a row *)
  Inductive nsteps : nat -> state S -> state S -> Prop :=
  | ns0 st : nsteps 0 st st
  | nsS k st st1 st2 : step S act cond gr st = Next S st1 -> nsteps k st1 st2 -> nsteps (Datatypes.S k) st st2.

  Lemma nsteps_run k st st' : nsteps k st st' -> forall f r, run S act cond gr f st' = Some r -> run S act cond gr (k + f) st = Some r.
  Proof.
    intros H. induction H as [|k st st1 st2 Hs _ IH]; intros f r Hr; [exact Hr|].
    cbn [Nat.add run]. rewrite Hs. apply IH, Hr.
  Qed.
  Lemma nsteps_trans a b st1 st2 st3 : nsteps a st1 st2 -> nsteps b st2 st3 -> nsteps (a + b) st1 st3.
  Proof. intros H. induction H; intros H2; cbn; [exact H2 | econstructor; eauto]. Qed.
  Lemma nsteps_one st st' : step S act cond gr st = Next S st' -> nsteps 1 st st'.
  Proof. intros H. econstructor; [exact H | constructor]. Qed.
  (* still running after k blocks: no result with fuel k or less *)
  Lemma nsteps_run_none k st st' : nsteps k st st' -> forall f, f <= k -> run S act cond gr f st = None.
  Proof.
    intros H. induction H as [|k st st1 st2 Hs _ IH]; intros f Hf.
    - assert (f = 0) by lia. subst f. reflexivity.
    - destruct f as [|f]; [reflexivity|]. cbn [run]. rewrite Hs. apply IH. lia.
  Qed.
  (* a result reached through st is a result from st' *)
  Lemma nsteps_run_inv k st st' : nsteps k st st' -> forall f r, run S act cond gr f st = Some r -> exists f', run S act cond gr f' st' = Some r.
  Proof.
    intros H. induction H as [|k st st1 st2 Hs _ IH]; intros f r Hr; [exists f; exact Hr|].
    destruct f as [|f]; [discriminate|]. cbn [run] in Hr. rewrite Hs in Hr. apply (IH f r Hr).
  Qed.
  Lemma run_mono f st r : run S act cond gr f st = Some r -> forall f', f <= f' -> run S act cond gr f' st = Some r.
  Proof.
    revert st. induction f as [|f IH]; intros st H f' Hf; [discriminate|].
    destruct f' as [|f']; [lia|]. cbn [run] in *. destruct (step S act cond gr st); try exact H; try discriminate.
    apply IH; [exact H | lia].
  Qed.
  Lemma run_det f1 f2 st r1 r2 : run S act cond gr f1 st = Some r1 -> run S act cond gr f2 st = Some r2 -> r1 = r2.
  Proof.
    intros H1 H2. pose proof (run_mono _ _ _ H1 (f1 + f2) ltac:(lia)) as A. pose proof (run_mono _ _ _ H2 (f1 + f2) ltac:(lia)) as B.
    congruence.
  Qed.
End Steps.
Arguments nsteps {S}.
Arguments ns0 {S}.
Arguments nsS {S}.
Arguments nsteps_run {S act cond gr}.
Arguments nsteps_trans {S act cond gr}.
Arguments nsteps_one {S act cond gr}.
Arguments nsteps_run_none {S act cond gr}.
Arguments nsteps_run_inv {S act cond gr}.
Arguments run_mono {S act cond gr}.
Arguments run_det {S act cond gr}.

(* ---------- a general simulation argument ----------
   g' simulates g block by block: whenever g moves from an old block to another, g' gets from the
   same block to the same block in one or more steps with the same program state and related phi
   variables; whenever g leaves the function, g' leaves it through the same instruction with the same
   program state.  Then the two graphs have the same results (and diverge together). *)
Section GenSim.
  Variable S : Type.
  Variable act : nat -> S -> S.
  Variable cond : nat -> S -> bool.
  Variables g g' : cfg.
  Variable R : env -> env -> Prop.
  Let n := length g.

  Hypothesis Hprog : forall pc e s, pc < n ->
    match step S act cond g (pc, e, s) with Next _ st => fst (fst st) < n | Halt _ _ _ _ => True | Stuck _ => False end.
  Hypothesis Hnext : forall pc e e' s pc2 e2 s2, pc < n -> R e e' -> step S act cond g (pc, e, s) = Next S (pc2, e2, s2) ->
    exists k e2', nsteps act cond g' (Datatypes.S k) (pc, e', s) (pc2, e2', s2) /\ R e2 e2'.
  Hypothesis Hhalt : forall pc e e' s r p s2, pc < n -> R e e' -> step S act cond g (pc, e, s) = Halt S r p s2 ->
    exists k st', nsteps act cond g' k (pc, e', s) st' /\ step S act cond g' st' = Halt S r p s2.

  Lemma gensim_forward : forall fuel pc e e' s res, pc < n -> R e e' ->
    run S act cond g fuel (pc, e, s) = Some res -> exists fuel', run S act cond g' fuel' (pc, e', s) = Some res.
  Proof.
    induction fuel as [|fuel IH]; intros pc e e' s res Hpc HR Hr; [discriminate|].
    cbn [run] in Hr. pose proof (Hprog pc e s Hpc) as Hp.
    destruct (step S act cond g (pc, e, s)) as [[[pc2 e2] s2]|r p s2|] eqn:Es; [| |contradiction].
    - cbn in Hp. destruct (Hnext pc e e' s pc2 e2 s2 Hpc HR Es) as (k & e2' & Hn & HR2).
      destruct (IH pc2 e2 e2' s2 res Hp HR2 Hr) as [f' Hf']. exists (Datatypes.S k + f'). apply (nsteps_run _ _ _ Hn). exact Hf'.
    - injection Hr as <-. destruct (Hhalt pc e e' s r p s2 Hpc HR Es) as (k & st' & Hn & Hs).
      exists (k + 1). apply (nsteps_run _ _ _ Hn). cbn [run]. rewrite Hs. reflexivity.
  Qed.

  Lemma gensim_progress : forall k pc e s, pc < n ->
    (exists f res, run S act cond g f (pc, e, s) = Some res) \/
    (exists pc2 e2 s2, pc2 < n /\ nsteps act cond g k (pc, e, s) (pc2, e2, s2)).
  Proof.
    induction k as [|k IH]; intros pc e s Hpc; [right; exists pc, e, s; split; [exact Hpc | constructor]|].
    pose proof (Hprog pc e s Hpc) as Hp.
    destruct (step S act cond g (pc, e, s)) as [[[pc2 e2] s2]|r p s2|] eqn:Es; [| |contradiction].
    - cbn in Hp. destruct (IH pc2 e2 s2 Hp) as [(f & res & Hr) | (pc3 & e3 & s3 & Hp3 & Hn)].
      + left. exists (Datatypes.S f), res. cbn [run]. rewrite Es. exact Hr.
      + right. exists pc3, e3, s3. split; [exact Hp3 | econstructor; [exact Es | exact Hn]].
    - left. exists 1, (r, p, s2). cbn [run]. rewrite Es. reflexivity.
  Qed.

  Lemma gensim_nsteps : forall k pc e e' s pc2 e2 s2, pc < n -> R e e' -> nsteps act cond g k (pc, e, s) (pc2, e2, s2) ->
    exists k' e2', k <= k' /\ nsteps act cond g' k' (pc, e', s) (pc2, e2', s2) /\ R e2 e2'.
  Proof.
    induction k as [|k IH]; intros pc e e' s pc2 e2 s2 Hpc HR H.
    - inversion H; subst. exists 0, e'. split; [lia | split; [constructor | exact HR]].
    - inversion H as [|k0 st0 st1 st2 Hs Hn]; subst. destruct st1 as [[pc1 e1] s1].
      pose proof (Hprog pc e s Hpc) as Hp. rewrite Hs in Hp. cbn in Hp.
      destruct (Hnext pc e e' s pc1 e1 s1 Hpc HR Hs) as (k1 & e1' & Hn1 & HR1).
      destruct (IH pc1 e1 e1' s1 pc2 e2 s2 Hp HR1 Hn) as (k2 & e2' & Hle & Hn2 & HR2).
      exists (Datatypes.S k1 + k2), e2'. split; [lia | split; [apply (nsteps_trans _ _ _ _ _ Hn1 Hn2) | exact HR2]].
  Qed.

  Lemma gensim_backward : forall fuel' pc e e' s res, pc < n -> R e e' ->
    run S act cond g' fuel' (pc, e', s) = Some res -> exists fuel, run S act cond g fuel (pc, e, s) = Some res.
  Proof.
    intros fuel' pc e e' s res Hpc HR Hr.
    destruct (gensim_progress fuel' pc e s Hpc) as [(f & r0 & Hr0) | (pc2 & e2 & s2 & Hp2 & Hn)].
    - destruct (gensim_forward f pc e e' s r0 Hpc HR Hr0) as [f'' Hf''].
      rewrite (run_det _ _ _ _ _ Hr Hf''). exists f. exact Hr0.
    - destruct (gensim_nsteps fuel' pc e e' s pc2 e2 s2 Hpc HR Hn) as (k' & e2' & Hle & Hf & _).
      rewrite (nsteps_run_none _ _ _ Hf fuel') in Hr by lia. discriminate.
  Qed.

  (* with an entry sequence: g' started at [entry'] reaches the block g starts in *)
  Theorem gensim_equiv start entry' e e' e'' s k : start < n -> R e e'' ->
    nsteps act cond g' k (entry', e', s) (start, e'', s) ->
    forall res, (exists fuel, run S act cond g fuel (start, e, s) = Some res) <->
                (exists fuel, run S act cond g' fuel (entry', e', s) = Some res).
  Proof.
    intros Hs HR Hn res. split; intros [f H].
    - destruct (gensim_forward f start e e'' s res Hs HR H) as [f' Hf']. exists (k + f'). apply (nsteps_run _ _ _ Hn). exact Hf'.
    - destruct (nsteps_run_inv _ _ _ Hn f res H) as [f' Hf']. apply (gensim_backward f' start e e'' s res Hs HR Hf').
  Qed.
End GenSim.

(* ---------- facts shared by the passes ---------- *)
Definition agree (x : nat) (e e' : env) : Prop := forall y, y <> x -> e y = e' y.
Lemma agree_refl x e : agree x e e.
Proof. intros y _. reflexivity. Qed.
Lemma agree_upd_fresh x e e' k : agree x e e' -> agree x e (upd e' x k).
Proof. intros H y Hy. unfold upd. destruct (Nat.eqb_spec y x); [contradiction | apply H, Hy]. Qed.

Section Facts.
  Variable S : Type.
  Variable act : nat -> S -> S.
  Variable cond : nat -> S -> bool.

  Lemma step_at g pc b e s : nth_error g pc = Some b ->
    step S act cond g (pc, e, s) =
    match bterm b with
    | TJump t => Next S (t, fst (run_body S act (body b) (e, s)), snd (run_body S act (body b) (e, s)))
    | TIf c t f => Next S ((if eval_cond S cond c (fst (run_body S act (body b) (e, s))) (snd (run_body S act (body b) (e, s))) then t else f),
                           fst (run_body S act (body b) (e, s)), snd (run_body S act (body b) (e, s)))
    | TRet r => Halt S r false (snd (run_body S act (body b) (e, s)))
    | TPanic r => Halt S r true (snd (run_body S act (body b) (e, s)))
    end.
  Proof. intros H. cbn [step]. rewrite H. reflexivity. Qed.

  Lemma step_same g g' pc e s : nth_error g' pc = nth_error g pc -> step S act cond g' (pc, e, s) = step S act cond g (pc, e, s).
  Proof. intros H. cbn [step]. rewrite H. reflexivity. Qed.

  Lemma wf_succ g pc b t : wf g = true -> nth_error g pc = Some b -> In t (succs (bterm b)) -> t < length g.
  Proof.
    intros Hwf Hb Ht. unfold wf in Hwf. pose proof (proj1 (forallb_forall _ _) Hwf b (nth_error_In _ _ Hb)) as H.
    apply Nat.ltb_lt. apply (proj1 (forallb_forall _ _) H t Ht).
  Qed.

  Lemma wf_progress g : wf g = true -> forall pc e s, pc < length g ->
    match step S act cond g (pc, e, s) with Next _ st => fst (fst st) < length g | Halt _ _ _ _ => True | Stuck _ => False end.
  Proof.
    intros Hwf pc e s Hpc. destruct (nth_error g pc) as [b|] eqn:Eb; [|apply nth_error_None in Eb; lia].
    rewrite (step_at g pc b e s Eb). destruct (bterm b) as [t|c t f|r|r] eqn:Et; cbn; auto.
    - apply (wf_succ g pc b t Hwf Eb). rewrite Et. left. reflexivity.
    - destruct (eval_cond _ _ _ _ _); apply (wf_succ g pc b _ Hwf Eb); rewrite Et; cbn; auto.
  Qed.

  (* a body that does not assign x keeps environments that agree off x in agreement *)
  Lemma run_body_agree x l : existsb (instr_uses x) l = false -> forall e e' s, agree x e e' ->
    agree x (fst (run_body S act l (e, s))) (fst (run_body S act l (e', s))) /\
    snd (run_body S act l (e, s)) = snd (run_body S act l (e', s)).
  Proof.
    induction l as [|i l IH]; intros Hu e e' s Ha; [split; [exact Ha | reflexivity]|].
    cbn in Hu. apply orb_false_iff in Hu as [Hi Hl]. unfold run_body. cbn [fold_left].
    destruct i as [a|y k]; cbn [run_instr fst snd].
    - apply (IH Hl e e' (act a s) Ha).
    - apply (IH Hl (upd e y k) (upd e' y k) s). intros z Hz. unfold upd. destruct (Nat.eqb z y); [reflexivity | apply Ha, Hz].
  Qed.

  Lemma eval_cond_agree x t c tt ff e e' s : t = TIf c tt ff -> cond_uses x t = false -> agree x e e' ->
    eval_cond S cond c e s = eval_cond S cond c e' s.
  Proof.
    intros -> Hu Ha. destruct c as [c|y o k]; [reflexivity|]. cbn in Hu. cbn. rewrite (Ha y); [reflexivity|].
    apply Nat.eqb_neq. exact Hu.
  Qed.

  Lemma unused_block x g pc b : unused x g = true -> nth_error g pc = Some b ->
    existsb (instr_uses x) (body b) = false /\ cond_uses x (bterm b) = false.
  Proof.
    intros Hu Hb. unfold unused in Hu. pose proof (proj1 (forallb_forall _ _) Hu b (nth_error_In _ _ Hb)) as H.
    apply andb_true_iff in H as [H1 H2]. split; apply negb_true_iff; assumption.
  Qed.

  (* the step of an old block from two environments that agree off an unused variable *)
  Lemma step_agree x g pc b e e' s : unused x g = true -> nth_error g pc = Some b -> agree x e e' ->
    match step S act cond g (pc, e, s), step S act cond g (pc, e', s) with
    | Next _ (pc2, e2, s2), Next _ (pc2', e2', s2') => pc2 = pc2' /\ agree x e2 e2' /\ s2 = s2'
    | Halt _ r p s2, Halt _ r' p' s2' => r = r' /\ p = p' /\ s2 = s2'
    | _, _ => False
    end.
  Proof.
    intros Hu Hb Ha. destruct (unused_block x g pc b Hu Hb) as [Hb1 Hb2].
    destruct (run_body_agree x (body b) Hb1 e e' s Ha) as [Ha2 Hs2].
    rewrite !(step_at g pc b _ s Hb). destruct (bterm b) as [t|c t f|r|r] eqn:Et.
    - auto.
    - rewrite <- Hs2. rewrite (eval_cond_agree x _ c t f _ _ _ eq_refl Hb2 Ha2). auto.
    - auto.
    - auto.
  Qed.
End Facts.

(* ---------- addJunkBlocks (one iteration) ---------- *)
Section Jump.
  Variable S : Type.
  Variable act : nat -> S -> S.
  Variable cond : nat -> S -> bool.
  Variable g : cfg.
  Variables src slot : nat.
  Hypothesis Hwf : wf g = true.
  Let n := length g.
  Let g' := add_jump g src slot.

  Lemma add_jump_sim :
    (forall pc e e' s pc2 e2 s2, pc < n -> e = e' -> step S act cond g (pc, e, s) = Next S (pc2, e2, s2) ->
       exists k e2', nsteps act cond g' (Datatypes.S k) (pc, e', s) (pc2, e2', s2) /\ e2 = e2') /\
    (forall pc e e' s r p s2, pc < n -> e = e' -> step S act cond g (pc, e, s) = Halt S r p s2 ->
       exists k st', nsteps act cond g' k (pc, e', s) st' /\ step S act cond g' st' = Halt S r p s2).
  Proof.
    unfold g', add_jump.
    destruct (nth_error g src) as [b|] eqn:Eb;
      [|split; intros; subst; [exists 0; eexists; split; [apply nsteps_one; eassumption | reflexivity] | exists 0; eexists; split; [constructor | eassumption]]].
    destruct (nth_error (succs (bterm b)) slot) as [old|] eqn:Eo;
      [|split; intros; subst; [exists 0; eexists; split; [apply nsteps_one; eassumption | reflexivity] | exists 0; eexists; split; [constructor | eassumption]]].
    set (fb := fun b0 : block => {| body := body b0; bterm := set_succ (bterm b0) slot (length g) |}).
    set (G := modify g src fb ++ [{| body := []; bterm := TJump old |}]).
    assert (Hsrc : src < n) by (apply nth_error_Some; congruence).
    assert (Hother : forall pc, pc < n -> pc <> src -> nth_error G pc = nth_error g pc).
    { intros pc Hpc Hne. unfold G. rewrite nth_error_app1 by (rewrite modify_length; exact Hpc). apply modify_other. congruence. }
    assert (Hat : nth_error G src = Some (fb b)).
    { unfold G. rewrite nth_error_app1 by (rewrite modify_length; exact Hsrc). apply modify_same, Eb. }
    assert (Hnew : nth_error G n = Some {| body := []; bterm := TJump old |}).
    { unfold G. rewrite nth_error_app2 by (rewrite modify_length; fold n; lia). rewrite modify_length. fold n. rewrite Nat.sub_diag. reflexivity. }
    assert (Hthrough : forall e s, nsteps act cond G 1 (n, e, s) (old, e, s)).
    { intros e s. apply nsteps_one. rewrite (step_at S act cond G n _ e s Hnew). reflexivity. }
    split.
    - intros pc e e' s pc2 e2 s2 Hpc <- Hs.
      destruct (Nat.eq_dec pc src) as [->|Hne].
      + rewrite (step_at S act cond g src b e s Eb) in Hs.
        destruct (bterm b) as [t|c t f|r|r] eqn:Et; try discriminate.
        * (* jump: the only slot is 0 *)
          destruct slot as [|sl]; [|destruct sl; discriminate]. cbn in Eo. assert (Ho : old = t) by congruence. subst old. inversion Hs; subst pc2 e2 s2.
          exists 1. eexists. split; [|reflexivity].
          apply (nsteps_trans 1 1 _ (n, fst (run_body S act (body b) (e, s)), snd (run_body S act (body b) (e, s)))); [|apply Hthrough].
          apply nsteps_one. rewrite (step_at S act cond G src _ e s Hat). unfold fb. cbn [body bterm]. rewrite Et. reflexivity.
        * set (es := run_body S act (body b) (e, s)) in *. inversion Hs; subst pc2 e2 s2.
          destruct slot as [|[|sl]]; cbn in Eo; [| |destruct sl; discriminate]; injection Eo as <-.
          -- destruct (eval_cond S cond c (fst es) (snd es)) eqn:Ec.
             ++ exists 1. eexists. split; [|reflexivity].
                apply (nsteps_trans 1 1 _ (n, fst es, snd es)); [|apply Hthrough].
                apply nsteps_one. rewrite (step_at S act cond G src _ e s Hat). unfold fb. cbn [body bterm]. rewrite Et. cbn [set_succ]. fold es. rewrite Ec. reflexivity.
             ++ exists 0. eexists. split; [|reflexivity].
                apply nsteps_one. rewrite (step_at S act cond G src _ e s Hat). unfold fb. cbn [body bterm]. rewrite Et. cbn [set_succ]. fold es. rewrite Ec. reflexivity.
          -- destruct (eval_cond S cond c (fst es) (snd es)) eqn:Ec.
             ++ exists 0. eexists. split; [|reflexivity].
                apply nsteps_one. rewrite (step_at S act cond G src _ e s Hat). unfold fb. cbn [body bterm]. rewrite Et. cbn [set_succ]. fold es. rewrite Ec. reflexivity.
             ++ exists 1. eexists. split; [|reflexivity].
                apply (nsteps_trans 1 1 _ (n, fst es, snd es)); [|apply Hthrough].
                apply nsteps_one. rewrite (step_at S act cond G src _ e s Hat). unfold fb. cbn [body bterm]. rewrite Et. cbn [set_succ]. fold es. rewrite Ec. reflexivity.
      + exists 0. eexists. split; [|reflexivity]. apply nsteps_one. rewrite (step_same S act cond g G pc e s (Hother pc Hpc Hne)). exact Hs.
    - intros pc e e' s r p s2 Hpc <- Hs.
      destruct (Nat.eq_dec pc src) as [->|Hne].
      + exfalso. rewrite (step_at S act cond g src b e s Eb) in Hs.
        destruct (bterm b); try discriminate; destruct slot; discriminate.
      + exists 0. eexists. split; [constructor|]. rewrite (step_same S act cond g G pc e s (Hother pc Hpc Hne)). exact Hs.
  Qed.

  Theorem add_jump_equiv start e s : start < n ->
    forall res, (exists fuel, run S act cond g fuel (start, e, s) = Some res) <->
                (exists fuel, run S act cond g' fuel (start, e, s) = Some res).
  Proof.
    intros Hs. destruct add_jump_sim as [Hn Hh].
    apply (gensim_equiv S act cond g g' eq (wf_progress S act cond g Hwf) Hn Hh start start e e e s 0 Hs eq_refl). constructor.
  Qed.
End Jump.

(* ---------- applySplitting ---------- *)
Section Split.
  Variable S : Type.
  Variable act : nat -> S -> S.
  Variable cond : nat -> S -> bool.
  Variable g : cfg.
  Variables j k : nat.
  Hypothesis Hwf : wf g = true.
  Let n := length g.
  Let g' := split_block g j k.

  Lemma run_body_split l e s :
    run_body S act (skipn k l) (run_body S act (firstn k l) (e, s)) = run_body S act l (e, s).
  Proof. unfold run_body. rewrite <- fold_left_app, firstn_skipn. reflexivity. Qed.

  Lemma split_sim :
    (forall pc e e' s pc2 e2 s2, pc < n -> e = e' -> step S act cond g (pc, e, s) = Next S (pc2, e2, s2) ->
       exists k0 e2', nsteps act cond g' (Datatypes.S k0) (pc, e', s) (pc2, e2', s2) /\ e2 = e2') /\
    (forall pc e e' s r p s2, pc < n -> e = e' -> step S act cond g (pc, e, s) = Halt S r p s2 ->
       exists k0 st', nsteps act cond g' k0 (pc, e', s) st' /\ step S act cond g' st' = Halt S r p s2).
  Proof.
    unfold g', split_block.
    destruct (nth_error g j) as [b|] eqn:Eb;
      [|split; intros; subst; [exists 0; eexists; split; [apply nsteps_one; eassumption | reflexivity] | exists 0; eexists; split; [constructor | eassumption]]].
    set (fb := fun b0 : block => {| body := firstn k (body b0); bterm := TJump (length g) |}).
    set (nb := {| body := skipn k (body b); bterm := bterm b |}).
    set (G := modify g j fb ++ [nb]).
    assert (Hj : j < n) by (apply nth_error_Some; congruence).
    assert (Hother : forall pc, pc < n -> pc <> j -> nth_error G pc = nth_error g pc).
    { intros pc Hpc Hne. unfold G. rewrite nth_error_app1 by (rewrite modify_length; exact Hpc). apply modify_other. congruence. }
    assert (Hat : nth_error G j = Some (fb b)).
    { unfold G. rewrite nth_error_app1 by (rewrite modify_length; exact Hj). apply modify_same, Eb. }
    assert (Hnew : nth_error G n = Some nb).
    { unfold G. rewrite nth_error_app2 by (rewrite modify_length; fold n; lia). rewrite modify_length. fold n. rewrite Nat.sub_diag. reflexivity. }
    assert (Hfirst : forall e s, nsteps act cond G 1 (j, e, s) (n, fst (run_body S act (firstn k (body b)) (e, s)), snd (run_body S act (firstn k (body b)) (e, s)))).
    { intros e s. apply nsteps_one. rewrite (step_at S act cond G j _ e s Hat). reflexivity. }
    assert (Hsecond : forall e s, step S act cond G (n, fst (run_body S act (firstn k (body b)) (e, s)), snd (run_body S act (firstn k (body b)) (e, s))) = step S act cond g (j, e, s)).
    { intros e s. rewrite (step_at S act cond G n nb _ _ Hnew), (step_at S act cond g j b e s Eb). unfold nb. cbn [body bterm].
      rewrite <- surjective_pairing, run_body_split. reflexivity. }
    split.
    - intros pc e e' s pc2 e2 s2 Hpc <- Hs. destruct (Nat.eq_dec pc j) as [->|Hne].
      + exists 1, e2. split; [|reflexivity]. apply (nsteps_trans 1 1 _ _ _ (Hfirst e s)). apply nsteps_one. rewrite Hsecond. exact Hs.
      + exists 0, e2. split; [|reflexivity]. apply nsteps_one. rewrite (step_same S act cond g G pc e s (Hother pc Hpc Hne)). exact Hs.
    - intros pc e e' s r p s2 Hpc <- Hs. destruct (Nat.eq_dec pc j) as [->|Hne].
      + exists 1. eexists. split; [apply Hfirst|]. rewrite Hsecond. exact Hs.
      + exists 0. eexists. split; [constructor|]. rewrite (step_same S act cond g G pc e s (Hother pc Hpc Hne)). exact Hs.
  Qed.

  Theorem split_equiv start e s : start < n ->
    forall res, (exists fuel, run S act cond g fuel (start, e, s) = Some res) <->
                (exists fuel, run S act cond g' fuel (start, e, s) = Some res).
  Proof.
    intros Hs. destruct split_sim as [Hn Hh].
    apply (gensim_equiv S act cond g g' eq (wf_progress S act cond g Hwf) Hn Hh start start e e e s 0 Hs eq_refl). constructor.
  Qed.
End Split.

(* ---------- addTrashBlockMarkers (one iteration) ---------- *)
Section Trash.
  Variable S : Type.
  Variable act : nat -> S -> S.
  Variable cond : nat -> S -> bool.
  Variable g : cfg.
  Variables src slot y : nat.
  Variables a kk : N.
  Variable o : cmp6.
  Variable trash : list instr.
  Hypothesis Hwf : wf g = true.
  Hypothesis Hy : unused y g = true.
  Hypothesis Hfalse : cmp6_eval o a kk = false.
  Let n := length g.
  Let g' := add_trash g src slot y a o kk trash.

  Lemma run_body_app l1 l2 es : run_body S act (l1 ++ l2) es = run_body S act l2 (run_body S act l1 es).
  Proof. unfold run_body. apply fold_left_app. Qed.

  Lemma trash_sim :
    (forall pc e e' s pc2 e2 s2, pc < n -> agree y e e' -> step S act cond g (pc, e, s) = Next S (pc2, e2, s2) ->
       exists k0 e2', nsteps act cond g' (Datatypes.S k0) (pc, e', s) (pc2, e2', s2) /\ agree y e2 e2') /\
    (forall pc e e' s r p s2, pc < n -> agree y e e' -> step S act cond g (pc, e, s) = Halt S r p s2 ->
       exists k0 st', nsteps act cond g' k0 (pc, e', s) st' /\ step S act cond g' st' = Halt S r p s2).
  Proof.
    (* an unchanged block, run from an environment that agrees off y *)
    assert (Hsame : forall G pc e e' s, pc < n -> nth_error G pc = nth_error g pc -> agree y e e' ->
              (forall pc2 e2 s2, step S act cond g (pc, e, s) = Next S (pc2, e2, s2) ->
                 exists e2', step S act cond G (pc, e', s) = Next S (pc2, e2', s2) /\ agree y e2 e2') /\
              (forall r p s2, step S act cond g (pc, e, s) = Halt S r p s2 -> step S act cond G (pc, e', s) = Halt S r p s2)).
    { intros G pc e e' s Hpc HG Ha. destruct (nth_error g pc) as [b|] eqn:Eb; [|apply nth_error_None in Eb; fold n in Eb; lia].
      pose proof (step_agree S act cond y g pc b e e' s Hy Eb Ha) as H. rewrite (step_same S act cond g G pc e' s (eq_trans HG (eq_sym Eb))).
      destruct (step S act cond g (pc, e, s)) as [[[p2 e2] s2]|r p s2|]; destruct (step S act cond g (pc, e', s)) as [[[p2' e2'] s2']|r' p' s2'|]; try contradiction.
      - destruct H as (-> & Ha2 & ->). split; [|discriminate]. intros ? ? ? Heq. injection Heq as <- <- <-. exists e2'. split; [reflexivity | exact Ha2].
      - destruct H as (-> & -> & ->). split; [discriminate|]. intros ? ? ? Heq. injection Heq as <- <- <-. reflexivity. }
    unfold g', add_trash.
    destruct (nth_error g src) as [b|] eqn:Eb.
    2:{ split.
        - intros pc e e' s pc2 e2 s2 Hpc Ha Hs. destruct (Hsame g pc e e' s Hpc eq_refl Ha) as [H1 _]. destruct (H1 _ _ _ Hs) as (e2' & Hs' & Ha2).
          exists 0, e2'. split; [apply nsteps_one, Hs' | exact Ha2].
        - intros pc e e' s r p s2 Hpc Ha Hs. destruct (Hsame g pc e e' s Hpc eq_refl Ha) as [_ H2]. exists 0. eexists. split; [constructor | apply H2, Hs]. }
    destruct (nth_error (succs (bterm b)) slot) as [old|] eqn:Eo.
    2:{ split.
        - intros pc e e' s pc2 e2 s2 Hpc Ha Hs. destruct (Hsame g pc e e' s Hpc eq_refl Ha) as [H1 _]. destruct (H1 _ _ _ Hs) as (e2' & Hs' & Ha2).
          exists 0, e2'. split; [apply nsteps_one, Hs' | exact Ha2].
        - intros pc e e' s r p s2 Hpc Ha Hs. destruct (Hsame g pc e e' s Hpc eq_refl Ha) as [_ H2]. exists 0. eexists. split; [constructor | apply H2, Hs]. }
    set (fb := fun b0 : block => {| body := body b0 ++ [ISet y a]; bterm := set_succ (bterm b0) slot (length g) |}).
    set (cb := {| body := []; bterm := TIf (CVar y o kk) (Datatypes.S (length g)) old |}).
    set (tb := {| body := trash; bterm := TJump (Datatypes.S (length g)) |}).
    set (G := modify g src fb ++ [cb; tb]).
    assert (Hsrc : src < n) by (apply nth_error_Some; congruence).
    assert (Hother : forall pc, pc < n -> pc <> src -> nth_error G pc = nth_error g pc).
    { intros pc Hpc Hne. unfold G. rewrite nth_error_app1 by (rewrite modify_length; exact Hpc). apply modify_other. congruence. }
    assert (Hat : nth_error G src = Some (fb b)).
    { unfold G. rewrite nth_error_app1 by (rewrite modify_length; exact Hsrc). apply modify_same, Eb. }
    assert (Hnew : nth_error G n = Some cb).
    { unfold G. rewrite nth_error_app2 by (rewrite modify_length; fold n; lia). rewrite modify_length. fold n. rewrite Nat.sub_diag. reflexivity. }
    (* the guard block, entered with y = a, falls through to the old successor *)
    assert (Hthrough : forall (e : env) s, e y = a -> nsteps act cond G 1 (n, e, s) (old, e, s)).
    { intros e s He. apply nsteps_one. rewrite (step_at S act cond G n _ e s Hnew). unfold cb. cbn [body bterm run_body fold_left fst snd eval_cond].
      rewrite He, Hfalse. reflexivity. }
    destruct (unused_block y g src b Hy Eb) as [Hb1 Hb2].
    split.
    - intros pc e e' s pc2 e2 s2 Hpc Ha Hs. destruct (Nat.eq_dec pc src) as [->|Hne].
      + destruct (run_body_agree S act y (body b) Hb1 e e' s Ha) as [Ha2 Hs2].
        set (es := run_body S act (body b) (e, s)) in *. set (es' := run_body S act (body b) (e', s)) in *.
        assert (Hbody : run_body S act (body b ++ [ISet y a]) (e', s) = (upd (fst es') y a, snd es')).
        { rewrite run_body_app. fold es'. reflexivity. }
        assert (Hay : upd (fst es') y a y = a) by (unfold upd; rewrite Nat.eqb_refl; reflexivity).
        assert (Hag : agree y (fst es) (upd (fst es') y a)) by (apply agree_upd_fresh, Ha2).
        rewrite (step_at S act cond g src b e s Eb) in Hs. fold es in Hs.
        destruct (bterm b) as [t|c t f|r|r] eqn:Et; try discriminate.
        * destruct slot as [|sl]; [|destruct sl; discriminate]. cbn in Eo. injection Eo as <-. inversion Hs; subst pc2 e2 s2.
          exists 1, (upd (fst es') y a). split; [|exact Hag]. rewrite Hs2.
          apply (nsteps_trans 1 1 _ (n, upd (fst es') y a, snd es')); [|apply Hthrough, Hay].
          apply nsteps_one. rewrite (step_at S act cond G src _ e' s Hat). unfold fb. cbn [body bterm]. rewrite Et, Hbody. reflexivity.
        * assert (Hc : eval_cond S cond c (upd (fst es') y a) (snd es') = eval_cond S cond c (fst es) (snd es)).
          { rewrite <- Hs2. symmetry. apply (eval_cond_agree S cond y (TIf c t f) c t f _ _ _ eq_refl Hb2 Hag). }
          inversion Hs; subst pc2 e2 s2.
          destruct slot as [|[|sl]]; cbn in Eo; [| |destruct sl; discriminate]; injection Eo as <-.
          -- destruct (eval_cond S cond c (fst es) (snd es)) eqn:Ec.
             ++ exists 1, (upd (fst es') y a). split; [|exact Hag]. rewrite Hs2.
                apply (nsteps_trans 1 1 _ (n, upd (fst es') y a, snd es')); [|apply Hthrough, Hay].
                apply nsteps_one. rewrite (step_at S act cond G src _ e' s Hat). unfold fb. cbn [body bterm]. rewrite Et, Hbody. cbn [set_succ fst snd]. rewrite Hc. reflexivity.
             ++ exists 0, (upd (fst es') y a). split; [|exact Hag]. rewrite Hs2.
                apply nsteps_one. rewrite (step_at S act cond G src _ e' s Hat). unfold fb. cbn [body bterm]. rewrite Et, Hbody. cbn [set_succ fst snd]. rewrite Hc. reflexivity.
          -- destruct (eval_cond S cond c (fst es) (snd es)) eqn:Ec.
             ++ exists 0, (upd (fst es') y a). split; [|exact Hag]. rewrite Hs2.
                apply nsteps_one. rewrite (step_at S act cond G src _ e' s Hat). unfold fb. cbn [body bterm]. rewrite Et, Hbody. cbn [set_succ fst snd]. rewrite Hc. reflexivity.
             ++ exists 1, (upd (fst es') y a). split; [|exact Hag]. rewrite Hs2.
                apply (nsteps_trans 1 1 _ (n, upd (fst es') y a, snd es')); [|apply Hthrough, Hay].
                apply nsteps_one. rewrite (step_at S act cond G src _ e' s Hat). unfold fb. cbn [body bterm]. rewrite Et, Hbody. cbn [set_succ fst snd]. rewrite Hc. reflexivity.
      + destruct (Hsame G pc e e' s Hpc (Hother pc Hpc Hne) Ha) as [H1 _]. destruct (H1 _ _ _ Hs) as (e2' & Hs' & Ha2).
        exists 0, e2'. split; [apply nsteps_one, Hs' | exact Ha2].
    - intros pc e e' s r p s2 Hpc Ha Hs. destruct (Nat.eq_dec pc src) as [->|Hne].
      + exfalso. rewrite (step_at S act cond g src b e s Eb) in Hs.
        destruct (bterm b); try discriminate; destruct slot; discriminate.
      + destruct (Hsame G pc e e' s Hpc (Hother pc Hpc Hne) Ha) as [_ H2]. exists 0. eexists. split; [constructor | apply H2, Hs].
  Qed.

  Theorem trash_equiv start e s : start < n ->
    forall res, (exists fuel, run S act cond g fuel (start, e, s) = Some res) <->
                (exists fuel, run S act cond g' fuel (start, e, s) = Some res).
  Proof.
    intros Hs. destruct trash_sim as [Hn Hh].
    apply (gensim_equiv S act cond g g' (agree y) (wf_progress S act cond g Hwf) Hn Hh start start e e e s 0 Hs (agree_refl y e)). constructor.
  Qed.
End Trash.

(* ---------- applyFlattening ---------- *)
Lemma rewrite_blocks_length n off g : length (rewrite_blocks n off g) = length g.
Proof. revert off; induction g as [|b r IH]; intros off; cbn; auto. Qed.
Lemma all_edges_app a b : all_edges (a ++ b) = all_edges a ++ all_edges b.
Proof. unfold all_edges. apply flat_map_app. Qed.
Lemma all_edges_cons b r : all_edges (b :: r) = edges_of b ++ all_edges r.
Proof. reflexivity. Qed.

Lemma rewrite_blocks_nth n g : forall off j b, nth_error g j = Some b ->
  nth_error (rewrite_blocks n off g) j =
  Some {| body := body b; bterm := rewrite_term n (off + edge_offset g j) (bterm b) |}.
Proof.
  induction g as [|b0 r IH]; intros off j b H; [destruct j; discriminate|].
  destruct j as [|j]; cbn in H.
  - injection H as ->. cbn. unfold edge_offset. cbn. rewrite Nat.add_0_r. reflexivity.
  - cbn [rewrite_blocks nth_error]. rewrite (IH _ _ _ H). unfold edge_offset. cbn [firstn].
    rewrite all_edges_cons, app_length. do 3 f_equal. lia.
Qed.

Lemma edges_position g j b : nth_error g j = Some b ->
  firstn (length (edges_of b)) (skipn (edge_offset g j) (all_edges g)) = edges_of b.
Proof.
  intros H. apply nth_error_split in H as (l1 & l2 & -> & Hl). subst j.
  unfold edge_offset. rewrite firstn_app, firstn_all, Nat.sub_diag. cbn [firstn]. rewrite app_nil_r.
  rewrite all_edges_app. rewrite skipn_app, skipn_all, Nat.sub_diag. cbn [skipn app].
  rewrite all_edges_cons.
  rewrite firstn_app, firstn_all, Nat.sub_diag. cbn [firstn]. apply app_nil_r.
Qed.
Lemma edges_bound g j b : nth_error g j = Some b ->
  edge_offset g j + length (edges_of b) <= length (all_edges g).
Proof.
  intros H. apply nth_error_split in H as (l1 & l2 & -> & Hl). subst j.
  unfold edge_offset. rewrite firstn_app, firstn_all, Nat.sub_diag. cbn [firstn]. rewrite app_nil_r.
  rewrite all_edges_app, app_length, all_edges_cons, app_length. lia.
Qed.

Section Flat.
  Variable S : Type.
  Variable act : nat -> S -> S.
  Variable cond : nat -> S -> bool.
  Variable g : cfg.
  Variable x : nat.
  Variable keys : list N.
  Variable start : nat.

  Let n := length g.
  Let es := all_edges g.
  Let m := length es.
  Let fg := flatten x keys start g.
  Let E := flat_entry g.

  Hypothesis Hwf : wf g = true.
  Hypothesis Hx : unused x g = true.
  Hypothesis Hstart : start < n.
  Hypothesis Hm : 0 < m.
  Hypothesis Hklen : m <= length keys.
  Hypothesis Hknd : NoDup (firstn m keys).
  Hypothesis Hknz : Forall (fun k => k <> 0%N) (firstn m keys).

  Notation nstepsf := (nsteps act cond fg).
  Notation stepf := (step S act cond fg).

  (* ---- the four kinds of blocks of the flattened graph *)
  Lemma fg_orig j b : nth_error g j = Some b ->
    nth_error fg j = Some {| body := body b; bterm := rewrite_term n (edge_offset g j) (bterm b) |}.
  Proof.
    intros H. unfold fg, flatten. rewrite nth_error_app1 by (rewrite rewrite_blocks_length; apply nth_error_Some; congruence).
    rewrite (rewrite_blocks_nth _ _ _ _ _ H). reflexivity.
  Qed.
  Lemma fg_fake k : k < m ->
    nth_error fg (n + k) = Some {| body := [ISet x (nth k keys 0%N)]; bterm := TJump E |}.
  Proof.
    intros H. unfold fg, flatten. rewrite nth_error_app2 by (rewrite rewrite_blocks_length; fold n; lia).
    rewrite rewrite_blocks_length. fold n es m. replace (n + k - n) with k by lia.
    rewrite nth_error_app1 by (rewrite map_length, seq_length; exact H).
    rewrite (nth_error_map_seq _ m k H). reflexivity.
  Qed.
  Lemma fg_if k : k < m ->
    nth_error fg (n + m + k) =
    Some {| body := []; bterm := TIf (CVar x OEq (nth k keys 0%N)) (nth k es 0) (if Nat.ltb (Datatypes.S k) m then n + m + Datatypes.S k else start) |}.
  Proof.
    intros H. unfold fg, flatten. rewrite nth_error_app2 by (rewrite rewrite_blocks_length; fold n; lia).
    rewrite rewrite_blocks_length. fold n es m. replace (n + m + k - n) with (m + k) by lia.
    rewrite nth_error_app2 by (rewrite map_length, seq_length; lia). rewrite map_length, seq_length.
    replace (m + k - m) with k by lia.
    rewrite nth_error_app1 by (rewrite map_length, seq_length; exact H).
    rewrite (nth_error_map_seq _ m k H). reflexivity.
  Qed.
  Lemma fg_entry : nth_error fg E = Some {| body := []; bterm := TJump (n + m) |}.
  Proof.
    unfold fg, flatten, E, flat_entry. fold n es m.
    rewrite nth_error_app2 by (rewrite rewrite_blocks_length; fold n; lia). rewrite rewrite_blocks_length. fold n.
    rewrite nth_error_app2 by (rewrite map_length, seq_length; lia). rewrite map_length, seq_length.
    rewrite nth_error_app2 by (rewrite map_length, seq_length; lia). rewrite map_length, seq_length.
    replace (n + 2 * m - n - m - m) with 0 by lia. reflexivity.
  Qed.

  Lemma key_neq j k : j < m -> k < m -> j <> k -> nth k keys 0%N <> nth j keys 0%N.
  Proof.
    intros Hj Hk Hne Heq.
    assert (H1 : nth k (firstn m keys) 0%N = nth k keys 0%N) by (apply nth_firstn_lt; exact Hk).
    assert (H2 : nth j (firstn m keys) 0%N = nth j keys 0%N) by (apply nth_firstn_lt; exact Hj).
    assert (Hl : length (firstn m keys) = m) by (rewrite firstn_length; lia).
    apply Hne. symmetry. apply (proj1 (NoDup_nth (firstn m keys) 0%N) Hknd); [lia | lia | congruence].
  Qed.
  Lemma key_nz j : j < m -> nth j keys 0%N <> 0%N.
  Proof.
    intros Hj. rewrite <- (nth_firstn_lt keys m j 0%N Hj).
    apply (proj1 (Forall_forall _ _) Hknz). apply nth_In. rewrite firstn_length. lia.
  Qed.

  (* the if-chain: with x holding key k, if-block j <= k leads to edge target k *)
  Lemma chain_to_target (e : env) s k : k < m -> e x = nth k keys 0%N -> forall d j, j + d = k ->
    nstepsf (Datatypes.S d) (n + m + j, e, s) (nth k es 0, e, s).
  Proof.
    intros Hk He. induction d as [|d IH]; intros j Hj.
    - assert (j = k) by lia. subst j. apply nsteps_one.
      rewrite (step_at S act cond fg _ _ e s (fg_if k Hk)). cbn [body bterm run_body fold_left fst snd eval_cond cmp6_eval].
      rewrite He, N.eqb_refl. reflexivity.
    - assert (Hjm : j < m) by lia. econstructor.
      + rewrite (step_at S act cond fg _ _ e s (fg_if j Hjm)). cbn [body bterm run_body fold_left fst snd eval_cond cmp6_eval]. rewrite He.
        destruct (N.eqb_spec (nth k keys 0%N) (nth j keys 0%N)) as [Heq|_]; [exfalso; apply (key_neq j k); try lia; exact Heq|].
        destruct (Nat.ltb_spec (Datatypes.S j) m); [reflexivity | lia].
      + apply IH. lia.
  Qed.

  (* a fake block: set the key, go through the dispatcher, arrive at the edge's target *)
  Lemma fake_to_target (e : env) s k : k < m ->
    nstepsf (k + 3) (n + k, e, s) (nth k es 0, upd e x (nth k keys 0%N), s).
  Proof.
    intros Hk. replace (k + 3) with (1 + (1 + Datatypes.S k)) by lia.
    apply (nsteps_trans 1 _ _ (E, upd e x (nth k keys 0%N), s)).
    { apply nsteps_one. rewrite (step_at S act cond fg _ _ e s (fg_fake k Hk)). reflexivity. }
    apply (nsteps_trans 1 _ _ (n + m + 0, upd e x (nth k keys 0%N), s)).
    { apply nsteps_one. rewrite (step_at S act cond fg _ _ _ s fg_entry), Nat.add_0_r. reflexivity. }
    apply chain_to_target; [exact Hk | unfold upd; rewrite Nat.eqb_refl; reflexivity | lia].
  Qed.

  (* on entry x is 0: every comparison fails and control reaches the function's entry block *)
  Lemma chain_from_start (e : env) s : e x = 0%N -> forall d j, j + Datatypes.S d = m -> nstepsf (Datatypes.S d) (n + m + j, e, s) (start, e, s).
  Proof.
    intros He. induction d as [|d IH]; intros j Hj; (assert (Hjm : j < m) by lia).
    - apply nsteps_one. rewrite (step_at S act cond fg _ _ e s (fg_if j Hjm)). cbn [body bterm run_body fold_left fst snd eval_cond cmp6_eval]. rewrite He.
      destruct (N.eqb_spec 0%N (nth j keys 0%N)) as [Heq|_]; [exfalso; apply (key_nz j Hjm); congruence|].
      destruct (Nat.ltb_spec (Datatypes.S j) m); [lia | reflexivity].
    - econstructor.
      + rewrite (step_at S act cond fg _ _ e s (fg_if j Hjm)). cbn [body bterm run_body fold_left fst snd eval_cond cmp6_eval]. rewrite He.
        destruct (N.eqb_spec 0%N (nth j keys 0%N)) as [Heq|_]; [exfalso; apply (key_nz j Hjm); congruence|].
        destruct (Nat.ltb_spec (Datatypes.S j) m); [reflexivity | lia].
      + apply IH. lia.
  Qed.
  Lemma entry_to_start (e : env) s : e x = 0%N -> nstepsf (Datatypes.S (Datatypes.S (m - 1))) (E, e, s) (start, e, s).
  Proof.
    intros He. econstructor; [rewrite (step_at S act cond fg _ _ e s fg_entry); reflexivity|]. cbn [body run_body fold_left fst snd].
    rewrite <- (Nat.add_0_r (n + m)). apply chain_from_start; [exact He | lia].
  Qed.

  (* ---- where the edges of an old block sit *)
  Lemma edge_first j b t rest : nth_error g j = Some b -> edges_of b = t :: rest ->
    edge_offset g j < m /\ nth (edge_offset g j) es 0 = t.
  Proof.
    intros H He. pose proof (edges_bound g j b H) as Hb. pose proof (edges_position g j b H) as Hp.
    rewrite He in Hb, Hp. cbn [length] in Hb, Hp. fold es m in Hb. split; [lia|].
    rewrite <- (Nat.add_0_r (edge_offset g j)). fold es in Hp.
    rewrite <- (nth_of_firstn_skipn es (edge_offset g j) 0 (Datatypes.S (length rest)) 0) by lia. rewrite Hp. reflexivity.
  Qed.
  Lemma edge_second j b t f : nth_error g j = Some b -> edges_of b = [t; f] ->
    Datatypes.S (edge_offset g j) < m /\ nth (Datatypes.S (edge_offset g j)) es 0 = f.
  Proof.
    intros H He. pose proof (edges_bound g j b H) as Hb. pose proof (edges_position g j b H) as Hp.
    rewrite He in Hb, Hp. cbn [length] in Hb, Hp. fold es m in Hb. split; [lia|].
    replace (Datatypes.S (edge_offset g j)) with (edge_offset g j + 1) by lia. fold es in Hp.
    rewrite <- (nth_of_firstn_skipn es (edge_offset g j) 1 2 0) by lia. rewrite Hp. reflexivity.
  Qed.

  Lemma flatten_sim :
    (forall pc e e' s pc2 e2 s2, pc < n -> agree x e e' -> step S act cond g (pc, e, s) = Next S (pc2, e2, s2) ->
       exists k0 e2', nstepsf (Datatypes.S k0) (pc, e', s) (pc2, e2', s2) /\ agree x e2 e2') /\
    (forall pc e e' s r p s2, pc < n -> agree x e e' -> step S act cond g (pc, e, s) = Halt S r p s2 ->
       exists k0 st', nstepsf k0 (pc, e', s) st' /\ stepf st' = Halt S r p s2).
  Proof.
    split.
    - intros pc e e' s pc2 e2 s2 Hpc Ha Hs.
      destruct (nth_error g pc) as [b|] eqn:Eb; [|apply nth_error_None in Eb; fold n in Eb; lia].
      destruct (unused_block x g pc b Hx Eb) as [Hb1 Hb2].
      destruct (run_body_agree S act x (body b) Hb1 e e' s Ha) as [Ha2 Hs2].
      set (bs := run_body S act (body b) (e, s)) in *. set (bs' := run_body S act (body b) (e', s)) in *.
      rewrite (step_at S act cond g pc b e s Eb) in Hs. fold bs in Hs.
      destruct (bterm b) as [t|c t f|r|r] eqn:Et; try discriminate.
      + inversion Hs; subst pc2 e2 s2.
        destruct (edge_first pc b t [] Eb) as [Hk Hn]; [unfold edges_of; rewrite Et; reflexivity|].
        set (k := edge_offset g pc) in *.
        exists (k + 3), (upd (fst bs') x (nth k keys 0%N)). split; [|apply agree_upd_fresh, Ha2].
        rewrite Hs2, <- Hn. apply (nsteps_trans 1 (k + 3) _ (n + k, fst bs', snd bs')); [|apply fake_to_target, Hk].
        apply nsteps_one. rewrite (step_at S act cond fg pc _ e' s (fg_orig pc b Eb)). cbn [body bterm]. rewrite Et. reflexivity.
      + assert (Hc : eval_cond S cond c (fst bs') (snd bs') = eval_cond S cond c (fst bs) (snd bs)).
        { rewrite <- Hs2. symmetry. apply (eval_cond_agree S cond x (TIf c t f) c t f _ _ _ eq_refl Hb2 Ha2). }
        inversion Hs; subst pc2 e2 s2.
        destruct (edge_first pc b t [f] Eb) as [Hk Hn]; [unfold edges_of; rewrite Et; reflexivity|].
        destruct (edge_second pc b t f Eb) as [Hk2 Hn2]; [unfold edges_of; rewrite Et; reflexivity|].
        set (k := edge_offset g pc) in *.
        destruct (eval_cond S cond c (fst bs) (snd bs)) eqn:Ec.
        * exists (k + 3), (upd (fst bs') x (nth k keys 0%N)). split; [|apply agree_upd_fresh, Ha2].
          rewrite Hs2, <- Hn. apply (nsteps_trans 1 (k + 3) _ (n + k, fst bs', snd bs')); [|apply fake_to_target, Hk].
          apply nsteps_one. rewrite (step_at S act cond fg pc _ e' s (fg_orig pc b Eb)). cbn [body bterm]. rewrite Et. cbn [rewrite_term]. fold bs'. rewrite Hc. reflexivity.
        * exists (Datatypes.S k + 3), (upd (fst bs') x (nth (Datatypes.S k) keys 0%N)). split; [|apply agree_upd_fresh, Ha2].
          rewrite Hs2, <- Hn2. apply (nsteps_trans 1 (Datatypes.S k + 3) _ (n + Datatypes.S k, fst bs', snd bs')); [|apply fake_to_target, Hk2].
          apply nsteps_one. rewrite (step_at S act cond fg pc _ e' s (fg_orig pc b Eb)). cbn [body bterm]. rewrite Et. cbn [rewrite_term]. fold bs'. rewrite Hc. reflexivity.
    - intros pc e e' s r p s2 Hpc Ha Hs.
      destruct (nth_error g pc) as [b|] eqn:Eb; [|apply nth_error_None in Eb; fold n in Eb; lia].
      destruct (unused_block x g pc b Hx Eb) as [Hb1 Hb2].
      destruct (run_body_agree S act x (body b) Hb1 e e' s Ha) as [_ Hs2].
      rewrite (step_at S act cond g pc b e s Eb) in Hs.
      exists 0, (pc, e', s). split; [constructor|].
      rewrite (step_at S act cond fg pc _ e' s (fg_orig pc b Eb)). cbn [body bterm].
      destruct (bterm b) as [t|c t f|r0|r0] eqn:Et; try discriminate; cbn [rewrite_term]; rewrite <- Hs2; exact Hs.
  Qed.

  (* a call of the flattened function (entered at the dispatcher, x = 0) has the result of a call of
     the original entered at [start] *)
  Theorem flatten_equiv (e : env) s : e x = 0%N ->
    forall res, (exists fuel, run S act cond g fuel (start, e, s) = Some res) <->
                (exists fuel, run S act cond fg fuel (E, e, s) = Some res).
  Proof.
    intros He. destruct flatten_sim as [Hn Hh].
    apply (gensim_equiv S act cond g fg (agree x) (wf_progress S act cond g Hwf) Hn Hh start E e e e s (Datatypes.S (Datatypes.S (m - 1))) Hstart (agree_refl x e)).
    apply entry_to_start, He.
  Qed.
End Flat.

(* ---------- the shuffle ---------- *)
Lemma nodup_nat_NoDup l : nodup_nat l = true -> NoDup l.
Proof.
  induction l as [|x r IH]; cbn; intros H; [constructor|]. apply andb_true_iff in H as [H1 H2].
  constructor; [|apply IH, H2]. intros Hin. apply negb_true_iff in H1.
  assert (existsb (Nat.eqb x) r = true) by (apply existsb_exists; exists x; split; [exact Hin | apply Nat.eqb_refl]). congruence.
Qed.
Lemma index_of_nth sigma : NoDup sigma -> forall i, i < length sigma -> index_of (nth i sigma 0) sigma = i.
Proof.
  induction sigma as [|x r IH]; intros Hnd i Hi; [cbn in Hi; lia|].
  inversion Hnd as [|? ? Hx Hr]; subst. destruct i as [|i]; cbn [nth index_of].
  - rewrite Nat.eqb_refl. reflexivity.
  - destruct (Nat.eqb_spec x (nth i r 0)) as [Heq|_].
    + exfalso. apply Hx. rewrite Heq. apply nth_In. cbn in Hi. lia.
    + f_equal. apply IH; [exact Hr | cbn in Hi; lia].
Qed.

Section Shuffle.
  Variable S : Type.
  Variable act : nat -> S -> S.
  Variable cond : nat -> S -> bool.
  Variable g : cfg.
  Variable sigma : list nat.
  Hypothesis Hwf : wf g = true.
  Hypothesis Hperm : perm_okb sigma g = true.
  Let n := length g.

  Lemma renumber_nth i b : nth_error g i = Some b ->
    nth_error (renumber sigma g) (nth i sigma 0) = Some {| body := body b; bterm := rename_term sigma (bterm b) |}.
  Proof.
    intros Hb. unfold perm_okb in Hperm. apply andb_true_iff in Hperm as [H Hnd]. apply andb_true_iff in H as [Hlen Hlt].
    apply Nat.eqb_eq in Hlen. apply nodup_nat_NoDup in Hnd.
    assert (Hi : i < length sigma) by (rewrite Hlen; apply nth_error_Some; congruence).
    assert (Hj : nth i sigma 0 < length g).
    { apply Nat.ltb_lt. apply (proj1 (forallb_forall _ _) Hlt). apply nth_In, Hi. }
    unfold renumber. rewrite (nth_error_map_seq _ (length g) _ Hj). rewrite (index_of_nth sigma Hnd i Hi), Hb. reflexivity.
  Qed.

  Theorem renumber_run : forall fuel pc e s, pc < n ->
    run S act cond (renumber sigma g) fuel (nth pc sigma 0, e, s) = run S act cond g fuel (pc, e, s).
  Proof.
    induction fuel as [|fuel IH]; intros pc e s Hpc; [reflexivity|].
    destruct (nth_error g pc) as [b|] eqn:Eb; [|apply nth_error_None in Eb; fold n in Eb; lia].
    cbn [run]. rewrite (step_at S act cond _ _ _ e s (renumber_nth pc b Eb)), (step_at S act cond g pc b e s Eb). cbn [body bterm].
    destruct (bterm b) as [t|c t f|r|r] eqn:Et; cbn [rename_term]; try reflexivity.
    - apply IH. apply (wf_succ g pc b t Hwf Eb). rewrite Et. left. reflexivity.
    - destruct (eval_cond S cond c _ _); apply IH; apply (wf_succ g pc b _ Hwf Eb); rewrite Et; cbn; auto.
  Qed.
End Shuffle.

(* ---------- the deciders are sound; passes compose ---------- *)
Lemma cmp6_eqb_eq a b : cmp6_eqb a b = true -> a = b.
Proof. destruct a, b; cbn; intros H; try discriminate; reflexivity. Qed.
Lemma instr_eqb_eq a b : instr_eqb a b = true -> a = b.
Proof.
  destruct a, b; cbn; intros H; try discriminate.
  - f_equal. apply Nat.eqb_eq, H.
  - apply andb_true_iff in H as [H1 H2]. apply Nat.eqb_eq in H1. apply N.eqb_eq in H2. congruence.
Qed.
Lemma condx_eqb_eq a b : condx_eqb a b = true -> a = b.
Proof.
  destruct a, b; cbn; intros H; try discriminate.
  - f_equal. apply Nat.eqb_eq, H.
  - apply andb_true_iff in H as [H H3]. apply andb_true_iff in H as [H1 H2].
    apply Nat.eqb_eq in H1. apply cmp6_eqb_eq in H2. apply N.eqb_eq in H3. congruence.
Qed.
Lemma term_eqb_eq a b : term_eqb a b = true -> a = b.
Proof.
  destruct a, b; cbn; intros H; try discriminate; try (f_equal; apply Nat.eqb_eq, H).
  apply andb_true_iff in H as [H H3]. apply andb_true_iff in H as [H1 H2].
  apply condx_eqb_eq in H1. apply Nat.eqb_eq in H2, H3. congruence.
Qed.
Lemma list_eqb_eq {A} (eqb : A -> A -> bool) : (forall a b, eqb a b = true -> a = b) -> forall a b, list_eqb eqb a b = true -> a = b.
Proof.
  intros He. induction a as [|x a IH]; intros [|y b] H; cbn in H; try discriminate; [reflexivity|].
  apply andb_true_iff in H as [H1 H2]. f_equal; [apply He, H1 | apply IH, H2].
Qed.
Lemma block_eqb_eq a b : block_eqb a b = true -> a = b.
Proof.
  unfold block_eqb. intros H. apply andb_true_iff in H as [H1 H2].
  apply (list_eqb_eq instr_eqb instr_eqb_eq) in H1. apply term_eqb_eq in H2. destruct a, b; cbn in *; congruence.
Qed.
Lemma cfg_eqb_eq a b : cfg_eqb a b = true -> a = b.
Proof. apply (list_eqb_eq block_eqb block_eqb_eq). Qed.
Lemma nodupb_NoDup l : nodupb l = true -> NoDup l.
Proof.
  induction l as [|x r IH]; cbn; intros H; [constructor|]. apply andb_true_iff in H as [H1 H2].
  constructor; [|apply IH, H2]. intros Hin. apply negb_true_iff in H1.
  assert (existsb (N.eqb x) r = true) by (apply existsb_exists; exists x; split; [exact Hin | apply N.eqb_refl]). congruence.
Qed.

Section Pipeline.
  Variable S : Type.
  Variable act : nat -> S -> S.
  Variable cond : nat -> S -> bool.

  (* same results from a fresh call (all phi variables zero) *)
  Definition equiv (gs gs' : cfg * nat) : Prop :=
    forall s res, (exists fuel, run S act cond (fst gs) fuel (snd gs, env0, s) = Some res) <->
                  (exists fuel, run S act cond (fst gs') fuel (snd gs', env0, s) = Some res).

  Theorem pass_equiv p gs : pass_okb p gs = true -> equiv gs (apply_pass p gs).
  Proof.
    destruct gs as [g start]. unfold pass_okb. intros H. apply andb_true_iff in H as [H Hp]. apply andb_true_iff in H as [Hwf Hs].
    apply Nat.ltb_lt in Hs. intros s res. cbn [fst snd].
    destruct p as [src slot|src slot y a o k trash|j k|x keys|sigma]; cbn [apply_pass fst snd].
    - apply (add_jump_equiv S act cond g src slot Hwf start env0 s Hs).
    - apply andb_true_iff in Hp as [Hy Hf]. apply negb_true_iff in Hf.
      apply (trash_equiv S act cond g src slot y a k o trash Hwf Hy Hf start env0 s Hs).
    - apply (split_equiv S act cond g j k Hwf start env0 s Hs).
    - apply andb_true_iff in Hp as [Hp H5]. apply andb_true_iff in Hp as [Hp H4]. apply andb_true_iff in Hp as [Hp H3].
      apply andb_true_iff in Hp as [Hx H2].
      apply (flatten_equiv S act cond g x keys start Hwf Hx Hs); try reflexivity.
      + apply Nat.ltb_lt, H2.
      + apply Nat.leb_le, H3.
      + apply nodupb_NoDup, H4.
      + apply Forall_forall. intros k Hk. pose proof (proj1 (forallb_forall _ _) H5 k Hk) as Hz.
        apply negb_true_iff, N.eqb_neq in Hz. exact Hz.
    - split; intros [f H]; exists f; [rewrite (renumber_run S act cond g sigma Hwf Hp f start env0 s Hs) | rewrite <- (renumber_run S act cond g sigma Hwf Hp f start env0 s Hs)]; exact H.
  Qed.

  Theorem passes_equiv : forall ps gs, passes_okb ps gs = true -> equiv gs (apply_passes ps gs).
  Proof.
    induction ps as [|p ps IH]; intros gs H; [intros s res; reflexivity|].
    cbn in H. apply andb_true_iff in H as [H1 H2]. cbn [apply_passes].
    intros s res. rewrite (pass_equiv p gs H1 s res). apply (IH _ H2).
  Qed.

  (* what the correspondence check evaluates on graphs dumped from the implementation *)
  Theorem passes_checked_instance ps g start real :
    passes_okb ps (g, start) = true -> cfg_eqb (fst (apply_passes ps (g, start))) real = true ->
    equiv (g, start) (real, snd (apply_passes ps (g, start))).
  Proof.
    intros Hok He. apply cfg_eqb_eq in He. subst real. rewrite <- surjective_pairing. apply passes_equiv, Hok.
  Qed.
End Pipeline.

(* ---------- hardening of the dispatcher keys (internal/ctrlflow/hardening.go) ----------
   Both hardenings replace the constant k_i stored by fake block i and the constant compared by
   if-block i by expressions; what matters is the value stored and the value compared with. *)
Open Scope N_scope.

(* xor: store  localKey ^ k_i  (localKey = globalKey at run time), compare with  k_i ^ globalKey *)
Definition xor_store (g k : N) : N := N.lxor g k.
Definition xor_compare (g k : N) : N := N.lxor k g.
Lemma xor_store_is_compare g k : xor_store g k = xor_compare g k.
Proof. apply N.lxor_comm. Qed.

Lemma lxor_cancel_l a b c : N.lxor a b = N.lxor a c -> b = c.
Proof.
  intros H. assert (E : N.lxor a (N.lxor a b) = N.lxor a (N.lxor a c)) by (rewrite H; reflexivity).
  rewrite <- !N.lxor_assoc, !N.lxor_nilpotent, !N.lxor_0_l in E. exact E.
Qed.

(* generateKeys(count, [globalKey]) yields distinct keys different from 0 and from the global key:
   the effective keys are then again distinct and non-zero, which is what flattening needs *)
Theorem xor_hardening_keys_ok g keys :
  NoDup keys -> Forall (fun k => k <> g) keys ->
  NoDup (map (xor_store g) keys) /\ Forall (fun e => e <> 0) (map (xor_store g) keys).
Proof.
  intros Hnd Hne. split.
  - induction Hnd as [|k r Hk _ IH]; [constructor|]. cbn. inversion Hne; subst. constructor; [|apply IH; assumption].
    intros Hin. apply in_map_iff in Hin as (k' & He & Hk'). apply lxor_cancel_l in He. subst. contradiction.
  - apply Forall_forall. intros e He. apply in_map_iff in He as (k & <- & Hk).
    pose proof (proj1 (Forall_forall _ _) Hne k Hk) as Hkg. unfold xor_store. intros H0. apply Hkg.
    apply N.lxor_eq in H0. congruence.
Qed.

(* delegate_table: store  table[d](k ^ dk)  where  table[d](i) = i ^ dk ; compare with k *)
Definition delegate_store (dk k : N) : N := N.lxor (N.lxor k dk) dk.
Theorem delegate_store_is_key dk k : delegate_store dk k = k.
Proof. unfold delegate_store. rewrite N.lxor_assoc, N.lxor_nilpotent, N.lxor_0_r. reflexivity. Qed.
