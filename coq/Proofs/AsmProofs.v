(* Lemmas about Model/Asm.v (C01): assembly references are renamed with the Go side's function. *)
From Coq Require Import Arith Lia.
From Verif Require Import Base.Bytes Model.Flags Model.Names Model.Scope Model.Rename Model.Asm.
Open Scope N_scope.

Section P.
  Variable is_letter is_digit : N -> bool.
  Variable lookup_pkg : str -> bool * str * str.
  Variable hname : str -> str -> str.
  Variable intr : list (str * list str).
  Variable cur_name cur_key : str.
  Variable cur_obf : bool.
  Variable cur_ipath : str.

  Notation rw := (rewrite is_letter is_digit lookup_pkg hname intr cur_name cur_key cur_obf cur_ipath).
  Notation replace := (replace_asm_names is_letter is_digit lookup_pkg hname intr cur_name cur_key cur_obf cur_ipath).

  Lemma cut_mid_none s : existsb (N.eqb MID) s = false -> cut_mid s = None.
  Proof.
    induction s as [|c r IH]; [reflexivity|]. cbn [existsb cut_mid]. intros H. apply orb_false_iff in H as [H1 H2].
    apply N.eqb_neq in H1. destruct (N.eqb_spec c MID) as [E|_]; [congruence|]. rewrite (IH H2). reflexivity.
  Qed.

  (* text without a middle dot is copied *)
  Theorem asm_passthrough s : existsb (N.eqb MID) s = false -> replace s = s.
  Proof. intros H. unfold replace_asm_names. cbn [rewrite]. rewrite (cut_mid_none s H). reflexivity. Qed.

  Lemma cut_mid_first pre post : existsb (N.eqb MID) pre = false -> cut_mid (pre ++ MID :: post) = Some (pre, post).
  Proof.
    induction pre as [|c r IH]; cbn [existsb cut_mid app]; intros H; [rewrite N.eqb_refl; reflexivity|]. apply orb_false_iff in H as [H1 H2].
    apply N.eqb_neq in H1. destruct (N.eqb_spec c MID) as [E|_]; [congruence|]. rewrite (IH H2). reflexivity.
  Qed.

  Lemma take_while_stop p a c r : forallb p a = true -> p c = false -> take_while p (a ++ c :: r) = a.
  Proof. induction a as [|x a IH]; cbn; intros H Hc; [rewrite Hc; reflexivity|]. apply andb_true_iff in H as [H1 H2]. rewrite H1, (IH H2 Hc). reflexivity. Qed.

  Lemma split_suffix_none p pre0 : (match rev pre0 with [] => true | c :: _ => negb (p c) end) = true ->
    split_suffix p pre0 = (pre0, []).
  Proof.
    intros H. unfold split_suffix. destruct (rev pre0) as [|c r] eqn:E; cbn [take_while].
    - cbn. rewrite Nat.sub_0_r, firstn_all. reflexivity.
    - apply negb_true_iff in H. rewrite H. cbn. rewrite Nat.sub_0_r, firstn_all. reflexivity.
  Qed.

  Lemma last_mid_none s : forall i acc, existsb (N.eqb MID) s = false -> last_mid s i acc = acc.
  Proof.
    induction s as [|c r IH]; intros i acc H; [reflexivity|]. cbn [existsb last_mid] in *. apply orb_false_iff in H as [H1 H2].
    apply N.eqb_neq in H1. destruct (N.eqb_spec c MID) as [E|_]; [congruence|]. apply IH, H2.
  Qed.

  Lemma skipn_app_exact {A} (a b : list A) : skipn (length a) (a ++ b) = b.
  Proof. induction a; cbn; auto. Qed.

  Hypothesis Hmid_letter : is_letter MID = false.     (* U+00B7 is punctuation (Po) *)
  Hypothesis Hmid_digit : is_digit MID = false.

  Lemma ident_is_path x : ident_rune is_letter is_digit x = true -> path_rune is_letter is_digit x = true.
  Proof.
    unfold ident_rune, path_rune. intros H. apply orb_true_iff in H as [H|H]; [apply orb_true_iff in H as [H|H]|]; rewrite H; rewrite ?orb_true_r; reflexivity.
  Qed.
  Lemma ident_not_mid x : ident_rune is_letter is_digit x = true -> (MID =? x) = false.
  Proof.
    intros H. destruct (N.eqb_spec MID x) as [<-|]; [|reflexivity]. unfold ident_rune in H. rewrite Hmid_letter, Hmid_digit in H. discriminate.
  Qed.
  Lemma name_no_mid name : forallb (ident_rune is_letter is_digit) name = true -> existsb (N.eqb MID) name = false.
  Proof.
    induction name as [|x r IH]; [reflexivity|]. cbn [forallb existsb]. intros H. apply andb_true_iff in H as [H1 H2].
    rewrite (ident_not_mid x H1), (IH H2). reflexivity.
  Qed.

  (* an unqualified reference  ·name  that is preceded by a rune which cannot be part of a package
     path and followed by one which can be part of neither a name nor a path: the name is replaced
     by the hash the Go side uses for the package's own objects (or kept, for unobfuscated packages
     and compiler intrinsics), everything before it is copied, the rest is rewritten in turn *)
  Theorem asm_local_reference pre name c post fuel :
    existsb (N.eqb MID) pre = false ->
    (match rev pre with [] => true | x :: _ => negb (path_rune is_letter is_digit x) end) = true ->
    forallb (ident_rune is_letter is_digit) name = true ->
    path_rune is_letter is_digit c = false -> c <> MID ->
    rw (S fuel) (pre ++ MID :: name ++ c :: post) =
    pre ++ [MID] ++ (if cur_obf && negb (intrinsic intr cur_key name) then hname cur_key name else name) ++ rw fuel (c :: post).
  Proof.
    intros Hpre Hlast Hname Hc Hcm. cbn [rewrite]. rewrite (cut_mid_first pre _ Hpre).
    rewrite (split_suffix_none _ pre Hlast).
    assert (Hci : ident_rune is_letter is_digit c = false).
    { destruct (ident_rune is_letter is_digit c) eqn:E; [|reflexivity]. rewrite (ident_is_path c E) in Hc. discriminate. }
    assert (Hrun : take_while (fun x => path_rune is_letter is_digit x || (x =? MID)) (name ++ c :: post) = name).
    { apply take_while_stop.
      - apply forallb_forall. intros x Hx. rewrite (ident_is_path x (proj1 (forallb_forall _ _) Hname x Hx)). reflexivity.
      - rewrite Hc. cbn. apply N.eqb_neq, Hcm. }
    rewrite Hrun, (last_mid_none name 0%nat None (name_no_mid name Hname)).
    rewrite (take_while_stop _ name c post Hname Hci). unfold drop. rewrite skipn_app_exact. cbn [app]. reflexivity.
  Qed.
End P.

(* the assembly side and the Go side decide alike for an ordinary package-level function: both hash
   exactly when the package is obfuscated and the name is not a compiler intrinsic *)
Theorem asm_go_agree intr to_obf d :
  o_kind d = KFunc -> o_universe d = false -> special_keep (o_pkg d) (o_name d) = false ->
  beq (o_name d) s_main = false -> beq (o_name d) s_init = false -> beq (o_name d) s_TestMain = false ->
  (is_prefix s_Test (o_name d) && o_test_sig d) = false ->
  (decide intr to_obf d = HashPkg) <-> (to_obf (o_pkg d) && negb (intrinsic intr (o_pkg d) (o_name d)) = true).
Proof.
  intros Hk Hu Hs Hm Hi Ht Hts. unfold decide. rewrite Hu, Hs, Hk.
  destruct (to_obf (o_pkg d)); cbn [negb andb]; [|split; discriminate].
  destruct (intrinsic intr (o_pkg d) (o_name d)); cbn [negb]; [split; discriminate|].
  rewrite andb_false_r, Hm, Hi, Ht. cbn [orb]. rewrite Hts. split; reflexivity.
Qed.
