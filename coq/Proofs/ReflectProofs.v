(* Lemmas about Model/Reflect.v (C08). *)
From Coq Require Import ZArith ZifyN ZifyNat ZifyBool Permutation.
From Verif Require Import Base.Bytes Model.Position Model.Reflect Proofs.PositionProofs.
Open Scope N_scope.

(* priorities of with_prio are positive, bounded by the length, and strictly decreasing *)
Lemma with_prio_bound pairs : Forall (fun e => (0 < snd e <= length pairs)%nat) (with_prio pairs).
Proof.
  induction pairs as [|[k v] r IH]; [constructor|]. cbn [with_prio length]. constructor; [cbn; lia|].
  eapply Forall_impl; [|exact IH]. intros e He. simpl in *. lia.
Qed.

(* scanning entries whose priorities are all below the current best changes nothing *)
Lemma best_match_dominated ps s k v p :
  Forall (fun e => (snd e <= p)%nat) ps -> best_match ps s (Some (k, v, p)) = Some (k, v, p).
Proof.
  induction ps as [|[[k' v'] p'] r IH]; intros H; [reflexivity|]. inversion H; subst. cbn [best_match snd] in *.
  assert (Hlt : Nat.ltb p p' = false) by (apply Nat.ltb_ge; lia).
  rewrite Hlt, andb_false_r. apply IH. assumption.
Qed.

(* highest priority = first in argument order *)
Lemma best_match_first pairs s :
  match best_match (with_prio pairs) s None, first_match pairs s with
  | Some (k, v, _), Some (k', v') => k = k' /\ v = v'
  | None, None => True
  | _, _ => False
  end.
Proof.
  induction pairs as [|[k v] r IH]; [exact I|]. cbn [with_prio best_match first_match].
  destruct (negb (beq k []) && is_prefix k s) eqn:E; cbn [andb].
  - rewrite best_match_dominated; [split; reflexivity|].
    eapply Forall_impl; [|apply with_prio_bound]. intros e He. simpl in *. lia.
  - exact IH.
Qed.

Theorem prio_replace_is_naive pairs s : prio_replace pairs s = naive_replace pairs s.
Proof.
  unfold prio_replace, naive_replace. generalize (S (length s)) as fuel. intros fuel. revert s.
  induction fuel as [|f IH]; intros s; [reflexivity|]. destruct s as [|c r]; [reflexivity|].
  cbn [prio_replace_fuel naive_replace_fuel].
  pose proof (best_match_first pairs (c :: r)) as H.
  destruct (best_match (with_prio pairs) (c :: r) None) as [[[k v] p]|], (first_match pairs (c :: r)) as [[k' v']|]; try contradiction.
  - destruct H as [-> ->]. f_equal. apply IH.
  - f_equal. apply IH.
Qed.

(* ---------- (c): the result of the propagation depends on the visiting order (F10) ---------- *)
Definition G : fname := 2.
Definition H_ : fname := 3.
Definition MAIN : fname := 4.
Definition T : N := 77.
(* func g(v any){ reflect.TypeOf(v) } ; func h(a, b any){ reflect.TypeOf(a); g(b) } ; main: h(1, T{}) *)
Definition fg := {| f_name := G; f_calls := [{| c_callee := TYPEOF; c_args := [AParam 0] |}] |}.
Definition fh := {| f_name := H_; f_calls := [{| c_callee := TYPEOF; c_args := [AParam 0] |}; {| c_callee := G; c_args := [AParam 1] |}] |}.
Definition fmain := {| f_name := MAIN; f_calls := [{| c_callee := H_; c_args := [AOther; ALocal T] |}] |}.

Theorem analyse_order_refuted :
  exists o1 o2,
    (forall p, In p o1 -> Permutation p [fg; fh; fmain]) /\
    (forall p, In p o2 -> Permutation p [fg; fh; fmain]) /\
    names (analyse o1 init_state) = [T] /\ names (analyse o2 init_state) = [].
Proof.
  exists (repeat [fh; fg; fmain] 4), (repeat [fmain; fh; fg] 4).
  split; [|split; [|split; [vm_compute; reflexivity | vm_compute; reflexivity]]].
  - intros p Hp. apply repeat_spec in Hp. subst.
    apply perm_trans with [fg; fh; fmain]; [apply perm_swap | apply Permutation_refl].
  - intros p Hp. apply repeat_spec in Hp. subst.
    change [fmain; fh; fg] with ([fmain] ++ [fh; fg]). change [fg; fh; fmain] with ([fg; fh] ++ [fmain]).
    apply perm_trans with ([fh; fg] ++ [fmain]); [apply Permutation_app_comm|].
    cbn. apply perm_swap.
Qed.
