From Verif Require Import Base.Bytes Model.Tiny.
Open Scope N_scope.

Lemma memN_in x l : memN x l = true <-> In x l.
Proof.
  unfold memN. rewrite existsb_exists. split.
  - intros (y & Hy & E). apply N.eqb_eq in E. subst. exact Hy.
  - intros H. exists x. split; [exact H | apply N.eqb_refl].
Qed.

(* a set that contains the sinks and is closed under callers contains everything that can reach a sink *)
Theorem closed_contains_reaching g sinks R :
  closed g R = true -> subset sinks R = true -> forall f, reaches g sinks f -> memN f R = true.
Proof.
  intros Hc Hs f Hr. induction Hr as [f Hin | f c (cs & Hg & Hcin) _ IH].
  - unfold subset in Hs. rewrite forallb_forall in Hs. apply Hs, Hin.
  - unfold closed in Hc. rewrite forallb_forall in Hc. specialize (Hc (f, cs) Hg). cbn in Hc.
    assert (He : existsb (fun c0 => memN c0 R) cs = true) by (apply existsb_exists; exists c; auto).
    rewrite He in Hc. exact Hc.
Qed.
