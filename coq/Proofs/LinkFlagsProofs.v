(* Lemmas about Model/LinkFlags.v (C02). *)
From Coq Require Import ZArith ZifyN ZifyNat ZifyBool.
From Verif Require Import Base.Bytes Model.Flags Model.LinkFlags Proofs.FlagsProofs.
Open Scope N_scope.

Lemma strip_prefix_self name v : strip_prefix (name ++ [EQ]) (name ++ EQ :: v) = Some v.
Proof. change (name ++ EQ :: v) with (name ++ ([EQ] ++ v)). rewrite app_assoc. apply strip_prefix_app. Qed.

Lemma beq_longer name v : beq (name ++ EQ :: v) name = false.
Proof.
  apply not_true_is_false. intros H. apply beq_eq in H. apply (f_equal (@length N)) in H.
  rewrite !app_length in H. cbn in H. lia.
Qed.

(* flagSetValue on a list where the flag occurs once as -name=old: that occurrence is replaced,
   nothing else changes, and flagValue then reads the new value *)
Lemma flag_set_value_once pre old post name value :
  forallb (fun a => negb (mentions name a)) pre = true ->
  flag_set_value (pre ++ (name ++ EQ :: old) :: post) name value = pre ++ (name ++ EQ :: value) :: post.
Proof.
  intros Hpre. induction pre as [|a pre IH]; cbn [app flag_set_value].
  - rewrite strip_prefix_self. reflexivity.
  - cbn [forallb] in Hpre. apply andb_true_iff in Hpre as [Ha Hpre]. unfold mentions in Ha.
    apply negb_true_iff, orb_false_iff in Ha as [Ha1 Ha2].
    destruct (strip_prefix (name ++ [EQ]) a); [discriminate|]. rewrite Ha1. rewrite (IH Hpre). reflexivity.
Qed.

Lemma flag_values_none l name : forallb (fun a => negb (mentions name a)) l = true -> flag_values l name = [].
Proof.
  induction l as [|a l IH]; intros H; [reflexivity|]. cbn [forallb] in H. apply andb_true_iff in H as [Ha H].
  unfold mentions in Ha. apply negb_true_iff, orb_false_iff in Ha as [Ha1 Ha2].
  cbn [flag_values]. destruct (strip_prefix (name ++ [EQ]) a); [discriminate|]. rewrite Ha1. cbn [app]. apply IH, H.
Qed.

Lemma flag_values_app l1 l2 name :
  forallb (fun a => negb (mentions name a)) l1 = true -> flag_values (l1 ++ l2) name = flag_values l2 name.
Proof.
  induction l1 as [|a l IH]; intros H; [reflexivity|]. cbn [forallb] in H. apply andb_true_iff in H as [Ha H].
  unfold mentions in Ha. apply negb_true_iff, orb_false_iff in Ha as [Ha1 Ha2].
  cbn [app flag_values]. destruct (strip_prefix (name ++ [EQ]) a); [discriminate|]. rewrite Ha1. cbn [app]. apply IH, H.
Qed.

Theorem flag_value_after_set pre old post name value :
  forallb (fun a => negb (mentions name a)) pre = true ->
  forallb (fun a => negb (mentions name a)) post = true ->
  flag_value (flag_set_value (pre ++ (name ++ EQ :: old) :: post) name value) name = value.
Proof.
  intros Hpre Hpost. rewrite (flag_set_value_once pre old post name value Hpre).
  unfold flag_value. rewrite (flag_values_app pre _ name Hpre). cbn [flag_values].
  rewrite strip_prefix_self, beq_longer, (flag_values_none post name Hpost). reflexivity.
Qed.

(* the bare form: -name old  ->  -name value *)
Lemma flag_set_value_bare pre old post name value :
  forallb (fun a => negb (mentions name a)) pre = true -> has_eq name = false ->
  flag_set_value (pre ++ name :: old :: post) name value = pre ++ name :: value :: post.
Proof.
  intros Hpre Hne. induction pre as [|a pre IH]; cbn [app flag_set_value].
  - assert (Hs : strip_prefix (name ++ [EQ]) name = None).
    { clear -Hne. induction name as [|c n IH]; [reflexivity|]. cbn [app strip_prefix]. rewrite N.eqb_refl.
      apply IH. unfold has_eq in *. cbn [existsb] in Hne. apply orb_false_iff in Hne as [_ H]. exact H. }
    rewrite Hs, beq_refl. reflexivity.
  - cbn [forallb] in Hpre. apply andb_true_iff in Hpre as [Ha Hpre]. unfold mentions in Ha.
    apply negb_true_iff, orb_false_iff in Ha as [Ha1 Ha2].
    destruct (strip_prefix (name ++ [EQ]) a); [discriminate|]. rewrite Ha1. rewrite (IH Hpre). reflexivity.
Qed.

Definition nomention (name : str) (l : list str) : bool := forallb (fun a => negb (mentions name a)) l.

Lemma nomention_app name a b : nomention name (a ++ b) = nomention name a && nomention name b.
Proof. unfold nomention. apply forallb_app. Qed.

(* transformLink on a linker command line of the shape cmd/go produces:
   pre ++ [-importcfg; old] ++ mid ++ [-buildid=X] ++ post *)
Theorem transform_link_flags_shape pre cfgold mid X post xdups newcfg :
  nomention s_importcfg pre = true ->
  nomention s_buildid (pre ++ [s_importcfg; cfgold] ++ mid) = true ->
  transform_link_flags (pre ++ [s_importcfg; cfgold] ++ mid ++ [s_buildid ++ EQ :: X] ++ post) xdups newcfg
  = pre ++ [s_importcfg; newcfg] ++ mid ++ [s_buildid ++ [EQ]] ++ post ++ xdups ++ [s_X_buildversion; s_w; s_s].
Proof.
  intros Hi Hb. unfold transform_link_flags.
  replace ((pre ++ [s_importcfg; cfgold] ++ mid ++ [s_buildid ++ EQ :: X] ++ post) ++ xdups ++ [s_X_buildversion])
    with ((pre ++ [s_importcfg; cfgold] ++ mid) ++ (s_buildid ++ EQ :: X) :: (post ++ xdups ++ [s_X_buildversion]))
    by (rewrite <- !app_assoc; reflexivity).
  rewrite (flag_set_value_once _ X _ s_buildid [] Hb).
  replace (((pre ++ [s_importcfg; cfgold] ++ mid) ++ (s_buildid ++ EQ :: []) :: post ++ xdups ++ [s_X_buildversion]) ++ [s_w; s_s])
    with (pre ++ s_importcfg :: cfgold :: (mid ++ [s_buildid ++ [EQ]] ++ post ++ xdups ++ [s_X_buildversion; s_w; s_s]))
    by (rewrite <- !app_assoc; cbn [app]; rewrite <- !app_assoc; reflexivity).
  rewrite (flag_set_value_bare pre cfgold _ s_importcfg newcfg Hi) by reflexivity.
  reflexivity.
Qed.

(* -trimpath: garble's temporary directory is put first, in front of whatever cmd/go passed *)
Theorem alter_trimpath_shape pre old post tempdir :
  nomention s_trimpath pre = true -> nomention s_trimpath post = true ->
  alter_trimpath (pre ++ (s_trimpath ++ EQ :: old) :: post) tempdir
  = pre ++ (s_trimpath ++ EQ :: tempdir ++ s_arrow_semi ++ old) :: post.
Proof.
  intros Hpre Hpost. unfold alter_trimpath.
  assert (Hv : flag_value (pre ++ (s_trimpath ++ EQ :: old) :: post) s_trimpath = old).
  { unfold flag_value. rewrite (flag_values_app pre _ s_trimpath Hpre). cbn [flag_values].
    rewrite strip_prefix_self, beq_longer, (flag_values_none post s_trimpath Hpost). reflexivity. }
  rewrite Hv. apply flag_set_value_once. exact Hpre.
Qed.

(* the form cmd/go actually uses for the compiler: "-trimpath" "value" *)
Lemma strip_prefix_name_eq_self name : has_eq name = false -> strip_prefix (name ++ [EQ]) name = None.
Proof.
  intros Hne. induction name as [|c n IH]; [reflexivity|]. cbn [app strip_prefix]. rewrite N.eqb_refl.
  apply IH. unfold has_eq in *. cbn [existsb] in Hne. apply orb_false_iff in Hne as [_ H]. exact H.
Qed.

Theorem alter_trimpath_shape_bare pre old post tempdir :
  nomention s_trimpath pre = true -> nomention s_trimpath (old :: post) = true ->
  alter_trimpath (pre ++ s_trimpath :: old :: post) tempdir
  = pre ++ s_trimpath :: (tempdir ++ s_arrow_semi ++ old) :: post.
Proof.
  intros Hpre Hpost. unfold alter_trimpath.
  assert (Hv : flag_value (pre ++ s_trimpath :: old :: post) s_trimpath = old).
  { unfold flag_value. rewrite (flag_values_app pre _ s_trimpath Hpre).
    assert (H : forall l, flag_values (s_trimpath :: l) s_trimpath
                = (match l with v :: _ => [v] | [] => [] end) ++ flag_values l s_trimpath).
    { intros l. cbn [flag_values]. rewrite (strip_prefix_name_eq_self s_trimpath eq_refl), beq_refl. reflexivity. }
    rewrite H. rewrite (flag_values_none (old :: post) s_trimpath Hpost). reflexivity. }
  rewrite Hv. apply flag_set_value_bare; [exact Hpre | reflexivity].
Qed.
