(* Lemmas about Model/LinkFlags.v (C02). *)
From Coq Require Import ZArith ZifyN ZifyNat ZifyBool.
From Verif Require Import Base.Bytes Model.Flags Model.LinkFlags Proofs.FlagsProofs.
Open Scope N_scope.

Lemma strip_prefix_self name v : strip_prefix (name ++ [EQ]) (name ++ EQ :: v) = Some v.
Proof. change (name ++ EQ :: v) with (name ++ ([EQ] ++ v)). rewrite app_assoc. apply strip_prefix_app. Qed.

Lemma beq_longer name v : beq (name ++ EQ :: v) name = false.
Proof.
  apply not_true_is_false. intros H. apply beq_eq in H. apply (f_equal (@length N)) in H.
  rewrite !app_length in H. cbn in H. lia.
Qed.

(* flagSetValue on a list where the flag occurs once as -name=old: that occurrence is replaced,
   nothing else changes, and flagValue then reads the new value *)
Lemma flag_set_value_once pre old post name value :
  forallb (fun a => negb (mentions name a)) pre = true ->
  flag_set_value (pre ++ (name ++ EQ :: old) :: post) name value = pre ++ (name ++ EQ :: value) :: post.
Proof.
  intros Hpre. induction pre as [|a pre IH]; cbn [app flag_set_value].
  - rewrite strip_prefix_self. reflexivity.
  - cbn [forallb] in Hpre. apply andb_true_iff in Hpre as [Ha Hpre]. unfold mentions in Ha.
    apply negb_true_iff, orb_false_iff in Ha as [Ha1 Ha2].
    destruct (strip_prefix (name ++ [EQ]) a); [discriminate|]. rewrite Ha1. rewrite (IH Hpre). reflexivity.
Qed.

Lemma flag_values_none l name : forallb (fun a => negb (mentions name a)) l = true -> flag_values l name = [].
Proof.
  induction l as [|a l IH]; intros H; [reflexivity|]. cbn [forallb] in H. apply andb_true_iff in H as [Ha H].
  unfold mentions in Ha. apply negb_true_iff, orb_false_iff in Ha as [Ha1 Ha2].
  cbn [flag_values]. destruct (strip_prefix (name ++ [EQ]) a); [discriminate|]. rewrite Ha1. cbn [app]. apply IH, H.
Qed.

Lemma flag_values_app l1 l2 name :
  forallb (fun a => negb (mentions name a)) l1 = true -> flag_values (l1 ++ l2) name = flag_values l2 name.
Proof.
  induction l1 as [|a l IH]; intros H; [reflexivity|]. cbn [forallb] in H. apply andb_true_iff in H as [Ha H].
  unfold mentions in Ha. apply negb_true_iff, orb_false_iff in Ha as [Ha1 Ha2].
  cbn [app flag_values]. destruct (strip_prefix (name ++ [EQ]) a); [discriminate|]. rewrite Ha1. cbn [app]. apply IH, H.
Qed.

Theorem flag_value_after_set pre old post name value :
  forallb (fun a => negb (mentions name a)) pre = true ->
  forallb (fun a => negb (mentions name a)) post = true ->
  flag_value (flag_set_value (pre ++ (name ++ EQ :: old) :: post) name value) name = value.
Proof.
  intros Hpre Hpost. rewrite (flag_set_value_once pre old post name value Hpre).
  unfold flag_value. rewrite (flag_values_app pre _ name Hpre). cbn [flag_values].
  rewrite strip_prefix_self, beq_longer, (flag_values_none post name Hpost). reflexivity.
Qed.

(* the bare form: -name old  ->  -name value *)
Lemma flag_set_value_bare pre old post name value :
  forallb (fun a => negb (mentions name a)) pre = true -> has_eq name = false ->
  flag_set_value (pre ++ name :: old :: post) name value = pre ++ name :: value :: post.
Proof.
  intros Hpre Hne. induction pre as [|a pre IH]; cbn [app flag_set_value].
  - assert (Hs : strip_prefix (name ++ [EQ]) name = None).
    { clear -Hne. induction name as [|c n IH]; [reflexivity|]. cbn [app strip_prefix]. rewrite N.eqb_refl.
      apply IH. unfold has_eq in *. cbn [existsb] in Hne. apply orb_false_iff in Hne as [_ H]. exact H. }
    rewrite Hs, beq_refl. reflexivity.
  - cbn [forallb] in Hpre. apply andb_true_iff in Hpre as [Ha Hpre]. unfold mentions in Ha.
    apply negb_true_iff, orb_false_iff in Ha as [Ha1 Ha2].
    destruct (strip_prefix (name ++ [EQ]) a); [discriminate|]. rewrite Ha1. rewrite (IH Hpre). reflexivity.
Qed.

Definition nomention (name : str) (l : list str) : bool := forallb (fun a => negb (mentions name a)) l.

Lemma nomention_app name a b : nomention name (a ++ b) = nomention name a && nomention name b.
Proof. unfold nomention. apply forallb_app. Qed.

(* transformLink on a linker command line of the shape cmd/go produces:
   pre ++ [-importcfg; old] ++ mid ++ [-buildid=X] ++ post *)
Theorem transform_link_flags_shape pre cfgold mid X post xdups newcfg :
  nomention s_importcfg pre = true ->
  nomention s_buildid (pre ++ [s_importcfg; cfgold] ++ mid) = true ->
  transform_link_flags (pre ++ [s_importcfg; cfgold] ++ mid ++ [s_buildid ++ EQ :: X] ++ post) xdups newcfg
  = pre ++ [s_importcfg; newcfg] ++ mid ++ [s_buildid ++ [EQ]] ++ post ++ xdups ++ [s_X_buildversion; s_w; s_s].
Proof.
  intros Hi Hb. unfold transform_link_flags.
  replace ((pre ++ [s_importcfg; cfgold] ++ mid ++ [s_buildid ++ EQ :: X] ++ post) ++ xdups ++ [s_X_buildversion])
    with ((pre ++ [s_importcfg; cfgold] ++ mid) ++ (s_buildid ++ EQ :: X) :: (post ++ xdups ++ [s_X_buildversion]))
    by (rewrite <- !app_assoc; reflexivity).
  rewrite (flag_set_value_once _ X _ s_buildid [] Hb).
  replace (((pre ++ [s_importcfg; cfgold] ++ mid) ++ (s_buildid ++ EQ :: []) :: post ++ xdups ++ [s_X_buildversion]) ++ [s_w; s_s])
    with (pre ++ s_importcfg :: cfgold :: (mid ++ [s_buildid ++ [EQ]] ++ post ++ xdups ++ [s_X_buildversion; s_w; s_s]))
    by (rewrite <- !app_assoc; cbn [app]; rewrite <- !app_assoc; reflexivity).
  rewrite (flag_set_value_bare pre cfgold _ s_importcfg newcfg Hi) by reflexivity.
  reflexivity.
Qed.

(* -trimpath: garble's temporary directory is put first, in front of whatever cmd/go passed *)
Theorem alter_trimpath_shape pre old post tempdir :
  nomention s_trimpath pre = true -> nomention s_trimpath post = true ->
  alter_trimpath (pre ++ (s_trimpath ++ EQ :: old) :: post) tempdir
  = pre ++ (s_trimpath ++ EQ :: tempdir ++ s_arrow_semi ++ old) :: post.
Proof.
  intros Hpre Hpost. unfold alter_trimpath.
  assert (Hv : flag_value (pre ++ (s_trimpath ++ EQ :: old) :: post) s_trimpath = old).
  { unfold flag_value. rewrite (flag_values_app pre _ s_trimpath Hpre). cbn [flag_values].
    rewrite strip_prefix_self, beq_longer, (flag_values_none post s_trimpath Hpost). reflexivity. }
  rewrite Hv. apply flag_set_value_once. exact Hpre.
Qed.

(* the form cmd/go actually uses for the compiler: "-trimpath" "value" *)
Lemma strip_prefix_name_eq_self name : has_eq name = false -> strip_prefix (name ++ [EQ]) name = None.
Proof.
  intros Hne. induction name as [|c n IH]; [reflexivity|]. cbn [app strip_prefix]. rewrite N.eqb_refl.
  apply IH. unfold has_eq in *. cbn [existsb] in Hne. apply orb_false_iff in Hne as [_ H]. exact H.
Qed.

Theorem alter_trimpath_shape_bare pre old post tempdir :
  nomention s_trimpath pre = true -> nomention s_trimpath (old :: post) = true ->
  alter_trimpath (pre ++ s_trimpath :: old :: post) tempdir
  = pre ++ s_trimpath :: (tempdir ++ s_arrow_semi ++ old) :: post.
Proof.
  intros Hpre Hpost. unfold alter_trimpath.
  assert (Hv : flag_value (pre ++ s_trimpath :: old :: post) s_trimpath = old).
  { unfold flag_value. rewrite (flag_values_app pre _ s_trimpath Hpre).
    assert (H : forall l, flag_values (s_trimpath :: l) s_trimpath
                = (match l with v :: _ => [v] | [] => [] end) ++ flag_values l s_trimpath).
    { intros l. cbn [flag_values]. rewrite (strip_prefix_name_eq_self s_trimpath eq_refl), beq_refl. reflexivity. }
    rewrite H. rewrite (flag_values_none (old :: post) s_trimpath Hpost). reflexivity. }
  rewrite Hv. apply flag_set_value_bare; [exact Hpre | reflexivity].
Qed.

(* ---------- -X duplication ---------- *)
Lemma cut_eq_app a v : existsb (N.eqb EQ) a = false -> cut_eq (a ++ EQ :: v) = Some (a, v).
Proof.
  induction a as [|c r IH]; cbn [existsb cut_eq app]; intros H; [rewrite N.eqb_refl; reflexivity|].
  apply orb_false_iff in H as [H1 H2]. apply N.eqb_neq in H1. destruct (N.eqb_spec c EQ) as [E|_]; [congruence|]. rewrite (IH H2). reflexivity.
Qed.
Lemma cut_last_dot_app path name : existsb (N.eqb 46) name = false -> cut_last_dot (path ++ 46 :: name) = Some (path, name).
Proof.
  intros Hn. assert (Hnone : cut_last_dot name = None).
  { clear path. induction name as [|c r IH]; [reflexivity|]. cbn [existsb] in Hn. apply orb_false_iff in Hn as [H1 H2].
    cbn [cut_last_dot]. rewrite (IH H2). apply N.eqb_neq in H1. destruct (N.eqb_spec c 46) as [E|_]; [congruence | reflexivity]. }
  induction path as [|c r IH]; cbn [app cut_last_dot]; [rewrite Hnone, N.eqb_refl; reflexivity | rewrite IH; reflexivity].
Qed.

(* -X=path.name=value for a package of the build: the duplicate names the variable by the package's
   obfuscated import path and by the hash the Go side gives a package-level variable; the path is cut
   at the LAST dot, so import paths with dots work *)
Theorem x_dup_of_known_package lookup cur hname path name v ipath key :
  existsb (N.eqb EQ) (path ++ 46 :: name) = false -> existsb (N.eqb 46) name = false ->
  beq path s_mainpkg = false -> lookup path = Some (ipath, key) ->
  x_dup lookup cur hname (path ++ 46 :: name ++ EQ :: v) = [s_Xeq ++ ipath ++ [46] ++ hname key name ++ [EQ] ++ v].
Proof.
  intros He Hd Hm Hl. unfold x_dup.
  replace (path ++ 46 :: name ++ EQ :: v) with ((path ++ 46 :: name) ++ EQ :: v) by (rewrite <- app_assoc; reflexivity).
  rewrite (cut_eq_app _ v He), (cut_last_dot_app path name Hd), Hm, Hl. reflexivity.
Qed.
(* a package that is not part of the build gets no duplicate (cmd/link ignores such flags too) *)
Theorem x_dup_of_unknown_package lookup cur hname path name v :
  existsb (N.eqb EQ) (path ++ 46 :: name) = false -> existsb (N.eqb 46) name = false ->
  beq path s_mainpkg = false -> lookup path = None ->
  x_dup lookup cur hname (path ++ 46 :: name ++ EQ :: v) = [].
Proof.
  intros He Hd Hm Hl. unfold x_dup.
  replace (path ++ 46 :: name ++ EQ :: v) with ((path ++ 46 :: name) ++ EQ :: v) by (rewrite <- app_assoc; reflexivity).
  rewrite (cut_eq_app _ v He), (cut_last_dot_app path name Hd), Hm, Hl. reflexivity.
Qed.

(* -X=path.name=value names a variable of the package being compiled iff the text before the LAST
   dot is its import path (or "main" for a main package) and the text after it is one of its variables *)
Theorem linker_var_of_own_package pkg_path pkg_name vars name v :
  existsb (N.eqb EQ) (pkg_path ++ 46 :: name) = false -> existsb (N.eqb 46) name = false -> mem name vars = true ->
  linker_var pkg_path pkg_name vars (pkg_path ++ 46 :: name ++ EQ :: v) = Some (name, v).
Proof.
  intros He Hd Hm. unfold linker_var.
  replace (pkg_path ++ 46 :: name ++ EQ :: v) with ((pkg_path ++ 46 :: name) ++ EQ :: v) by (rewrite <- app_assoc; reflexivity).
  rewrite (cut_eq_app _ v He), (cut_last_dot_app pkg_path name Hd), beq_refl, Hm. reflexivity.
Qed.
Theorem linker_var_of_other_package pkg_path pkg_name vars path name v :
  existsb (N.eqb EQ) (path ++ 46 :: name) = false -> existsb (N.eqb 46) name = false ->
  beq path pkg_path = false -> beq path s_mainpkg = false ->
  linker_var pkg_path pkg_name vars (path ++ 46 :: name ++ EQ :: v) = None.
Proof.
  intros He Hd Hp Hm. unfold linker_var.
  replace (path ++ 46 :: name ++ EQ :: v) with ((path ++ 46 :: name) ++ EQ :: v) by (rewrite <- app_assoc; reflexivity).
  rewrite (cut_eq_app _ v He), (cut_last_dot_app path name Hd), Hp, Hm. reflexivity.
Qed.
