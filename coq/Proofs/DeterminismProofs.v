From Coq Require Import ZArith ZifyN ZifyBool Permutation Sorted.
From Verif Require Import Base.Bytes Model.Determinism.
Open Scope N_scope.

Lemma ins_comm a b l : ins a (ins b l) = ins b (ins a l).
Proof.
  induction l as [|y r IH]; cbn [ins].
  - destruct (N.leb_spec a b), (N.leb_spec b a); try reflexivity; try lia. assert (a = b) by lia. subst. reflexivity.
  - destruct (N.leb_spec b y), (N.leb_spec a y); cbn [ins];
      repeat match goal with |- context [?x <=? ?z] => destruct (N.leb_spec x z) end;
      try lia; try reflexivity; try (f_equal; exact IH); try (assert (a = b) by lia; subst; reflexivity).
Qed.

(* the emission does not depend on the order in which the map was iterated *)
Theorem isort_perm l l' : Permutation l l' -> isort l = isort l'.
Proof.
  intros H. induction H as [|x l l' _ IH|x y l|l1 l2 l3 _ IH1 _ IH2]; cbn.
  - reflexivity.
  - rewrite IH. reflexivity.
  - apply ins_comm.
  - congruence.
Qed.

Theorem emit_sorted_perm m m' : Permutation m m' -> emit_sorted m = emit_sorted m'.
Proof. intros H. unfold emit_sorted. apply isort_perm. apply Permutation_map, H. Qed.
