(* Lemmas about Model/Scope.v (C14). *)
From Coq Require Import ZArith ZifyN ZifyNat ZifyBool.
From Verif Require Import Base.Bytes Model.Flags Model.Names Model.Scope.
Open Scope N_scope.

(* ---------- glob against its relational specification ---------- *)
Inductive Glob : str -> str -> Prop :=
| G_nil : Glob [] []
| G_star_skip p s : Glob p s -> Glob (STAR :: p) s
| G_star_eat p x s : x <> SLASH -> Glob (STAR :: p) s -> Glob (STAR :: p) (x :: s)
| G_q p x s : x <> SLASH -> Glob p s -> Glob (QUESTION :: p) (x :: s)
| G_lit c p s : c <> STAR -> c <> QUESTION -> Glob p s -> Glob (c :: p) (c :: s).

Lemma glob_star_unfold p' s :
  glob (STAR :: p') s = glob p' s || match s with x :: s' => negb (x =? SLASH) && glob (STAR :: p') s' | [] => false end.
Proof. destruct s; reflexivity. Qed.

Theorem glob_spec p : forall s, glob p s = true <-> Glob p s.
Proof.
  induction p as [|c p' IH]; intros s.
  - cbn. destruct s; split; intros H; try discriminate; try constructor; inversion H.
  - destruct (c =? STAR) eqn:Es.
    + apply N.eqb_eq in Es. subst c.
      induction s as [|x s' IHs].
      * rewrite glob_star_unfold, orb_false_r, IH. split; intros H.
        -- constructor; exact H.
        -- inversion H; subst; assumption.
      * rewrite glob_star_unfold, orb_true_iff, andb_true_iff, negb_true_iff, IH, IHs. split.
        -- intros [H|[Hx H]]; [apply G_star_skip, H | apply G_star_eat; [apply N.eqb_neq, Hx | exact H]].
        -- intros H. inversion H; subst.
           ++ left; assumption.
           ++ right. split; [apply N.eqb_neq; assumption | assumption].
           ++ exfalso. match goal with Hc : STAR <> STAR |- _ => apply Hc; reflexivity end.
    + destruct (c =? QUESTION) eqn:Eq.
      * cbn [glob]. rewrite Es, Eq. apply N.eqb_eq in Eq. subst c.
        destruct s as [|x s']; [split; [discriminate | intros H; inversion H]|].
        rewrite andb_true_iff, negb_true_iff, IH. split.
        -- intros [Hx H]. apply G_q; [apply N.eqb_neq, Hx | exact H].
        -- intros H. inversion H; subst.
           ++ split; [apply N.eqb_neq; assumption | assumption].
           ++ exfalso. match goal with Hc : QUESTION <> QUESTION |- _ => apply Hc; reflexivity end.
      * cbn [glob]. rewrite Es, Eq.
        apply N.eqb_neq in Es. apply N.eqb_neq in Eq.
        destruct s as [|x s']; [split; [discriminate | intros H; inversion H; subst; congruence]|].
        rewrite andb_true_iff, N.eqb_eq, IH. split.
        -- intros [-> H]. apply G_lit; assumption.
        -- intros H. inversion H; subst; try (exfalso; congruence). split; [reflexivity | assumption].
Qed.

(* ---------- the decision ---------- *)
Theorem runtime_never rad g p :
  mem (decision_path p) rad = true -> to_obfuscate rad g p = false.
Proof. intros H. unfold to_obfuscate, never_obfuscated. rewrite H. reflexivity. Qed.

Theorem selects_exactly rad g p :
  never_obfuscated rad (decision_path p) = false -> p_nfiles p <> O ->
  always_obfuscated p (decision_path p) = false ->
  to_obfuscate rad g p = match_prefix_patterns g (decision_path p).
Proof.
  intros Hn Hf Ha. unfold to_obfuscate. rewrite Hn, Ha.
  destruct (Nat.eqb_spec (p_nfiles p) 0); [contradiction | reflexivity].
Qed.

Theorem plain_untouched rad keep c p e :
  to_obfuscate rad (c_gogarble c) p = false ->
  obf_pkg_name rad c p e = p_name p /\
  (obf_import_path rad keep c p = p_import_path p \/ obf_import_path rad keep c p = s_main).
Proof.
  intros H. unfold obf_pkg_name, obf_import_path. rewrite H. cbn [negb]. split.
  - rewrite orb_true_r. reflexivity.
  - destruct (beq (p_name p) s_main && _); [right | left]; reflexivity.
Qed.

Theorem nothing_matches_error_iff rad g pkgs :
  matches_nothing_error rad g pkgs = true <->
  (forall p, In p pkgs -> to_obfuscate rad g p = false) /\ match_prefix_patterns g s_runtime = false.
Proof.
  unfold matches_nothing_error. rewrite andb_true_iff, !negb_true_iff. split; intros [H1 H2]; split; auto.
  - intros p Hp. apply not_true_is_false. intros Ht.
    assert (existsb (to_obfuscate rad g) pkgs = true) by (apply existsb_exists; exists p; auto). congruence.
  - apply not_true_is_false. intros Ht. apply existsb_exists in Ht as (p & Hp & Hp2). rewrite (H1 p Hp) in Hp2. discriminate.
Qed.

(* ---------- the default GOGARBLE=* selects every path ---------- *)
Lemma cut_elems0_noslash t : exists pre, cut_elems 0 t = Some pre /\ forallb (fun c => negb (c =? SLASH)) pre = true.
Proof.
  induction t as [|c t IH]; [exists []; split; reflexivity|].
  cbn [cut_elems]. destruct (c =? SLASH) eqn:E; [exists []; split; reflexivity|].
  destruct IH as (pre & -> & Hp). exists (c :: pre). split; [reflexivity|]. cbn. rewrite E, Hp. reflexivity.
Qed.

Lemma glob_star_noslash s : forallb (fun c => negb (c =? SLASH)) s = true -> glob [STAR] s = true.
Proof.
  induction s as [|x s IH]; intros H; [reflexivity|].
  rewrite glob_star_unfold. cbn [forallb] in H. apply andb_true_iff in H as [H1 H2].
  rewrite H1, (IH H2). cbn [andb]. apply orb_true_r.
Qed.

Theorem default_matches_all t : match_prefix_patterns [STAR] t = true.
Proof.
  unfold match_prefix_patterns. change (split_comma [STAR] []) with [[STAR]].
  cbn [existsb]. rewrite orb_false_r. unfold match_one. change (count_slash [STAR]) with 0%nat.
  destruct (cut_elems0_noslash t) as (pre & -> & Hp). apply (glob_star_noslash pre Hp).
Qed.

(* ---------- a plain path pattern selects the package and everything below it ---------- *)
Definition literal_pattern (g : str) : bool :=
  forallb (fun c => negb (c =? STAR) && negb (c =? QUESTION) && negb (c =? COMMA)) g.

Lemma glob_literal g : literal_pattern g = true -> forall s, glob g s = beq g s.
Proof.
  induction g as [|c g IH]; intros H s; [destruct s; reflexivity|].
  cbn [literal_pattern forallb] in H. rewrite !andb_true_iff, !negb_true_iff in H. destruct H as [[[H1 H2] H3] H4].
  cbn [glob]. rewrite H1, H2. destruct s as [|x s]; [reflexivity|]. cbn [beq].
  rewrite (IH H4). rewrite N.eqb_sym. reflexivity.
Qed.

Lemma split_comma_nocomma s cur :
  forallb (fun c => negb (c =? COMMA)) s = true -> split_comma s cur = [rev cur ++ s].
Proof.
  revert cur; induction s as [|c s IH]; intros cur H; cbn [split_comma]; [rewrite app_nil_r; reflexivity|].
  cbn [forallb] in H. apply andb_true_iff in H as [H1 H2]. apply negb_true_iff in H1. rewrite H1.
  rewrite (IH (c :: cur) H2). cbn [rev]. rewrite <- app_assoc. reflexivity.
Qed.

(* cut_elems n t = Some pre: pre has n slashes... and t = pre or t = pre ++ "/" ++ rest *)
Lemma cut_elems_spec n : forall t pre, cut_elems n t = Some pre ->
  count_slash pre = n /\ (t = pre \/ exists rest, t = pre ++ SLASH :: rest).
Proof.
  induction n as [|n IHn]; intros t; induction t as [|c t IHt]; intros pre H; cbn [cut_elems] in H.
  - injection H as <-. split; [reflexivity | left; reflexivity].
  - destruct (c =? SLASH) eqn:E.
    + injection H as <-. apply N.eqb_eq in E. subst c. split; [reflexivity | right; exists t; reflexivity].
    + destruct (cut_elems 0 t) as [r|] eqn:Hr; [|discriminate]. injection H as <-.
      destruct (IHt r eq_refl) as [Hc Ht]. split.
      * unfold count_slash in *. cbn [filter]. rewrite N.eqb_sym, E. exact Hc.
      * destruct Ht as [->|[rest ->]]; [left; reflexivity | right; exists rest; reflexivity].
  - discriminate.
  - destruct (c =? SLASH) eqn:E.
    + destruct (cut_elems n t) as [r|] eqn:Hr; [|discriminate]. injection H as <-.
      destruct (IHn t r Hr) as [Hc Ht]. apply N.eqb_eq in E. subst c. split.
      * unfold count_slash in *. cbn [filter]. rewrite N.eqb_refl. cbn [length]. rewrite Hc. reflexivity.
      * destruct Ht as [->|[rest ->]]; [left; reflexivity | right; exists rest; reflexivity].
    + destruct (cut_elems (S n) t) as [r|] eqn:Hr; [|discriminate]. injection H as <-.
      destruct (IHt r eq_refl) as [Hc Ht]. split.
      * unfold count_slash in *. cbn [filter]. rewrite N.eqb_sym, E. exact Hc.
      * destruct Ht as [->|[rest ->]]; [left; reflexivity | right; exists rest; reflexivity].
Qed.

Lemma cut_elems_complete n : forall pre rest, count_slash pre = n ->
  cut_elems n pre = Some pre /\ cut_elems n (pre ++ SLASH :: rest) = Some pre.
Proof.
  induction n as [|n IHn]; intros pre; induction pre as [|c pre IHp]; intros rest Hc.
  - split; [reflexivity|]. cbn. reflexivity.
  - unfold count_slash in Hc. cbn [filter] in Hc. destruct (SLASH =? c) eqn:E; [discriminate|].
    cbn [cut_elems app]. rewrite N.eqb_sym, E. destruct (IHp rest Hc) as [-> ->]. split; reflexivity.
  - discriminate.
  - unfold count_slash in Hc. cbn [filter] in Hc. cbn [cut_elems app]. destruct (SLASH =? c) eqn:E.
    + rewrite N.eqb_sym, E. cbn [length] in Hc. injection Hc as Hc.
      destruct (IHn pre rest Hc) as [-> ->]. split; reflexivity.
    + rewrite N.eqb_sym, E. destruct (IHp rest Hc) as [-> ->]. split; reflexivity.
Qed.

Theorem literal_pattern_selects_subtree g t :
  literal_pattern g = true -> g <> [] ->
  (match_prefix_patterns g t = true <-> t = g \/ exists rest, t = g ++ SLASH :: rest).
Proof.
  intros Hl Hne. unfold match_prefix_patterns.
  assert (Hnc : forallb (fun c => negb (c =? COMMA)) g = true).
  { unfold literal_pattern in Hl. rewrite forallb_forall in *. intros x Hx. specialize (Hl x Hx).
    rewrite !andb_true_iff in Hl. tauto. }
  rewrite (split_comma_nocomma g [] Hnc). cbn [rev app existsb]. rewrite orb_false_r.
  unfold match_one. destruct g as [|c0 g0] eqn:Eg; [congruence|]. rewrite <- Eg in *.
  split.
  - destruct (cut_elems (count_slash g) t) as [pre|] eqn:Hc; [|discriminate].
    rewrite (glob_literal g Hl). intros Hb. apply beq_eq in Hb. subst pre.
    destruct (cut_elems_spec _ _ _ Hc) as [_ Ht]. exact Ht.
  - intros Ht. destruct (cut_elems_complete (count_slash g) g [] eq_refl) as [H1 _].
    destruct Ht as [->|[rest ->]].
    + rewrite H1. rewrite (glob_literal g Hl). apply beq_refl.
    + destruct (cut_elems_complete (count_slash g) g rest eq_refl) as [_ H2]. rewrite H2.
      rewrite (glob_literal g Hl). apply beq_refl.
Qed.
