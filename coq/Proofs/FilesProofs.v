From Verif Require Import Base.Bytes Model.Files.
Open Scope N_scope.

Theorem refuse_iff_foreign s : debugdir_decide s = ARefuse <-> (s = DForeign \/ s = DNotADirectory).
Proof. destruct s; cbn; split; intros H; try discriminate; auto; destruct H; discriminate. Qed.

Theorem removes_only_owned s : removed_by s = true <-> s = DOwned.
Proof. destruct s; cbn; split; intros H; try discriminate; auto. Qed.

(* with the inherited variable forgotten (the fixed code) the clean-up removes at most the
   directory this run created, whatever the outcome and whatever was inherited *)
Theorem cleanup_removes_only_own r : forget_inherited r = true ->
  forall d, In d (cleanup_removes r) -> created r = Some d.
Proof.
  intros Hf d. unfold cleanup_removes, env_at_cleanup. rewrite Hf.
  destruct (created r) as [c|]; cbn; [intros [->|[]]; reflexivity | intros []].
Qed.

(* ... and a run that created its directory always removes it *)
Theorem cleanup_removes_created r d : created r = Some d -> In d (cleanup_removes r).
Proof. intros H. unfold cleanup_removes, env_at_cleanup. rewrite H. left. reflexivity. Qed.

(* without forgetting it, an early failure removes the inherited directory (the defect that was fixed) *)
Theorem inherited_shared_refuted :
  exists r d, forget_inherited r = false /\ created r = None /\ inherited r = Some d /\ In d (cleanup_removes r).
Proof. exists {| inherited := Some 7; created := None; forget_inherited := false |}, 7. cbn. auto. Qed.
