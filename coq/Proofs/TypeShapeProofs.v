(* Lemmas about Model/TypeShape.v (C15). *)
From Verif Require Import Base.Bytes Model.Names Model.TypeShape.
Open Scope N_scope.

Section P.
  Variable ty : Type.
  Variable ty_identical : ty -> ty -> Prop.

  Lemma struct_hash_from_identical (a b : list (field ty)) :
    struct_identical ty_identical a b -> forall i acc, struct_hash_from i acc a = struct_hash_from i acc b.
  Proof.
    intros H. induction H as [|f g a b Hfg _ IH]; intros i acc; [reflexivity|].
    destruct Hfg as (Hn & He & _ & _). cbn [struct_hash_from]. rewrite Hn, He. apply IH.
  Qed.

  Theorem identical_same_hash (a b : list (field ty)) :
    struct_identical ty_identical a b -> struct_hash a = struct_hash b.
  Proof. intros H. apply struct_hash_from_identical, H. Qed.

  Theorem identical_same_field_names (a b : list (field ty)) c k e :
    struct_identical ty_identical a b -> field_obf_name c a k e = field_obf_name c b k e.
  Proof.
    intros H. unfold field_obf_name. rewrite (identical_same_hash a b H).
    assert (Hn : forall k, match nth_error a k, nth_error b k with
                           | Some f, Some g => f_name f = f_name g
                           | None, None => True
                           | _, _ => False end).
    { clear k. induction H as [|f g a b Hfg _ IH]; intros [|k]; cbn; auto.
      - destruct Hfg as (Hn & _). exact Hn.
      - apply IH. }
    specialize (Hn k). destruct (nth_error a k), (nth_error b k); try contradiction; [rewrite Hn|]; reflexivity.
  Qed.

  (* tags never matter *)
  Definition retag (t : str) (f : field ty) : field ty :=
    {| f_name := f_name f; f_embedded := f_embedded f; f_tag := t; f_pkg := f_pkg f; f_type := f_type f |}.
  Theorem hash_ignores_tags (a : list (field ty)) (tags : field ty -> str) :
    struct_hash (map (fun f => retag (tags f) f) a) = struct_hash a.
  Proof.
    unfold struct_hash. generalize 0 9059. induction a as [|f a IH]; intros i acc; [reflexivity|].
    cbn [map struct_hash_from retag f_embedded f_name]. apply IH.
  Qed.

  (* instantiating a generic struct (substituting its field types) keeps the hash, hence the names *)
  Theorem hash_stable_under_instantiation (subst : ty -> ty) (a : list (field ty)) :
    struct_hash (map (subst_field subst) a) = struct_hash a.
  Proof.
    unfold struct_hash. generalize 0 9059. induction a as [|f a IH]; intros i acc; [reflexivity|].
    cbn [map struct_hash_from subst_field f_embedded f_name]. apply IH.
  Qed.

  (* the package a struct is declared in never matters *)
  Definition repkg (p : str) (f : field ty) : field ty :=
    {| f_name := f_name f; f_embedded := f_embedded f; f_tag := f_tag f; f_pkg := p; f_type := f_type f |}.
  Theorem hash_ignores_package (a : list (field ty)) p :
    struct_hash (map (repkg p) a) = struct_hash a.
  Proof.
    unfold struct_hash. generalize 0 9059. induction a as [|f a IH]; intros i acc; [reflexivity|].
    cbn [map struct_hash_from repkg f_embedded f_name]. apply IH.
  Qed.
End P.

(* the hash is a 32-bit value *)
Lemma struct_hash_from_lt ty (a : list (field ty)) : forall i acc, acc < u32 -> struct_hash_from i acc a < u32.
Proof.
  induction a as [|f a IH]; intros i acc H; [exact H|]. cbn [struct_hash_from]. apply IH.
  apply N.mod_lt. unfold u32. discriminate.
Qed.
Theorem struct_hash_lt ty (a : list (field ty)) : struct_hash a < u32.
Proof. apply struct_hash_from_lt. unfold u32. reflexivity. Qed.
