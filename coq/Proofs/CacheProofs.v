From Verif Require Import Base.Bytes Model.Flags Model.Names Model.Cache Proofs.NamesProofs.
Open Scope N_scope.

Section M.
  Variable Cfg Key Out : Type.
  Variable key : Cfg -> Key.
  Variable F : Cfg -> Out.
  Variable key_eqb : Key -> Key -> bool.
  Hypothesis key_eqb_spec : forall a b, key_eqb a b = true <-> a = b.
  (* the key covers everything the build reads: equal keys, equal cold outputs *)
  Hypothesis key_sound : forall x y, key x = key y -> F x = F y.

  Definition inv (c : cache Key Out) : Prop := forall k o, In (k, o) c -> exists x, key x = k /\ o = F x.

  Lemma lookup_in k c o : lookup Key Out key_eqb k c = Some o -> exists k', In (k', o) c /\ k' = k.
  Proof.
    induction c as [|[k' o'] r IH]; cbn; [discriminate|]. destruct (key_eqb k k') eqn:E.
    - intros H. injection H as ->. apply key_eqb_spec in E. exists k'. split; [left; reflexivity | congruence].
    - intros H. destruct (IH H) as (k2 & Hin & Hk). exists k2. split; [right; exact Hin | exact Hk].
  Qed.

  Lemma build_sound x c : inv c ->
    fst (fst (build Cfg Key Out key F key_eqb x c)) = F x /\ inv (snd (fst (build Cfg Key Out key F key_eqb x c))).
  Proof.
    intros Hc. unfold build. destruct (lookup Key Out key_eqb (key x) c) as [o|] eqn:E; cbn.
    - split; [|exact Hc]. destruct (lookup_in _ _ _ E) as (k' & Hin & Hk). destruct (Hc k' o Hin) as (y & Hy & ->).
      apply key_sound. congruence.
    - split; [reflexivity|]. intros k o [H|H]; [injection H as <- <-; exists x; auto | apply Hc, H].
  Qed.

  (* over every history of builds on a shared cache, each output is the cold build's output *)
  Theorem memo_sound h : forall c, inv c -> fst (run_history Cfg Key Out key F key_eqb h c) = map F h.
  Proof.
    induction h as [|x r IH]; intros c Hc; [reflexivity|]. cbn [run_history map].
    destruct (build_sound x c Hc) as [Ho Hi].
    destruct (build Cfg Key Out key F key_eqb x c) as [[o c1] b]. cbn [fst snd] in *.
    specialize (IH c1 Hi). destruct (run_history Cfg Key Out key F key_eqb r c1) as [os c2]. cbn [fst] in *. congruence.
  Qed.

  (* rebuilding with nothing changed recompiles nothing *)
  Theorem noop_rebuild x c :
    let '(_, c1, _) := build Cfg Key Out key F key_eqb x c in
    snd (build Cfg Key Out key F key_eqb x c1) = false.
  Proof.
    unfold build. destruct (lookup Key Out key_eqb (key x) c) as [o|] eqn:E.
    - rewrite E. reflexivity.
    - cbn [lookup]. assert (H : key_eqb (key x) (key x) = true) by (apply key_eqb_spec; reflexivity). rewrite H. reflexivity.
  Qed.
End M.

(* the known defect: under -literals the compile output depends on -ldflags=-X but its key does not *)
Theorem compile_key_unsound_refuted :
  exists c1 c2, compile_key c1 = compile_key c2 /\ compile_out c1 <> compile_out c2.
Proof.
  exists {| cc_literals := true; cc_ldflags_x := [1]; cc_rest := [] |}, {| cc_literals := true; cc_ldflags_x := [2]; cc_rest := [] |}.
  split; [reflexivity | cbn; discriminate].
Qed.
(* without -literals the compile key is sound *)
Theorem compile_key_sound_without_literals c1 c2 :
  cc_literals c1 = false -> compile_key c1 = compile_key c2 -> compile_out c1 = compile_out c2.
Proof.
  unfold compile_key, compile_out. intros H1 H. injection H as H2 H3. rewrite <- H2, H1, H3. reflexivity.
Qed.
