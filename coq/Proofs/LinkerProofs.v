(* Lemmas about Model/Linker.v (C17, C18). *)
From Coq Require Import Arith Lia.
From Verif Require Import Base.Bytes Model.Linker.

Lemma upd_same f p v : upd f p v p = v.
Proof. unfold upd. rewrite Nat.eqb_refl. reflexivity. Qed.
Lemma upd_other f p q v : q <> p -> upd f p v q = f q.
Proof. intros H. unfold upd. destruct (Nat.eqb_spec q p); [contradiction | reflexivity]. Qed.

Lemma init_inv s : init_ok s -> inv s.
Proof.
  intros (Hh & Hp & Hd). split.
  - intros p Hc. rewrite Hp in Hc. discriminate.
  - rewrite Hh. exact Hd.
Qed.

(* the holder's program counter, when the first half of the invariant holds *)
Lemma crit_holder s p : inv s -> in_critical (pcs s p) = true -> holder s = Some p.
Proof. intros [H _]. apply H. Qed.

Theorem step_inv s s' : inv s -> step s s' -> inv s'.
Proof.
  intros Hinv Hst. pose proof Hinv as [Hcrit Hdisk].
  inversion Hst as [s0 p Hpc Hh | s0 p Hpc Hs Hl | s0 p Hpc Hor | s0 p Hpc | s0 p Hpc | s0 p Hpc | s0 p Hn1 Hn2]; subst; unfold inv; cbn [d holder pcs].
  - (* lock *)
    split.
    + intros q Hq; cbn [d holder pcs] in Hq |- *. destruct (Nat.eq_dec q p) as [->|Hne]; [reflexivity|].
      rewrite upd_other in Hq by exact Hne. rewrite (Hcrit q Hq) in Hh. discriminate.
    + rewrite upd_same. rewrite Hh in Hdisk. exact Hdisk.
  - (* check -> use *)
    assert (Hhp : holder s = Some p) by (apply Hcrit; rewrite Hpc; reflexivity).
    split.
    + intros q Hq; cbn [d holder pcs] in Hq |- *. destruct (Nat.eq_dec q p) as [->|Hne]; [exact Hhp|]. rewrite upd_other in Hq by exact Hne. apply Hcrit, Hq.
    + rewrite Hhp in *. rewrite upd_same. rewrite Hpc in Hdisk. split; [exact Hs | apply Hdisk, Hs].
  - (* check -> build *)
    assert (Hhp : holder s = Some p) by (apply Hcrit; rewrite Hpc; reflexivity).
    split.
    + intros q Hq; cbn [d holder pcs] in Hq |- *. destruct (Nat.eq_dec q p) as [->|Hne]; [exact Hhp|]. rewrite upd_other in Hq by exact Hne. apply Hcrit, Hq.
    + rewrite Hhp in *. rewrite upd_same. rewrite Hpc in Hdisk. cbn.
      destruct Hor as [Hf|Ha]; [exact Hf|]. destruct (stamp (d s)) eqn:E; [|reflexivity].
      rewrite (Hdisk E) in Ha. discriminate.
  - (* build done *)
    assert (Hhp : holder s = Some p) by (apply Hcrit; rewrite Hpc; reflexivity).
    split.
    + intros q Hq; cbn [d holder pcs] in Hq |- *. destruct (Nat.eq_dec q p) as [->|Hne]; [exact Hhp|]. rewrite upd_other in Hq by exact Hne. apply Hcrit, Hq.
    + rewrite Hhp in *. rewrite upd_same. rewrite Hpc in Hdisk. cbn. split; [exact Hdisk | reflexivity].
  - (* stamp *)
    assert (Hhp : holder s = Some p) by (apply Hcrit; rewrite Hpc; reflexivity).
    split.
    + intros q Hq; cbn [d holder pcs] in Hq |- *. destruct (Nat.eq_dec q p) as [->|Hne]; [exact Hhp|]. rewrite upd_other in Hq by exact Hne. apply Hcrit, Hq.
    + rewrite Hhp in *. rewrite upd_same. rewrite Hpc in Hdisk. cbn. split; [reflexivity | apply Hdisk].
  - (* unlock *)
    assert (Hhp : holder s = Some p) by (apply Hcrit; rewrite Hpc; reflexivity).
    split.
    + intros q Hq; cbn [d holder pcs] in Hq |- *. destruct (Nat.eq_dec q p) as [->|Hne]; [rewrite upd_same in Hq; discriminate|].
      rewrite upd_other in Hq by exact Hne. pose proof (Hcrit q Hq) as Hq'. rewrite Hhp in Hq'. injection Hq' as ->. contradiction.
    + rewrite Hhp, Hpc in Hdisk. intros _. apply Hdisk.
  - (* crash *)
    split.
    + intros q Hq; cbn [d holder pcs] in Hq |- *. destruct (Nat.eq_dec q p) as [->|Hne]; [rewrite upd_same in Hq; discriminate|].
      rewrite upd_other in Hq by exact Hne. pose proof (Hcrit q Hq) as Hq'. rewrite Hq'.
      destruct (Nat.eqb_spec q p); [contradiction | reflexivity].
    + destruct (holder s) as [h|] eqn:Eh; [|exact Hdisk].
      destruct (Nat.eqb_spec h p) as [->|Hne].
      * (* the holder died: whatever it was doing, the disk is acceptable for the next process *)
        destruct (pcs s p) eqn:Ep; try contradiction; unfold disk_ok; cbn.
        -- exact Hdisk.
        -- intros H. rewrite Hdisk in H. discriminate.
        -- destruct Hdisk as [H1 H2]. intros _. exact H2.
        -- destruct Hdisk as [H1 H2]. intros _. exact H2.
      * rewrite upd_other by exact Hne. exact Hdisk.
Qed.

Theorem linker_inv s s' : init_ok s -> steps s s' -> inv s'.
Proof.
  intros Hi Hs. induction Hs as [|s1 s2 s3 _ IH Hst]; [apply init_inv, Hi|]. eapply step_inv; [apply IH, Hi | exact Hst].
Qed.

(* C17: whoever runs the cached linker holds the lock and sees a completely written file *)
Theorem run_sees_complete s s' p : init_ok s -> steps s s' -> pcs s' p = Using ->
  holder s' = Some p /\ link (d s') = LComplete.
Proof.
  intros Hi Hs Hp. pose proof (linker_inv s s' Hi Hs) as [Hc Hd].
  assert (Hh : holder s' = Some p) by (apply Hc; rewrite Hp; reflexivity).
  split; [exact Hh|]. rewrite Hh, Hp in Hd. apply Hd.
Qed.

(* ... and no two processes are ever in the critical section together *)
Theorem mutual_exclusion s s' p q : init_ok s -> steps s s' ->
  in_critical (pcs s' p) = true -> in_critical (pcs s' q) = true -> p = q.
Proof.
  intros Hi Hs Hp Hq. pose proof (linker_inv s s' Hi Hs) as [Hc _].
  pose proof (Hc p Hp) as H1. pose proof (Hc q Hq) as H2. congruence.
Qed.

(* C18: after any execution with any crashes, once the lock is free a fresh process run alone
   reaches the point of use with a completely written linker *)
Theorem crash_then_rerun_ok s s' p : init_ok s -> steps s s' -> holder s' = None -> pcs s' p = Idle ->
  exists s'', steps s' s'' /\ pcs s'' p = Using /\ link (d s'') = LComplete /\ stamp (d s'') = true.
Proof.
  intros Hi Hs Hh Hp. pose proof (linker_inv s s' Hi Hs) as [Hc Hd]. rewrite Hh in Hd.
  set (s1 := {| d := d s'; holder := Some p; pcs := upd (pcs s') p Locked |}).
  assert (S1 : steps s' s1) by (eapply steps_step; [apply steps_refl | apply s_lock; assumption]).
  destruct (stamp (d s')) eqn:Es.
  - (* stamp matches: by the invariant the file is complete, it is used as is *)
    assert (Hl : link (d s') = LComplete) by (apply Hd; exact Es).
    exists {| d := d s1; holder := holder s1; pcs := upd (pcs s1) p Using |}. split; [|split; [apply upd_same | split; [exact Hl | exact Es]]].
    eapply steps_step; [exact S1|]. apply s_check_use; cbn; [apply upd_same | exact Es | rewrite Hl; discriminate].
  - (* rebuild: Building, Built, stamp *)
    set (s2 := {| d := {| link := LPartial; stamp := stamp (d s1) |}; holder := holder s1; pcs := upd (pcs s1) p Building |}).
    set (s3 := {| d := {| link := LComplete; stamp := stamp (d s2) |}; holder := holder s2; pcs := upd (pcs s2) p Built |}).
    set (s4 := {| d := {| link := link (d s3); stamp := true |}; holder := holder s3; pcs := upd (pcs s3) p Using |}).
    exists s4. split; [|split; [apply upd_same | split; reflexivity]].
    eapply steps_step; [eapply steps_step; [eapply steps_step; [exact S1|] |] |].
    + apply s_check_build; cbn; [apply upd_same | left; exact Es].
    + apply s_build_done. cbn. apply upd_same.
    + apply s_stamp. cbn. apply upd_same.
Qed.

(* outside the quantifier, noted: a linker file deleted by hand while its stamp stays, followed by a
   kill during the rebuild, leaves a partial file next to a matching stamp *)
Theorem missing_link_then_crash_refuted :
  exists s s', ~ disk_ok (d s) /\ steps s s' /\ holder s' = None /\ link (d s') = LPartial /\ stamp (d s') = true.
Proof.
  set (s0 := {| d := {| link := LAbsent; stamp := true |}; holder := None; pcs := fun _ => Idle |}).
  exists s0.
  eexists. split; [intros H; specialize (H eq_refl); discriminate|]. split.
  - eapply steps_step; [eapply steps_step; [eapply steps_step; [apply steps_refl|]|]|].
    + apply (s_lock s0 0); reflexivity.
    + apply (s_check_build _ 0); cbn; [reflexivity | right; reflexivity].
    + apply (s_crash _ 0); cbn; discriminate.
  - cbn. auto.
Qed.
