(* Lemmas about Model/Position.v (C04). *)
From Coq Require Import ZArith ZifyN ZifyNat ZifyBool.
From Verif Require Import Base.Bytes Model.Position.
Open Scope N_scope.

Lemma first_match_some pairs s k v : first_match pairs s = Some (k, v) -> In (k, v) pairs /\ k <> [] /\ is_prefix k s = true.
Proof.
  induction pairs as [|[k' v'] r IH]; cbn; [discriminate|].
  destruct (negb (beq k' []) && is_prefix k' s) eqn:E.
  - intros H. injection H as <- <-. apply andb_true_iff in E as [E1 E2]. split; [left; reflexivity|]. split; [|exact E2].
    intros ->. cbn in E1. discriminate.
  - intros H. destruct (IH H) as (H1 & H2 & H3). split; [right; exact H1 | split; assumption].
Qed.

(* text that contains no key passes through byte for byte *)
Lemma naive_replace_fuel_passthrough pairs : forall fuel s, (length s < fuel)%nat ->
  key_occurs pairs s = false -> naive_replace_fuel fuel pairs s = s.
Proof.
  induction fuel as [|f IH]; intros s Hl Hk; [lia|]. destruct s as [|c r]; [reflexivity|].
  cbn [naive_replace_fuel]. cbn [key_occurs] in Hk. destruct (first_match pairs (c :: r)); [discriminate|].
  f_equal. apply IH; [cbn in Hl; lia | exact Hk].
Qed.
Theorem naive_replace_passthrough pairs s : key_occurs pairs s = false -> naive_replace pairs s = s.
Proof. intros H. unfold naive_replace. apply naive_replace_fuel_passthrough; [lia | exact H]. Qed.

(* a key at the front is replaced by the value of the FIRST pair whose key matches there *)
Lemma skipn_length_le {A} (l : list A) n : (length (skipn n l) <= length l)%nat.
Proof. revert l; induction n; intros [|x l]; cbn; try lia. specialize (IHn l). lia. Qed.

Lemma naive_replace_fuel_enough pairs : forall f1 f2 s, (length s < f1)%nat -> (length s < f2)%nat ->
  naive_replace_fuel f1 pairs s = naive_replace_fuel f2 pairs s.
Proof.
  induction f1 as [|f1 IH]; intros f2 s H1 H2; [lia|]. destruct f2 as [|f2]; [lia|].
  destruct s as [|c r]; [reflexivity|]. cbn [naive_replace_fuel].
  destruct (first_match pairs (c :: r)) as [[k v]|] eqn:E.
  - f_equal. apply first_match_some in E as (_ & Hk & _). destruct k as [|k0 k']; [congruence|].
    cbn [length skipn]. pose proof (skipn_length_le r (length k')). cbn in H1, H2. apply IH; lia.
  - f_equal. apply IH; cbn in H1, H2; lia.
Qed.

Lemma nrf_step f pairs c r :
  naive_replace_fuel (S f) pairs (c :: r) =
  match first_match pairs (c :: r) with
  | Some (k, v) => v ++ naive_replace_fuel f pairs (skipn (length k) (c :: r))
  | None => c :: naive_replace_fuel f pairs r
  end.
Proof. reflexivity. Qed.

Theorem naive_replace_front pairs s k v :
  first_match pairs s = Some (k, v) -> naive_replace pairs s = v ++ naive_replace pairs (skipn (length k) s).
Proof.
  intros H. destruct s as [|c r].
  - apply first_match_some in H as (_ & Hk & Hp). destruct k; [congruence | discriminate].
  - pose proof (first_match_some _ _ _ _ H) as (_ & Hk & _).
    unfold naive_replace. rewrite nrf_step, H. f_equal.
    pose proof (skipn_length_le (c :: r) (length k)).
    assert (Hlt : (length (skipn (length k) (c :: r)) < length (c :: r))%nat).
    { destruct k as [|k0 k']; [congruence|]. cbn [length skipn]. pose proof (skipn_length_le r (length k')). lia. }
    apply naive_replace_fuel_enough; lia.
Qed.

(* the two pairs reverse emits per call site: "F.go:1" listed before its prefix "F.go" *)
Theorem position_pair_priority f pos file rest :
  f <> [] ->
  first_match [(f ++ [58; 49], pos); (f, file)] (f ++ [58; 49] ++ rest) = Some (f ++ [58; 49], pos).
Proof.
  intros Hf. cbn [first_match].
  assert (H1 : beq (f ++ [58; 49]) [] = false) by (destruct f; [congruence | reflexivity]).
  assert (H2 : is_prefix (f ++ [58; 49]) (f ++ [58; 49] ++ rest) = true).
  { apply is_prefix_spec. exists rest. rewrite <- app_assoc. reflexivity. }
  rewrite H1, H2. reflexivity.
Qed.

(* reverseContent: nothing to replace => same bytes, not modified (any line endings) *)
Lemma split_lines_concat s : forall cur, concat (split_lines s cur) = rev cur ++ s.
Proof.
  induction s as [|c r IH]; intros cur; cbn [split_lines].
  - destruct cur; [reflexivity|]. cbn [concat]. rewrite !app_nil_r. reflexivity.
  - destruct (c =? 10).
    + cbn [concat]. rewrite IH. cbn [rev app]. rewrite <- app_assoc. reflexivity.
    + rewrite IH. cbn [rev]. rewrite <- app_assoc. reflexivity.
Qed.

Theorem reverse_content_passthrough pairs text :
  forallb (fun l => negb (key_occurs pairs l)) (split_lines text []) = true ->
  reverse_content pairs text = (text, false).
Proof.
  intros H. unfold reverse_content.
  assert (Hm : map (naive_replace pairs) (split_lines text []) = split_lines text []).
  { rewrite forallb_forall in H. rewrite <- (map_id (split_lines text [])) at 2. apply map_ext_in.
    intros l Hl. apply naive_replace_passthrough. specialize (H l Hl). apply negb_true_iff in H. exact H. }
  rewrite Hm. f_equal.
  - rewrite split_lines_concat. reflexivity.
  - assert (Hc : forall ls : list str, forallb (fun p => beq (fst p) (snd p)) (combine ls ls) = true).
    { induction ls as [|x ls IH]; [reflexivity|]. cbn. rewrite beq_refl. exact IH. }
    rewrite Hc. reflexivity.
Qed.

(* ---------- identifier/token alignment ---------- *)
Theorem alignment_with_dot_skipped nodes next :
  length (call_offsets true nodes next) = ident_tokens nodes.
Proof.
  unfold ident_tokens. revert next. induction nodes as [|n r IH]; intros next; [reflexivity|].
  destruct n as [off|[|]]; cbn; auto.
Qed.

(* without skipping the dot of a dot import the sequences differ: every later call gets the
   directive of its predecessor identifier *)
Theorem alignment_refuted_without_skip :
  exists nodes, length (call_offsets false nodes None) <> ident_tokens nodes.
Proof. exists [PIdent true; PCall 5; PIdent false]. cbn. discriminate. Qed.

(* ---------- line arithmetic ---------- *)
Theorem reverse_roundtrip_single_line c :
  paren_line c = head_line c -> reversed_line c = Some (paren_line c).
Proof. intros H. unfold reversed_line, obf_line. rewrite H, N.sub_diag. cbn. reflexivity. Qed.

Theorem reverse_multiline_refuted :
  exists c, head_line c < paren_line c /\ reversed_line c <> Some (paren_line c).
Proof. exists {| head_line := 16; paren_line := 17 |}. split; [reflexivity | cbn; discriminate]. Qed.
