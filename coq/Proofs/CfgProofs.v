From Coq Require Import ZArith ZifyN ZifyBool.
From Verif Require Import Base.Bytes Model.Cfg.
Open Scope N_scope.

(* with pairwise distinct keys the dispatcher sends key k_T to T and nowhere else *)
Theorem dispatch_finds table k t : NoDup (map fst table) -> In (k, t) table -> dispatch table k = Some t.
Proof.
  induction table as [|[k' t'] r IH]; intros Hnd Hin; [contradiction|]. cbn [dispatch].
  inversion Hnd as [|? ? Hnotin Hnd']; subst. destruct Hin as [H|H].
  - injection H as -> ->. rewrite N.eqb_refl. reflexivity.
  - destruct (N.eqb_spec k k') as [->|Hne]; [|apply IH; assumption].
    exfalso. apply Hnotin. apply in_map_iff. exists (k', t). split; [reflexivity | exact H].
Qed.

Theorem dispatch_only_table table k t : dispatch table k = Some t -> In (k, t) table.
Proof.
  induction table as [|[k' t'] r IH]; cbn; [discriminate|]. destruct (N.eqb_spec k k') as [->|Hne].
  - intros H. injection H as ->. left. reflexivity.
  - intros H. right. apply IH, H.
Qed.

(* lowering phis to sequential assignments is correct when no phi reads an earlier phi's target *)
Lemma set_other e v x w : w <> v -> set e v x w = e w.
Proof. intros H. unfold set. destruct (N.eqb_spec w v); [contradiction | reflexivity]. Qed.

Lemma phi_seq_par_gen phis : forall assigned (e0 acc : env),
  independent assigned phis = true ->
  (forall w, ~ In w assigned -> acc w = e0 w) ->
  fold_left (fun a p => set a (fst p) (eval a (snd p))) phis acc =
  fold_left (fun a p => set a (fst p) (eval e0 (snd p))) phis acc.
Proof.
  induction phis as [|[v s] r IH]; intros assigned e0 acc Hind Hacc; [reflexivity|].
  cbn [fold_left fst snd]. cbn [independent] in Hind. apply andb_true_iff in Hind as [Hs Hr].
  assert (He : eval acc s = eval e0 s).
  { destruct s as [w|c]; [|reflexivity]. cbn. apply Hacc. intros Hin.
    apply negb_true_iff in Hs. assert (existsb (N.eqb w) assigned = true) by (apply existsb_exists; exists w; split; [exact Hin | apply N.eqb_refl]). congruence. }
  rewrite He. apply (IH (v :: assigned)); [exact Hr|].
  intros w Hw. rewrite set_other; [apply Hacc; intros H; apply Hw; right; exact H | intros ->; apply Hw; left; reflexivity].
Qed.

Theorem phi_sequential_equals_parallel phis e : independent [] phis = true -> phi_sequential phis e = phi_parallel phis e.
Proof. intros H. unfold phi_sequential, phi_parallel. apply (phi_seq_par_gen phis [] e e H). auto. Qed.

(* a, b = b, a : the sequential lowering loses a value (known finding F6) *)
Theorem phi_swap_refuted : exists phis e, phi_sequential phis e 2 <> phi_parallel phis e 2.
Proof.
  exists [(1, SVar 2); (2, SVar 1)], (fun v => v * 10). cbn. unfold set. cbn. discriminate.
Qed.

(* every operator the generator may pick for a trash guard evaluates to false *)
Theorem trash_guard_never_true a b o : In o (false_ops a b) -> cmp_eval o a b = false.
Proof. unfold false_ops. intros H. apply filter_In in H as [_ H]. apply negb_true_iff, H. Qed.
