(* C09 — With -literals, literal contents do not appear in the binary (the part a theorem can carry). *)
From Verif Require Import Base.Bytes Model.Literals Proofs.LiteralsProofs.
From Verif Require Gen.LitConsts.
Open Scope N_scope.

(* the selection window of literals.go, over the constants in the source now *)
Definition in_window (n : N) : bool := (Gen.LitConsts.MinSize <=? n) && (n <=? Gen.LitConsts.MaxSize).
Theorem C09_window_exact : forall n, in_window n = true <-> 8 <= n <= 2048.
Proof. intros n. unfold in_window. rewrite andb_true_iff, !N.leb_le. reflexivity. Qed.
Theorem C09_window_boundaries :
  in_window 7 = false /\ in_window 8 = true /\ in_window 2048 = true /\ in_window 2049 = false.
Proof. repeat split; reflexivity. Qed.

(* what replaces a selected literal is encoder output; an encoded byte coincides with the
   plaintext byte exactly when the key byte is neutral (0), for every operator *)
Theorem C09_enc_byte_equals_plain_iff_neutral : forall o x k,
  x < 256 -> k < 256 -> (ap o x k = x <-> k = 0).
Proof. exact enc_byte_equals_plain_iff_neutral. Qed.

(* so under `simple` the emitted data literal repeats the plaintext at position i iff key[i] = 0 *)
Theorem C09_simple_position_leaks_iff_zero_key : forall o d key i,
  okb d -> okb key -> length key = length d -> (i < length d)%nat ->
  (at_ (zipw (ap o) d key) i = at_ d i <-> at_ key i = 0).
Proof.
  intros o d. induction d as [|x d IH]; intros [|k key] i Hd Hk Hl Hi; cbn in *; try lia.
  inversion Hd; inversion Hk; subst. destruct i as [|i]; cbn.
  - apply enc_byte_equals_plain_iff_neutral; assumption.
  - apply IH; auto; lia.
Qed.

Print Assumptions C09_window_exact.
Print Assumptions C09_window_boundaries.
Print Assumptions C09_enc_byte_equals_plain_iff_neutral.
Print Assumptions C09_simple_position_leaks_iff_zero_key.
