(* C08 — Types that reach reflection keep their original names at run time. *)
From Coq Require Import Permutation.
From Verif Require Import Base.Bytes Model.Position Model.Reflect Model.TypeClosure Proofs.PositionProofs Proofs.ReflectProofs Proofs.TypeClosureProofs.
Open Scope N_scope.

(* (a) the run-time name table: a lookup that takes the highest-priority matching key, with
   priorities decreasing in argument order, is the replacer specified as "first pair in order
   whose key matches here" -- for any set of pairs (overlapping, prefix-sharing, repeated) *)
Theorem C08_replacer_priority_is_first_match : forall pairs s, prio_replace pairs s = naive_replace pairs s.
Proof. exact prio_replace_is_naive. Qed.

(* ... and such a replacer restores a name that stands at the current position *)
Theorem C08_restores_name_at_position : forall pairs s k v,
  first_match pairs s = Some (k, v) -> naive_replace pairs s = v ++ naive_replace pairs (skipn (length k) s).
Proof. exact naive_replace_front. Qed.

(* (c) the propagation of reflected parameters is NOT independent of the order in which the
   package's functions are visited (known finding F10): the same three functions, two visiting
   orders, one records the struct type T and the other does not *)
Theorem C08_analyse_order_refuted :
  exists o1 o2,
    (forall p, In p o1 -> Permutation p [fg; fh; fmain]) /\
    (forall p, In p o2 -> Permutation p [fg; fh; fmain]) /\
    names (analyse o1 init_state) = [T] /\ names (analyse o2 init_state) = [].
Proof. exact analyse_order_refuted. Qed.

(* (c) which names are recorded when a type reaches reflection (recursivelyRecordUsedForReflect as
   modelled in Model/TypeClosure.v): for every declared-type table and every root type, whenever the
   walk ends, it has recorded every declared type and struct field reflection can reach from the root
   (through fields, pointers, slices, arrays, channels, map keys and elements, func parameters and
   results, aliases and declared types, however they refer to each other) and nothing else *)
Theorem C08_closure_complete : forall underlying fuel t R,
  walk underlying fuel t [] = Some R -> forall o, reach underlying t o -> In o R.
Proof. exact walk_complete. Qed.
Theorem C08_closure_sound : forall underlying fuel t R,
  walk underlying fuel t [] = Some R -> forall o, In o R -> reach underlying t o.
Proof. exact walk_sound. Qed.

Print Assumptions C08_replacer_priority_is_first_match.
Print Assumptions C08_restores_name_at_position.
Print Assumptions C08_analyse_order_refuted.
Print Assumptions C08_closure_complete.
Print Assumptions C08_closure_sound.
