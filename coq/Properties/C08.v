(* C08 — Types that reach reflection keep their original names at run time. *)
From Coq Require Import Permutation.
From Verif Require Import Base.Bytes Model.Position Model.Reflect Proofs.PositionProofs Proofs.ReflectProofs.
Open Scope N_scope.

(* (a) the run-time name table: a lookup that takes the highest-priority matching key, with
   priorities decreasing in argument order, is the replacer specified as "first pair in order
   whose key matches here" -- for any set of pairs (overlapping, prefix-sharing, repeated) *)
Theorem C08_replacer_priority_is_first_match : forall pairs s, prio_replace pairs s = naive_replace pairs s.
Proof. exact prio_replace_is_naive. Qed.

(* ... and such a replacer restores a name that stands at the current position *)
Theorem C08_restores_name_at_position : forall pairs s k v,
  first_match pairs s = Some (k, v) -> naive_replace pairs s = v ++ naive_replace pairs (skipn (length k) s).
Proof. exact naive_replace_front. Qed.

(* (c) the propagation of reflected parameters is NOT independent of the order in which the
   package's functions are visited (known finding F10): the same three functions, two visiting
   orders, one records the struct type T and the other does not *)
Theorem C08_analyse_order_refuted :
  exists o1 o2,
    (forall p, In p o1 -> Permutation p [fg; fh; fmain]) /\
    (forall p, In p o2 -> Permutation p [fg; fh; fmain]) /\
    names (analyse o1 init_state) = [T] /\ names (analyse o2 init_state) = [].
Proof. exact analyse_order_refuted. Qed.

Print Assumptions C08_replacer_priority_is_first_match.
Print Assumptions C08_restores_name_at_position.
Print Assumptions C08_analyse_order_refuted.
