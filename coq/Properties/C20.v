(* C20 — Command lines are split the way the go command splits them.
   Statements over the tables regenerated from /repo's main.go / cache_shared.go and from the go
   command in use (coq/Gen/FlagTables.v). *)
From Coq Require Import String.
From Verif Require Import Base.Bytes Model.Flags Proofs.FlagsProofs Model.FlagsGen.
From Verif Require Gen.FlagTables.
Open Scope N_scope.

(* obligation over the regenerated tables: garble's boolean table agrees with the go command on
   every flag documented by `go help build`, `go help testflag` and `go help test` *)
Theorem C20_tables_agree : tables_agree bools go_defs = true.
Proof. vm_compute. reflexivity. Qed.

(* garble separates flags from package arguments exactly as the go command does, for every argv
   the go command accepts (any length; -f v, -f=v, --f, --f=v spellings; values of any shape) *)
Theorem C20_split_matches_go : forall argv f a,
  go_split go_defs argv = Some (f, a) -> split_flags bools argv = (f, a).
Proof. intros argv f a. apply split_matches_go. exact C20_tables_agree. Qed.

(* whatever the argv (accepted by go or not), nothing is dropped, duplicated or reordered ... *)
Theorem C20_split_partition : forall argv,
  fst (split_flags bools argv) ++ snd (split_flags bools argv) = argv.
Proof. exact (split_concat bools). Qed.

(* ... and the real go command receives the user's argv unchanged, after garble's own prefix *)
Theorem C20_go_args_passthrough : forall command toolexec extra argv,
  exists prefix,
    go_args Gen.FlagTables.garble_build_flags bools command toolexec extra argv = prefix ++ argv /\
    prefix = [command] ++ Gen.FlagTables.garble_build_flags ++ [toolexec] ++ extra ++
             (if beq command s_cmd_test then [s_vet_off] else []).
Proof. intros. apply go_args_passthrough. Qed.

(* the flags handed to `go list`: exactly the forwarded flags with their values, in order *)
Theorem C20_forwarded_spec : forall argv ts a,
  go_parse go_defs argv = Some (ts, a) ->
  fst (filter_forward fwd bools (fst (split_flags bools argv))) = flat_map (fwd_tok fwd) ts.
Proof.
  intros argv ts a H.
  assert (Hs : split_flags bools argv = (flat_map tok_strs ts, a)).
  { apply C20_split_matches_go. unfold go_split. rewrite H. reflexivity. }
  rewrite Hs. cbn [fst]. apply (filter_forward_spec fwd bools go_defs C20_tables_agree).
  eapply go_parse_wf. exact H.
Qed.

(* every shared build flag is forwarded, except those that do not affect what is built
   (-a -n -x -v -json) and those garble sets itself (-trimpath -toolexec -buildvcs);
   no test-only flag is forwarded *)
Theorem C20_forward_table_covers_build_flags : forward_table_ok = true.
Proof. vm_compute. reflexivity. Qed.

(* garble's own flags after the command are rejected in every spelling ... *)
Theorem C20_garble_flags_rejected :
  garble_spellings_rejected = true /\
  forall n v dd, In n garble_flag_names ->
    rx_garble ((if dd : bool then [DASH; DASH] else [DASH]) ++ n ++ EQ :: v) = true.
Proof. split; [exact garble_spellings_rejected_true | exact garble_flag_rejected]. Qed.

(* ... and no command line the go command accepts is rejected, whatever its values contain
   (values spelled like garble flags included) *)
Theorem C20_no_false_reject : forall argv ts a,
  go_parse go_defs argv = Some (ts, a) ->
  garble_flag_after_command bools argv = false.
Proof.
  intros argv ts a H. pose proof (go_parse_wf _ _ _ _ H) as Hwf.
  unfold garble_flag_after_command.
  assert (Hs : split_flags bools argv = (flat_map tok_strs ts, a)).
  { apply C20_split_matches_go. unfold go_split. rewrite H. reflexivity. }
  rewrite Hs. cbn [fst]. rewrite (garble_flag_in_flags_tokens bools go_defs C20_tables_agree ts Hwf).
  apply not_true_is_false. intros Hex. rewrite existsb_exists in Hex. destruct Hex as (t & Hin & Hrx).
  rewrite Forall_forall in Hwf. pose proof (Hwf t Hin) as Ht.
  rewrite (no_false_reject go_defs t Ht) in Hrx; [discriminate|].
  destruct Ht as (body & isb & _ & _ & _ & Hlk & _).
  (* no go flag is named like a garble flag: computed over the generated table *)
  assert (Hdis : forallb (fun d => negb (mem (fst d) garble_flag_names)) go_defs = true) by (vm_compute; reflexivity).
  rewrite forallb_forall in Hdis.
  assert (Hin2 : In (t_name t, isb) go_defs).
  { clear -Hlk. induction go_defs as [|[k v] l IH]; cbn in Hlk; [discriminate|].
    destruct (beq (t_name t) k) eqn:E; [apply beq_eq in E; subst; injection Hlk as ->; left; reflexivity | right; apply IH, Hlk]. }
  specialize (Hdis _ Hin2). cbn in Hdis. apply negb_true_iff in Hdis. exact Hdis.
Qed.

(* a garble flag in flag position is rejected *)
Theorem C20_garble_flag_in_flag_position_rejected : forall f rest,
  rx_garble f = true -> garble_flag_in_flags bools (f :: rest) = true.
Proof. intros f rest H. cbn [garble_flag_in_flags]. rewrite H. reflexivity. Qed.

(* reverse / map: a flag that is not a forwarded build flag is reported, not ignored *)
Theorem C20_unknown_rejected_for_reverse_map : forall argv ts a,
  go_parse go_defs argv = Some (ts, a) ->
  Exists (fun t => assoc (DASH :: t_name t) fwd = false) ts ->
  snd (filter_forward fwd bools (fst (split_flags bools argv))) <> [].
Proof.
  intros argv ts a H Hex.
  assert (Hs : split_flags bools argv = (flat_map tok_strs ts, a)).
  { apply C20_split_matches_go. unfold go_split. rewrite H. reflexivity. }
  rewrite Hs. cbn [fst]. apply (filter_unknown_spec fwd bools go_defs C20_tables_agree); [|exact Hex].
  eapply go_parse_wf. exact H.
Qed.

(* the model's regexp and constant argv pieces are the ones in the source now *)
Theorem C20_source_tie :
  Gen.FlagTables.rx_garble_flag_source = rx_source /\
  Gen.FlagTables.garble_build_flags = map s2b ["-trimpath"; "-buildvcs=false"]%string.
Proof. split; reflexivity. Qed.

(* known finding F9: `go test` also accepts flags after the package list; garble stops at the
   first package, so the full statement is false for the test command *)
Theorem C20_test_flags_after_packages_refuted :
  exists argv f a, go_test_split go_defs argv = Some (f, a) /\ split_flags bools argv <> (f, a).
Proof.
  exists (map s2b ["."; "-run"; "X"]%string). eexists. eexists. split.
  - vm_compute. reflexivity.
  - vm_compute. discriminate.
Qed.

(* non-vacuity: a mixed command line the go command accepts *)
Example C20_example :
  go_split go_defs (map s2b ["-v"; "--race"; "-tags"; "-tiny,x"; "-ldflags=-X=main.v=1.0-debug"; "-o"; "./out"; "./cmd/x"; "-trailing"]%string)
  = Some (map s2b ["-v"; "--race"; "-tags"; "-tiny,x"; "-ldflags=-X=main.v=1.0-debug"; "-o"; "./out"]%string,
          map s2b ["./cmd/x"; "-trailing"]%string).
Proof. vm_compute. reflexivity. Qed.

Print Assumptions C20_tables_agree.
Print Assumptions C20_split_matches_go.
Print Assumptions C20_split_partition.
Print Assumptions C20_go_args_passthrough.
Print Assumptions C20_forwarded_spec.
Print Assumptions C20_forward_table_covers_build_flags.
Print Assumptions C20_garble_flags_rejected.
Print Assumptions C20_no_false_reject.
Print Assumptions C20_garble_flag_in_flag_position_rejected.
Print Assumptions C20_unknown_rejected_for_reverse_map.
Print Assumptions C20_source_tie.
Print Assumptions C20_test_flags_after_packages_refuted.
