(* C10 — -tiny silences every crash but keeps crash semantics (the statically checkable part, over
   the stripped runtime regenerated on every run). *)
From Verif Require Import Base.Bytes Model.Tiny Proofs.TinyProofs.
From Verif Require Gen.RuntimeGraph.
Open Scope N_scope.

Module G := Gen.RuntimeGraph.

(* no function outside print.go still calls the print/println builtins: every such call was
   redirected to the empty hidePrint *)
Theorem C10_no_builtin_print_left : G.builtin_print_outside_print_go = [].
Proof. reflexivity. Qed.

(* the three functions garble requires to be emptied (printDebugLog, hexdumpWords, writeErrStr)
   exist and call nothing any more *)
Theorem C10_required_strips_empty : G.calls_left_in_required_strips = 0%nat.
Proof. reflexivity. Qed.

(* [reaching] contains every function of the stripped runtime that can reach a raw stderr writer
   (gwrite, writeErr, writeErrData, write(2, ...)) through any chain of resolved calls *)
Theorem C10_reaching_is_complete : forall f, reaches G.graph G.sinks f -> memN f G.reaching = true.
Proof.
  apply closed_contains_reaching; vm_compute; reflexivity.
Qed.

(* ... and the only calls from outside the printing files (print.go, debuglog.go, hexdump.go,
   write_err.go) into such functions target the hexdump marker callbacks, which only the emptied
   hexdumpWords ever invokes *)
Theorem C10_frontier_only_marker_callbacks :
  forallb (fun e => memN (snd e) G.marker_methods) (frontier G.graph G.inner G.reaching) = true.
Proof. vm_compute. reflexivity. Qed.

Print Assumptions C10_no_builtin_print_left.
Print Assumptions C10_required_strips_empty.
Print Assumptions C10_reaching_is_complete.
Print Assumptions C10_frontier_only_marker_callbacks.
