(* C01 — Obfuscated builds behave exactly like regular builds (the naming part that a theorem
   can carry; the rest of the statement is exercised by the differential runs of the check). *)
From Verif Require Import Base.Bytes Model.Flags Model.Names Model.Scope Model.Rename Model.Linkname Model.Asm Model.LinkFlags Proofs.RenameProofs Proofs.AsmProofs Proofs.LinkFlagsProofs.
From Verif Require Gen.StdTables.
Open Scope N_scope.

(* renaming preserves what every reference resolves to, in every chain of scopes, under the
   documented caveat that the new names separate the visible names exactly as the old ones did *)
Theorem C01_rename_preserves_resolution : forall (obj : Type) (rn : obj -> str) (c : list (scope obj)) n o,
  no_clash rn c -> resolve c n = Some o -> resolve (rename_chain rn c) (rn o) = Some o.
Proof. exact rename_preserves_resolution. Qed.

(* ... and nothing is captured: a renamed reference never lands on an object of another name *)
Theorem C01_rename_no_capture : forall (obj : Type) (rn : obj -> str) (c : list (scope obj)) n o,
  no_clash rn c -> In (n, o) (bindings c) ->
  forall o', resolve (rename_chain rn c) (rn o) = Some o' -> exists n', In (n', o') (bindings c) /\ n' = n.
Proof. exact rename_no_capture. Qed.

(* types keep satisfying exactly the same interfaces *)
Theorem C01_interfaces_preserved : forall (f : str -> str) (t i : list str),
  (forall a b, In a (t ++ i) -> In b (t ++ i) -> f a = f b -> a = b) ->
  implements (map f t) (map f i) = implements t i.
Proof. exact implements_preserved. Qed.

(* names the toolchain, the runtime or other packages rely on are fixed points *)
Theorem C01_entry_points_kept : forall to_obf d,
  (o_kind d = KFunc \/ o_kind d = KMethod) ->
  (beq (o_name d) s_main || beq (o_name d) s_init || beq (o_name d) s_TestMain) = true ->
  decide Gen.StdTables.intrinsics to_obf d = Keep.
Proof. exact (decide_keeps_entry_points Gen.StdTables.intrinsics). Qed.
Theorem C01_exported_methods_kept : forall to_obf d,
  o_kind d = KMethod -> o_exported d = true -> decide Gen.StdTables.intrinsics to_obf d = Keep.
Proof. exact (decide_keeps_exported_methods Gen.StdTables.intrinsics). Qed.
Theorem C01_tests_kept : forall to_obf d,
  o_kind d = KFunc -> is_prefix s_Test (o_name d) = true -> o_test_sig d = true ->
  decide Gen.StdTables.intrinsics to_obf d = Keep.
Proof. exact (decide_keeps_tests Gen.StdTables.intrinsics). Qed.
Theorem C01_plain_packages_kept : forall to_obf d,
  to_obf (o_pkg d) = false -> decide Gen.StdTables.intrinsics to_obf d = Keep.
Proof. exact (decide_keeps_plain_packages Gen.StdTables.intrinsics). Qed.

(* //go:linkname to a function of an obfuscated package is rewritten to exactly the import path
   and name the declaring package's build uses; unknown targets are left byte for byte *)
Theorem C01_linkname_function_agrees : forall lookup_pkg hname ipath intr cur_path cur_obf exported local path fname,
  existsb (N.eqb DOT) path = false -> existsb (N.eqb DOT) fname = false ->
  ends_with s_under_test path = false ->
  lookup_pkg path = Found true -> intrinsic intr path fname = false ->
  beq (path ++ DOT :: fname) s_main_main = false ->
  snd (linkname_rewrite lookup_pkg hname ipath intr cur_path cur_obf exported local (path ++ DOT :: fname))
  = ipath path ++ [DOT] ++ hname path fname.
Proof. exact linkname_function_agrees. Qed.
Theorem C01_linkname_unknown_unchanged : forall lookup_pkg hname ipath intr cur_path cur_obf exported local new,
  (forall p, lookup_pkg p = NotFound) ->
  snd (linkname_rewrite lookup_pkg hname ipath intr cur_path cur_obf exported local new) = new.
Proof. exact linkname_unknown_unchanged. Qed.

(* assembly files (replaceAsmNames): text without a middle dot is copied unchanged *)
Theorem C01_asm_passthrough : forall is_letter is_digit lookup_pkg hname intr cur_name cur_key cur_obf cur_ipath s,
  existsb (N.eqb MID) s = false ->
  replace_asm_names is_letter is_digit lookup_pkg hname intr cur_name cur_key cur_obf cur_ipath s = s.
Proof. exact asm_passthrough. Qed.
(* an unqualified reference  ·name  gets the hash of the package's own objects (kept for plain
   packages and compiler intrinsics); the text before it is copied and the rest rewritten in turn *)
Theorem C01_asm_local_reference : forall is_letter is_digit lookup_pkg hname intr cur_name cur_key cur_obf cur_ipath,
  is_letter MID = false -> is_digit MID = false ->
  forall pre name c post fuel,
  existsb (N.eqb MID) pre = false ->
  (match rev pre with [] => true | x :: _ => negb (path_rune is_letter is_digit x) end) = true ->
  forallb (ident_rune is_letter is_digit) name = true ->
  path_rune is_letter is_digit c = false -> c <> MID ->
  rewrite is_letter is_digit lookup_pkg hname intr cur_name cur_key cur_obf cur_ipath (S fuel) (pre ++ MID :: name ++ c :: post) =
  pre ++ [MID] ++ (if cur_obf && negb (intrinsic intr cur_key name) then hname cur_key name else name)
      ++ rewrite is_letter is_digit lookup_pkg hname intr cur_name cur_key cur_obf cur_ipath fuel (c :: post).
Proof. exact asm_local_reference. Qed.
(* and that is the decision the Go side takes for the declaration of an ordinary package-level function *)
Theorem C01_asm_go_agree : forall intr to_obf d,
  o_kind d = KFunc -> o_universe d = false -> special_keep (o_pkg d) (o_name d) = false ->
  beq (o_name d) s_main = false -> beq (o_name d) s_init = false -> beq (o_name d) s_TestMain = false ->
  (is_prefix s_Test (o_name d) && o_test_sig d) = false ->
  (decide intr to_obf d = HashPkg) <-> (to_obf (o_pkg d) && negb (intrinsic intr (o_pkg d) (o_name d)) = true).
Proof. exact asm_go_agree. Qed.

(* -ldflags=-X (transformLink): a flag naming a variable of a package of the build is duplicated with the
   package's obfuscated import path and the hash the Go side gives the variable; the name is cut at the
   last dot, so import paths containing dots work; flags for unknown packages get no duplicate *)
Theorem C01_x_flag_duplicate : forall lookup cur hname path name v ipath key,
  existsb (N.eqb EQ) (path ++ 46 :: name) = false -> existsb (N.eqb 46) name = false ->
  beq path s_mainpkg = false -> lookup path = Some (ipath, key) ->
  x_dup lookup cur hname (path ++ 46 :: name ++ EQ :: v) = [s_Xeq ++ ipath ++ [46] ++ hname key name ++ [EQ] ++ v].
Proof. exact x_dup_of_known_package. Qed.
Theorem C01_x_flag_unknown_package : forall lookup cur hname path name v,
  existsb (N.eqb EQ) (path ++ 46 :: name) = false -> existsb (N.eqb 46) name = false ->
  beq path s_mainpkg = false -> lookup path = None ->
  x_dup lookup cur hname (path ++ 46 :: name ++ EQ :: v) = [].
Proof. exact x_dup_of_unknown_package. Qed.

Print Assumptions C01_rename_preserves_resolution.
Print Assumptions C01_rename_no_capture.
Print Assumptions C01_interfaces_preserved.
Print Assumptions C01_entry_points_kept.
Print Assumptions C01_exported_methods_kept.
Print Assumptions C01_tests_kept.
Print Assumptions C01_plain_packages_kept.
Print Assumptions C01_linkname_function_agrees.
Print Assumptions C01_linkname_unknown_unchanged.
Print Assumptions C01_asm_passthrough.
Print Assumptions C01_asm_local_reference.
Print Assumptions C01_asm_go_agree.
Print Assumptions C01_x_flag_duplicate.
Print Assumptions C01_x_flag_unknown_package.
