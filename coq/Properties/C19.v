(* C19 — garble touches only its own files. *)
From Verif Require Import Base.Bytes Model.Files Proofs.FilesProofs.
Open Scope N_scope.

(* -debugdir: a target is refused exactly when it is a non-empty directory without the sentinel or
   not a directory at all; it is emptied exactly when it carries the sentinel *)
Theorem C19_refuse_iff_foreign : forall s, debugdir_decide s = ARefuse <-> (s = DForeign \/ s = DNotADirectory).
Proof. exact refuse_iff_foreign. Qed.
Theorem C19_removes_only_owned : forall s, removed_by s = true <-> s = DOwned.
Proof. exact removes_only_owned. Qed.

(* the deferred clean-up removes the directory this run created and nothing else, for every
   outcome (early failure included) and every inherited environment *)
Theorem C19_cleanup_removes_only_own : forall r, forget_inherited r = true ->
  forall d, In d (cleanup_removes r) -> created r = Some d.
Proof. exact cleanup_removes_only_own. Qed.
Theorem C19_cleanup_removes_created : forall r d, created r = Some d -> In d (cleanup_removes r).
Proof. exact cleanup_removes_created. Qed.

(* the defect of the pinned tree (fixed by a "fix:" commit): the inherited GARBLE_SHARED was removed *)
Theorem C19_inherited_shared_refuted :
  exists r d, forget_inherited r = false /\ created r = None /\ inherited r = Some d /\ In d (cleanup_removes r).
Proof. exact inherited_shared_refuted. Qed.

Print Assumptions C19_refuse_iff_foreign.
Print Assumptions C19_removes_only_owned.
Print Assumptions C19_cleanup_removes_only_own.
Print Assumptions C19_cleanup_removes_created.
Print Assumptions C19_inherited_shared_refuted.
