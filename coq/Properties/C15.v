(* C15 — Identical struct types get identical field names everywhere. *)
From Verif Require Import Base.Bytes Model.Names Model.TypeShape Proofs.TypeShapeProofs.
Open Scope N_scope.

(* for any field-type universe and any identity on field types: struct types identical under
   Go's identity ignoring tags get the same salt, hence the same obfuscated name for every field,
   under every configuration (seeded or not) *)
Theorem C15_identical_same_hash : forall (ty : Type) (ident : ty -> ty -> Prop) (a b : list (field ty)),
  struct_identical ident a b -> struct_hash a = struct_hash b.
Proof. exact identical_same_hash. Qed.

Theorem C15_identical_same_field_names : forall (ty : Type) (ident : ty -> ty -> Prop) (a b : list (field ty)) c k e,
  struct_identical ident a b -> field_obf_name c a k e = field_obf_name c b k e.
Proof. exact identical_same_field_names. Qed.

Theorem C15_hash_ignores_tags : forall (ty : Type) (a : list (field ty)) (tags : field ty -> str),
  struct_hash (map (fun f => retag ty (tags f) f) a) = struct_hash a.
Proof. exact hash_ignores_tags. Qed.

Theorem C15_hash_stable_under_instantiation : forall (ty : Type) (subst : ty -> ty) (a : list (field ty)),
  struct_hash (map (subst_field subst) a) = struct_hash a.
Proof. exact hash_stable_under_instantiation. Qed.

Theorem C15_hash_ignores_package : forall (ty : Type) (a : list (field ty)) p,
  struct_hash (map (repkg ty p) a) = struct_hash a.
Proof. exact hash_ignores_package. Qed.

Example C15_example :
  struct_hash [ {| f_name := [65]; f_embedded := false; f_tag := []; f_pkg := []; f_type := tt |};
                {| f_name := [66]; f_embedded := true; f_tag := [1]; f_pkg := [2]; f_type := tt |} ]
  = (9059 + 1 * ((65 * 16777619) mod u32) + 8861 + 2 * ((66 * 16777619) mod u32)) mod u32.
Proof. vm_compute. reflexivity. Qed.

Print Assumptions C15_identical_same_hash.
Print Assumptions C15_identical_same_field_names.
Print Assumptions C15_hash_ignores_tags.
Print Assumptions C15_hash_stable_under_instantiation.
Print Assumptions C15_hash_ignores_package.
