(* C11 — Control-flow obfuscation preserves function behaviour (the logic a theorem can carry
   without a semantics of Go; the passes themselves are exercised by the differential check). *)
From Verif Require Import Base.Bytes Model.Cfg Proofs.CfgProofs Model.Flatten Proofs.FlattenProofs.
Open Scope N_scope.

Theorem C11_dispatch_finds_target : forall table k t, NoDup (map fst table) -> In (k, t) table -> dispatch table k = Some t.
Proof. exact dispatch_finds. Qed.
Theorem C11_dispatch_no_spurious_target : forall table k t, dispatch table k = Some t -> In (k, t) table.
Proof. exact dispatch_only_table. Qed.
Theorem C11_phi_sequential_equals_parallel : forall phis e, independent [] phis = true -> phi_sequential phis e = phi_parallel phis e.
Proof. exact phi_sequential_equals_parallel. Qed.
Theorem C11_phi_swap_refuted : exists phis e, phi_sequential phis e 2 <> phi_parallel phis e 2.
Proof. exact phi_swap_refuted. Qed.
Theorem C11_trash_guard_never_true : forall a b o, In o (false_ops a b) -> cmp_eval o a b = false.
Proof. exact trash_guard_never_true. Qed.

(* applyFlattening as a graph transformation, for every graph, every block body and condition, every
   key assignment with distinct non-zero keys: a call returns from block pc with program state s in
   the flattened function iff it does in the original (so it also diverges iff the original does) *)
Theorem C11_flatten_equivalent : forall (S : Type) (act : nat -> S -> S) (cond : nat -> S -> bool) (g : cfg) (keys : list N),
  wf g = true -> (0 < length (all_edges g))%nat -> (length (all_edges g) <= length keys)%nat ->
  NoDup (firstn (length (all_edges g)) keys) -> Forall (fun k => k <> 0) (firstn (length (all_edges g)) keys) ->
  forall s r, (exists fuel, run S act cond g fuel (0%nat, 0, s) = Some r) <->
              (exists fuel, run S act cond (flatten keys g) fuel (flat_entry g, 0, s) = Some r).
Proof. exact flatten_equivalent. Qed.
(* what the correspondence check evaluates on every graph dumped from applyFlattening: when the two
   deciders answer true, the dumped result [real] is equivalent to the dumped input [g] *)
Theorem C11_flatten_checked_instance : forall (S : Type) act cond keys g real,
  hyps_okb keys g = true -> cfg_eqb (flatten keys g) real = true ->
  forall s r, (exists fuel, run S act cond g fuel (0%nat, 0, s) = Some r) <->
              (exists fuel, run S act cond real fuel (flat_entry g, 0, s) = Some r).
Proof. exact flatten_checked_instance. Qed.
(* the hypotheses are met and both sides compute on a concrete loop *)
Example C11_flatten_example :
  let g := [ {| baction := AOrig 0; bterm := TJump 1 |};
             {| baction := AOrig 1; bterm := TIf (COrig 1) 1%nat 2%nat |};
             {| baction := AOrig 2; bterm := TRet |} ] in
  let keys := [3; 1; 2] in
  let act := fun (a : nat) (s : nat) => match a with 1%nat => (s + 2)%nat | _ => Datatypes.S s end in
  let cond := fun (c : nat) (s : nat) => Nat.ltb s 9%nat in
  wf g = true /\ NoDup (firstn (length (all_edges g)) keys) /\ Forall (fun k => k <> 0) (firstn (length (all_edges g)) keys) /\
  run nat act cond g 20 (0%nat, 0, 0%nat) = Some (2%nat, 10%nat) /\
  run nat act cond (flatten keys g) 60 (flat_entry g, 0, 0%nat) = Some (2%nat, 10%nat).
Proof.
  cbv zeta. split; [reflexivity|]. split; [repeat constructor; cbn; intuition discriminate|].
  split; [repeat constructor; discriminate|]. split; vm_compute; reflexivity.
Qed.
(* a key equal to 0 (the value the dispatcher variable holds on entry) breaks it: the hypothesis is needed *)
Theorem C11_flatten_zero_key_refuted : exists g keys,
  wf g = true /\ NoDup keys /\
  run nat (fun _ s => Datatypes.S s) (fun _ _ => true) g 20 (0%nat, 0, 0%nat) <>
  run nat (fun _ s => Datatypes.S s) (fun _ _ => true) (flatten keys g) 60 (flat_entry g, 0, 0%nat).
Proof.
  exists [ {| baction := AOrig 0; bterm := TJump 1 |}; {| baction := AOrig 1; bterm := TJump 2 |}; {| baction := AOrig 2; bterm := TRet |} ], [1; 0].
  split; [reflexivity|]. split; [repeat constructor; cbn; intuition discriminate|]. vm_compute. discriminate.
Qed.

Print Assumptions C11_dispatch_finds_target.
Print Assumptions C11_dispatch_no_spurious_target.
Print Assumptions C11_phi_sequential_equals_parallel.
Print Assumptions C11_phi_swap_refuted.
Print Assumptions C11_trash_guard_never_true.
Print Assumptions C11_flatten_equivalent.
Print Assumptions C11_flatten_example.
Print Assumptions C11_flatten_zero_key_refuted.
Print Assumptions C11_flatten_checked_instance.
