(* C11 — Control-flow obfuscation preserves function behaviour (the logic a theorem can carry
   without a semantics of Go; the passes themselves are exercised by the differential check). *)
From Verif Require Import Base.Bytes Model.Cfg Proofs.CfgProofs Model.Passes Proofs.PassesProofs.
Open Scope N_scope.

Theorem C11_dispatch_finds_target : forall table k t, NoDup (map fst table) -> In (k, t) table -> dispatch table k = Some t.
Proof. exact dispatch_finds. Qed.
Theorem C11_dispatch_no_spurious_target : forall table k t, dispatch table k = Some t -> In (k, t) table.
Proof. exact dispatch_only_table. Qed.
Theorem C11_phi_sequential_equals_parallel : forall phis e, independent [] phis = true -> phi_sequential phis e = phi_parallel phis e.
Proof. exact phi_sequential_equals_parallel. Qed.
Theorem C11_phi_swap_refuted : exists phis e, phi_sequential phis e 2 <> phi_parallel phis e 2.
Proof. exact phi_swap_refuted. Qed.
Theorem C11_trash_guard_never_true : forall a b o, In o (false_ops a b) -> cmp_eval o a b = false.
Proof. exact trash_guard_never_true. Qed.

(* The passes of internal/ctrlflow/transform.go as graph transformations (Model/Passes.v), for every
   graph, every interpretation of the function's own instructions and conditions, and the parameters
   the pass picks: a fresh call returns or panics through instruction r with program state s in the
   transformed function iff it does in the original (so it also diverges iff the original does). *)
Theorem C11_pass_preserves_runs : forall (S : Type) (act : nat -> S -> S) (cond : nat -> S -> bool) (p : pass) (g : cfg) (start : nat),
  pass_okb p (g, start) = true ->
  forall s res, (exists fuel, run S act cond g fuel (start, env0, s) = Some res) <->
                (exists fuel, run S act cond (fst (apply_pass p (g, start))) fuel (snd (apply_pass p (g, start)), env0, s) = Some res).
Proof. intros S act cond p g start H. exact (pass_equiv S act cond p (g, start) H). Qed.
(* any sequence of passes (trash blocks, splits, junk jumps, repeated flattening) *)
Theorem C11_passes_compose : forall (S : Type) (act : nat -> S -> S) (cond : nat -> S -> bool) (ps : list pass) (g : cfg) (start : nat),
  passes_okb ps (g, start) = true ->
  forall s res, (exists fuel, run S act cond g fuel (start, env0, s) = Some res) <->
                (exists fuel, run S act cond (fst (apply_passes ps (g, start))) fuel (snd (apply_passes ps (g, start)), env0, s) = Some res).
Proof. intros S act cond ps g start H. exact (passes_equiv S act cond ps (g, start) H). Qed.
(* flattening on its own, hypotheses spelled out *)
Theorem C11_flatten_equivalent : forall (S : Type) (act : nat -> S -> S) (cond : nat -> S -> bool) (g : cfg) (x : nat) (keys : list N) (start : nat),
  wf g = true -> unused x g = true -> (start < length g)%nat ->
  (0 < length (all_edges g))%nat -> (length (all_edges g) <= length keys)%nat ->
  NoDup (firstn (length (all_edges g)) keys) -> Forall (fun k => k <> 0) (firstn (length (all_edges g)) keys) ->
  forall (e : env) s, e x = 0 ->
  forall res, (exists fuel, run S act cond g fuel (start, e, s) = Some res) <->
              (exists fuel, run S act cond (flatten x keys start g) fuel (flat_entry g, e, s) = Some res).
Proof. exact flatten_equiv. Qed.
(* hardening of the dispatcher keys: under "xor" the value a fake block stores equals the value its
   if-block compares with, and these effective keys are again distinct and non-zero when the keys
   generateKeys draws are distinct and differ from the global key; under "delegate_table" the stored
   value is the compared key itself.  So C11_flatten_equivalent applies to the hardened dispatcher. *)
Theorem C11_xor_hardening_consistent : forall g k, xor_store g k = xor_compare g k.
Proof. exact xor_store_is_compare. Qed.
Theorem C11_xor_hardening_keys_ok : forall g keys,
  NoDup keys -> Forall (fun k => k <> g) keys ->
  NoDup (map (xor_store g) keys) /\ Forall (fun e => e <> 0) (map (xor_store g) keys).
Proof. exact xor_hardening_keys_ok. Qed.
Theorem C11_delegate_hardening_consistent : forall dk k, delegate_store dk k = k.
Proof. exact delegate_store_is_key. Qed.
(* what the correspondence check evaluates on every sequence of graphs dumped from the real passes:
   when the two deciders answer true, the dumped result [real] is equivalent to the dumped input [g] *)
Theorem C11_passes_checked_instance : forall (S : Type) (act : nat -> S -> S) (cond : nat -> S -> bool) ps g start real,
  passes_okb ps (g, start) = true -> cfg_eqb (fst (apply_passes ps (g, start))) real = true ->
  forall s res, (exists fuel, run S act cond g fuel (start, env0, s) = Some res) <->
                (exists fuel, run S act cond real fuel (snd (apply_passes ps (g, start)), env0, s) = Some res).
Proof. intros S act cond ps g start real H1 H2. exact (passes_checked_instance S act cond ps g start real H1 H2). Qed.
(* the hypotheses are met and both sides compute on a concrete loop under all four passes, flattening twice *)
Example C11_passes_example :
  let g := [ {| body := [IOrig 0]; bterm := TJump 1 |};
             {| body := [IOrig 1; IOrig 2]; bterm := TIf (COrig 1) 1%nat 2%nat |};
             {| body := [IOrig 3]; bterm := TRet 2 |} ] in
  let ps := [PTrash 0 0 100 7 OLt 5 [IOrig 99]; PSplit 1 1; PJump 1 1; PFlatten 101 [3; 1; 2; 6; 5; 4; 7]; PFlatten 102 (map N.of_nat (seq 1 40))] in
  let act := fun (a : nat) (s : nat) => match a with 1%nat => (s + 2)%nat | 99%nat => 1000%nat | _ => Datatypes.S s end in
  let cond := fun (c : nat) (s : nat) => Nat.ltb s 9%nat in
  passes_okb ps (g, 0%nat) = true /\
  run nat act cond g 20 (0%nat, env0, 0%nat) = Some (2%nat, false, 11%nat) /\
  run nat act cond (fst (apply_passes ps (g, 0%nat))) 4000 (snd (apply_passes ps (g, 0%nat)), env0, 0%nat) = Some (2%nat, false, 11%nat).
Proof. cbv zeta. split; [vm_compute; reflexivity|]. split; vm_compute; reflexivity. Qed.
(* a key equal to 0 (the value the dispatcher variable holds on entry) breaks it: the hypothesis is needed *)
Theorem C11_flatten_zero_key_refuted : exists g keys,
  wf g = true /\ NoDup keys /\
  run nat (fun _ s => Datatypes.S s) (fun _ _ => true) g 20 (0%nat, env0, 0%nat) <>
  run nat (fun _ s => Datatypes.S s) (fun _ _ => true) (flatten 7 keys 0 g) 60 (flat_entry g, env0, 0%nat).
Proof.
  exists [ {| body := [IOrig 0]; bterm := TJump 1 |}; {| body := [IOrig 1]; bterm := TJump 2 |}; {| body := [IOrig 2]; bterm := TRet 0 |} ], [1; 0].
  split; [reflexivity|]. split; [repeat constructor; cbn; intuition discriminate|]. vm_compute. discriminate.
Qed.
(* a trash guard that can be true breaks it (the function never returns): the hypothesis is needed *)
Theorem C11_trash_true_guard_refuted : exists g,
  wf g = true /\
  run nat (fun _ s => Datatypes.S s) (fun _ _ => true) g 20 (0%nat, env0, 0%nat) = Some (0%nat, false, 2%nat) /\
  forall fuel, run nat (fun _ s => Datatypes.S s) (fun _ _ => true) (add_trash g 0 0 9 3 OLt 5 []) fuel (0%nat, env0, 0%nat) = None.
Proof.
  exists [ {| body := [IOrig 0]; bterm := TJump 1 |}; {| body := [IOrig 1]; bterm := TRet 0 |} ].
  split; [reflexivity|]. split; [reflexivity|].
  intros fuel. destruct fuel as [|[|fuel]]; [reflexivity | reflexivity|].
  cbn [run]. change (step nat (fun _ s => Datatypes.S s) (fun _ _ => true) (add_trash _ 0 0 9 3 OLt 5 []) (0%nat, env0, 0%nat)) with
    (Next nat (2%nat, upd env0 9 3, 1%nat)).
  change (step nat (fun _ s => Datatypes.S s) (fun _ _ => true) (add_trash _ 0 0 9 3 OLt 5 []) (2%nat, upd env0 9 3, 1%nat)) with
    (Next nat (3%nat, upd env0 9 3, 1%nat)).
  induction fuel as [|fuel IH]; [reflexivity|]. cbn [run].
  change (step nat (fun _ s => Datatypes.S s) (fun _ _ => true) (add_trash _ 0 0 9 3 OLt 5 []) (3%nat, upd env0 9 3, 1%nat)) with
    (Next nat (3%nat, upd env0 9 3, 1%nat)). exact IH.
Qed.

Print Assumptions C11_dispatch_finds_target.
Print Assumptions C11_dispatch_no_spurious_target.
Print Assumptions C11_phi_sequential_equals_parallel.
Print Assumptions C11_phi_swap_refuted.
Print Assumptions C11_trash_guard_never_true.
Print Assumptions C11_pass_preserves_runs.
Print Assumptions C11_passes_compose.
Print Assumptions C11_flatten_equivalent.
Print Assumptions C11_passes_checked_instance.
Print Assumptions C11_passes_example.
Print Assumptions C11_flatten_zero_key_refuted.
Print Assumptions C11_trash_true_guard_refuted.
Print Assumptions C11_xor_hardening_consistent.
Print Assumptions C11_xor_hardening_keys_ok.
Print Assumptions C11_delegate_hardening_consistent.
