(* C11 — Control-flow obfuscation preserves function behaviour (the logic a theorem can carry
   without a semantics of Go; the passes themselves are exercised by the differential check). *)
From Verif Require Import Base.Bytes Model.Cfg Proofs.CfgProofs.
Open Scope N_scope.

Theorem C11_dispatch_finds_target : forall table k t, NoDup (map fst table) -> In (k, t) table -> dispatch table k = Some t.
Proof. exact dispatch_finds. Qed.
Theorem C11_dispatch_no_spurious_target : forall table k t, dispatch table k = Some t -> In (k, t) table.
Proof. exact dispatch_only_table. Qed.
Theorem C11_phi_sequential_equals_parallel : forall phis e, independent [] phis = true -> phi_sequential phis e = phi_parallel phis e.
Proof. exact phi_sequential_equals_parallel. Qed.
Theorem C11_phi_swap_refuted : exists phis e, phi_sequential phis e 2 <> phi_parallel phis e 2.
Proof. exact phi_swap_refuted. Qed.
Theorem C11_trash_guard_never_true : forall a b o, In o (false_ops a b) -> cmp_eval o a b = false.
Proof. exact trash_guard_never_true. Qed.

Print Assumptions C11_dispatch_finds_target.
Print Assumptions C11_dispatch_no_spurious_target.
Print Assumptions C11_phi_sequential_equals_parallel.
Print Assumptions C11_phi_swap_refuted.
Print Assumptions C11_trash_guard_never_true.
