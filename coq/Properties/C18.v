(* C18 — An interrupted build leaves nothing that breaks the next one. *)
From Coq Require Import String.
From Verif Require Import Base.Bytes Model.Flags Model.Linker Model.PkgCache Proofs.LinkerProofs Proofs.PkgCacheProofs.
From Verif Require Gen.LinkerProtocol.

(* after any execution of any number of processes with kills at arbitrary steps, once the lock is
   free a fresh run reaches the point of use with a completely written linker and a stamp *)
Theorem C18_crash_then_rerun_ok : forall s s' p, init_ok s -> steps s s' -> holder s' = None -> pcs s' p = Idle ->
  exists s'', steps s' s'' /\ pcs s'' p = Using /\ link (d s'') = LComplete /\ stamp (d s'') = true.
Proof. exact crash_then_rerun_ok. Qed.

(* the invariant survives every crash point (crash is a step of the system) *)
Theorem C18_inv_after_any_crash : forall s s', init_ok s -> steps s s' -> inv s'.
Proof. exact linker_inv. Qed.

(* cache entries interrupted mid-write (data file short or absent, index absent or unparsable)
   read as a miss, never as wrong bytes (C07's theorem, which is what makes a killed write harmless) *)
Theorem C18_partial_entry_is_a_miss : forall orig fs,
  let e := fold_left apply_fault fs (put orig) in get_file e = Miss \/ get_file e = Hit orig.
Proof. exact get_file_sound. Qed.

(* the stamp is written after the build in the source now *)
Theorem C18_stamp_last :
  Gen.LinkerProtocol.patch_linker_calls =
    map s2b ["Lock"; "checkVersion"; "fileExists"; "applyPatches"; "buildLinker"; "writeVersion"]%string.
Proof. reflexivity. Qed.

(* the executable search used when that obligation breaks finds no bad kill point for this order
   (3 initial disks x every disk effect), and finds one when the stamp is written first *)
Theorem C18_crash_search_clean :
  crash_search (map s2b ["Lock"; "checkVersion"; "fileExists"; "applyPatches"; "buildLinker"; "writeVersion"]%string) = None.
Proof. vm_compute. reflexivity. Qed.
Theorem C18_crash_search_finds_stamp_first :
  crash_search (map s2b ["Lock"; "checkVersion"; "fileExists"; "writeVersion"; "applyPatches"; "buildLinker"]%string) = Some ((SStale, KStale), 0%nat).
Proof. vm_compute. reflexivity. Qed.

(* outside the property's quantifier, recorded: a hand-deleted linker plus a kill during its rebuild *)
Theorem C18_missing_link_then_crash_refuted :
  exists s s', ~ disk_ok (d s) /\ steps s s' /\ holder s' = None /\ link (d s') = LPartial /\ stamp (d s') = true.
Proof. exact missing_link_then_crash_refuted. Qed.

Print Assumptions C18_crash_then_rerun_ok.
Print Assumptions C18_inv_after_any_crash.
Print Assumptions C18_partial_entry_is_a_miss.
Print Assumptions C18_stamp_last.
Print Assumptions C18_missing_link_then_crash_refuted.
Print Assumptions C18_crash_search_clean.
Print Assumptions C18_crash_search_finds_stamp_first.
