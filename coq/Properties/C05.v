(* C05 — Obfuscated literals evaluate to their original values.
   [run_*] is the decoder the emitted Go code implements (validated against the emitted source and
   the Go compiler by the check), [enc_*] what the generator does with its random choices. *)
From Verif Require Import Base.Bytes Model.Flags Model.Literals Model.LinkFlags Proofs.LiteralsProofs Proofs.LinkFlagsProofs.
From Verif Require Gen.LitConsts.
Open Scope N_scope.

(* the external-key layer wrapped around every byte-slice literal: any number of operations, any
   indices (repeated ones included), any operators, any key bytes *)
Theorem C05_layer_roundtrip : forall ops d,
  okb d -> Forall (step_ok (length d)) ops -> run_layer (enc_layer ops d) = d.
Proof. exact layer_roundtrip. Qed.

Theorem C05_atom_roundtrip : forall v c,
  v < 256 -> (match c with Some (_, k) => k < 256 | None => True end) -> run_atom (enc_atom v c) = v.
Proof. exact atom_roundtrip. Qed.

Theorem C05_simple_roundtrip : forall key o kops dops d,
  okb d -> okb key -> length key = length d ->
  Forall (step_ok (length key)) kops -> Forall (step_ok (length d)) dops ->
  let '(kl, dl, o') := enc_simple key o kops dops d in run_simple kl dl o' = d.
Proof. exact simple_roundtrip. Qed.

(* swap: any even or odd list of positions below the length, repeated and coinciding ones included *)
Theorem C05_swap_roundtrip : forall pos o shift d,
  okb d -> Forall (pair_ok (length d)) (pairs_from 0 pos) ->
  run_swap_from 0 pos (inv o) shift (enc_swap_data pos o shift d) = d.
Proof. exact swap_data_roundtrip. Qed.

Theorem C05_seed_roundtrip : forall o d, okb d -> forall s, s < 256 ->
  run_seed_from s (inv o) (enc_seed_from s o d) = d.
Proof. exact seed_roundtrip. Qed.

(* shuffle: any permutation placement, any per-byte operators, any index-key choices *)
Theorem C05_shuffle_roundtrip : forall ops key idxk sigma kas fops kops d,
  okb d -> okb key -> okb idxk -> length key = length d ->
  NoDup sigma -> length sigma = (2 * length d)%nat -> Forall (fun j => (j < 2 * length d)%nat) sigma ->
  Forall (step_ok (2 * length d)) fops -> Forall (step_ok (length idxk)) kops ->
  let '(fl, kl, args) := enc_shuffle ops key idxk sigma kas fops kops d in run_shuffle fl kl args = d.
Proof. exact shuffle_roundtrip. Qed.

(* the string wrapper (junk bytes around the data) and the byte-array copy with zero padding *)
Theorem C05_wrap_roundtrip : forall junk s d, (s <= length junk)%nat -> unwrap s (length d) (wrap junk s d) = d.
Proof. exact wrap_roundtrip. Qed.
Theorem C05_array_roundtrip : forall len d, (length d <= len)%nat ->
  length (to_array len d) = len /\ firstn (length d) (to_array len d) = d /\
  skipn (length d) (to_array len d) = repeat 0 (len - length d).
Proof. exact array_roundtrip. Qed.

(* split: n chunks visited through a permutation of n+2 state numbers, the switch cases in any
   (shuffled) order, the int key accumulator of the emitted loop against the byte accumulator of the
   generator: the state machine terminates and returns the data *)
Theorem C05_split_roundtrip : forall (n : nat) (idx : list N) (ps : list piece) (o : bop) (key0 : N)
    (cs : list (N * scase)) (data : bytes),
  length idx = S (S n) -> NoDup idx -> length ps = n -> key0 < 256 -> okb data ->
  length cs = S n -> NoDup (map fst cs) ->
  (forall k, (k < n)%nat -> In (nth k idx 0, CChunk (nth (S k) idx 0) (nth k ps (PAtom (0, None)))) cs) ->
  In (nth n idx 0, CDecrypt (nth (S n) idx 0) (inv o)) cs ->
  concat (map run_piece ps) = encrypt_from 0 o (split_key_from 0 (firstn (S n) idx) key0) data ->
  run_split (nth 0 idx 0) (nth (S n) idx 0) (key0, None) cs = Some data.
Proof. exact split_roundtrip. Qed.

(* non-vacuity: a one-chunk instance meets the hypotheses *)
Example C05_split_instance :
  run_split 1 0 (5, None)
    [(1, CChunk 2 (PAtom (ap Add 65 ((N.lxor (N.lxor (N.lxor 5 (1*0)) (2*1)) 0) mod 256), None)));
     (2, CDecrypt 0 Sub)] = Some [65].
Proof. vm_compute. reflexivity. Qed.

(* the junk prefix never reaches into the data: literals.go's constants *)
Theorem C05_consts : Gen.LitConsts.maxStringJunkBytes <= Gen.LitConsts.MinSize /\ 0 < Gen.LitConsts.minStringJunkBytes.
Proof. split; vm_compute; [discriminate | reflexivity]. Qed.

(* -ldflags=-X under -literals (computeLinkerVariableStrings): a string variable the linker sets must keep a
   plain initialiser.  -X=path.name=value selects a variable of the package being compiled exactly when the
   text before the LAST dot is the package's import path (or "main" for a main package) and the text after
   it is one of its variables; so import paths containing dots are handled *)
Theorem C05_linker_var_of_own_package : forall pkg_path pkg_name vars name v,
  existsb (N.eqb EQ) (pkg_path ++ 46 :: name) = false -> existsb (N.eqb 46) name = false -> mem name vars = true ->
  linker_var pkg_path pkg_name vars (pkg_path ++ 46 :: name ++ EQ :: v) = Some (name, v).
Proof. exact linker_var_of_own_package. Qed.
Theorem C05_linker_var_of_other_package : forall pkg_path pkg_name vars path name v,
  existsb (N.eqb EQ) (path ++ 46 :: name) = false -> existsb (N.eqb 46) name = false ->
  beq path pkg_path = false -> beq path s_mainpkg = false ->
  linker_var pkg_path pkg_name vars (path ++ 46 :: name ++ EQ :: v) = None.
Proof. exact linker_var_of_other_package. Qed.

Print Assumptions C05_layer_roundtrip.
Print Assumptions C05_atom_roundtrip.
Print Assumptions C05_simple_roundtrip.
Print Assumptions C05_swap_roundtrip.
Print Assumptions C05_seed_roundtrip.
Print Assumptions C05_shuffle_roundtrip.
Print Assumptions C05_split_roundtrip.
Print Assumptions C05_wrap_roundtrip.
Print Assumptions C05_array_roundtrip.
Print Assumptions C05_consts.
Print Assumptions C05_linker_var_of_own_package.
Print Assumptions C05_linker_var_of_other_package.
