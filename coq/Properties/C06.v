(* C06 — Cached builds never go stale. *)
From Verif Require Import Base.Bytes Model.Flags Model.Names Model.Cache Proofs.NamesProofs Proofs.CacheProofs.
From Verif Require Gen.KeyCoverage.
Open Scope N_scope.

(* over every history of builds that share a cache, each build's output equals the cold build's,
   provided equal keys imply equal cold outputs (the key covers what the build reads) *)
Theorem C06_memo_sound : forall (Cfg Key Out : Type) (key : Cfg -> Key) (F : Cfg -> Out) (key_eqb : Key -> Key -> bool),
  (forall a b, key_eqb a b = true <-> a = b) -> (forall x y, key x = key y -> F x = F y) ->
  forall h c, inv Cfg Key Out key F c -> fst (run_history Cfg Key Out key F key_eqb h c) = map F h.
Proof. intros. apply memo_sound; assumption. Qed.

Theorem C06_noop_rebuild : forall (Cfg Key Out : Type) (key : Cfg -> Key) (F : Cfg -> Out) (key_eqb : Key -> Key -> bool),
  (forall a b, key_eqb a b = true <-> a = b) ->
  forall x c, let '(_, c1, _) := build Cfg Key Out key F key_eqb x c in snd (build Cfg Key Out key F key_eqb x c1) = false.
Proof. intros. apply noop_rebuild; assumption. Qed.

(* garble's part of the key: injective in the Go action id (source, tags, platform, toolchain), the
   garble binary, GOGARBLE and the garble flags (C12's theorem), ... *)
Theorem C06_key_input_injective : forall h1 h2 c1 c2,
  seedless c1 -> seedless c2 ->
  length h1 = length h2 -> length (c_binary_id c1) = length (c_binary_id c2) ->
  no_byte 32 (c_gogarble c1) = true -> no_byte 32 (c_gogarble c2) = true ->
  garble_hash_input h1 c1 = garble_hash_input h2 c2 ->
  h1 = h2 /\ c_binary_id c1 = c_binary_id c2 /\ c_gogarble c1 = c_gogarble c2 /\ flag_combo c1 = flag_combo c2.
Proof. exact unseeded_input_injective. Qed.

(* ... and every build-affecting flag garble registers is written into that input (obligation over
   the source as it is now: main.go's flag registrations vs hash.go's appendFlags) *)
Theorem C06_flags_covered :
  flags_covered Gen.KeyCoverage.registered_flags Gen.KeyCoverage.hashed_flag_strings = true /\
  Gen.KeyCoverage.hash_writes_gogarble = true /\ Gen.KeyCoverage.hash_writes_binary_id = true.
Proof. repeat split; vm_compute; reflexivity. Qed.

(* known finding F7: the compile action's key does not cover -ldflags=-X, which the compile step
   reads under -literals *)
Theorem C06_compile_key_unsound_refuted :
  exists c1 c2, compile_key c1 = compile_key c2 /\ compile_out c1 <> compile_out c2.
Proof. exact compile_key_unsound_refuted. Qed.
Theorem C06_compile_key_sound_without_literals : forall c1 c2,
  cc_literals c1 = false -> compile_key c1 = compile_key c2 -> compile_out c1 = compile_out c2.
Proof. exact compile_key_sound_without_literals. Qed.

Print Assumptions C06_memo_sound.
Print Assumptions C06_noop_rebuild.
Print Assumptions C06_key_input_injective.
Print Assumptions C06_flags_covered.
Print Assumptions C06_compile_key_unsound_refuted.
Print Assumptions C06_compile_key_sound_without_literals.
