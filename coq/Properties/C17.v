(* C17 — Concurrent garble processes never interfere (the patched-linker protocol, for every
   interleaving of any number of processes, crashes included). *)
From Coq Require Import String.
From Verif Require Import Base.Bytes Model.Flags Model.Linker Proofs.LinkerProofs.
From Verif Require Gen.LinkerProtocol.

(* whoever runs the cached linker holds the lock and sees a completely written file *)
Theorem C17_run_sees_complete : forall s s' p, init_ok s -> steps s s' -> pcs s' p = Using ->
  holder s' = Some p /\ link (d s') = LComplete.
Proof. exact run_sees_complete. Qed.

(* at most one process checks, builds, stamps or uses the linker at any time *)
Theorem C17_mutual_exclusion : forall s s' p q, init_ok s -> steps s s' ->
  in_critical (pcs s' p) = true -> in_critical (pcs s' q) = true -> p = q.
Proof. exact mutual_exclusion. Qed.

(* the invariant itself, over every reachable state *)
Theorem C17_linker_inv : forall s s', init_ok s -> steps s s' -> inv s'.
Proof. exact linker_inv. Qed.

(* the model's step order is the order of the calls in the source now: lock, check (version and
   existence), patch, build, stamp; and in the link step: obtain the linker, defer the unlock, run it *)
Theorem C17_protocol_order :
  Gen.LinkerProtocol.patch_linker_calls =
    map s2b ["Lock"; "checkVersion"; "fileExists"; "applyPatches"; "buildLinker"; "writeVersion"]%string /\
  skipn 1 Gen.LinkerProtocol.main_err_calls = map s2b ["PatchLinker"; "defer:unlock"; "Command"; "Run"]%string.
Proof. split; reflexivity. Qed.

Print Assumptions C17_run_sees_complete.
Print Assumptions C17_mutual_exclusion.
Print Assumptions C17_linker_inv.
Print Assumptions C17_protocol_order.
