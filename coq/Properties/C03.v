(* C03 — Builds are reproducible bit for bit (what a theorem can carry: emission in sorted key
   order is independent of map iteration order; and every place of the obfuscator that could
   depend on iteration order, the global PRNG, the clock or the process is inventoried from the
   type-checked source on every run and must be of a reviewed kind). *)
From Coq Require Import String Permutation.
From Verif Require Import Base.Bytes Model.Flags Model.Names Model.Determinism Proofs.DeterminismProofs.
From Verif Require Gen.Sites.
Open Scope N_scope.

Theorem C03_sorted_emission_order_independent : forall m m', Permutation m m' -> emit_sorted m = emit_sorted m'.
Proof. exact emit_sorted_perm. Qed.

(* the PRNG of the obfuscator is seeded from the first eight bytes of the seed or of the package's
   GarbleActionID: a function of those bytes only *)
Theorem C03_rand_seed_function_of_id : forall id1 id2, firstn 8 id1 = firstn 8 id2 -> rand_seed id1 = rand_seed id2.
Proof. intros id1 id2 H. unfold rand_seed. rewrite H. reflexivity. Qed.

(* classes the translator assigns that are deterministic by construction *)
Definition auto_safe : list str := Eval vm_compute in map s2b ["commutative"; "sorted-before-use"; "logging-only"; "seed-random-only"]%string.

(* sites reviewed by hand: the iteration order cannot reach the build output *)
Definition reviewed_ok : list str := Eval vm_compute in map s2b [
  "garble/cache_shared.go:MarshalMsg:maprange";      (* layout of the private shared-cache file, read back through its index *)
  "garble/cache_shared.go:Msgsize:maprange";         (* a size estimate *)
  "garble/cache_shared.go:all:maprange";             (* forces decoding of every entry; fills a map *)
  "garble/cache_shared.go:linknamedToList:maprange"; (* collected, then slices.Sort *)
  "garble/debugdir.go:debugDirNeedsRebuild:maprange";(* boolean OR over packages *)
  "garble/debugdir.go:restoreDebugArtifactsForPkg:maprange"; (* writes one file per key *)
  "garble/map.go:commandMap:maprange";               (* fills maps; encoding/json sorts keys *)
  "garble/reverse.go:commandReverse:maprange";       (* garble reverse, not a build *)
  "garble/runtime_patch.go:validateDirectRuntimeStripping:maprange"; (* assertion only *)
  "garble/transformer.go:computeFieldToStruct:maprange"; (* fills a map, first writer checked against later ones *)
  "garble/reflect.go:checkFunction:maprange";        (* set insertions per known parameter *)
  "ctrlflow/trash.go:isSupportedType:maprange"       (* boolean search *)
]%string.

(* sites that ARE order/global-state sensitive on the pinned tree: known findings *)
Definition known_bad : list str := Eval vm_compute in map s2b [
  "ctrlflow/hardening.go:Apply:global-rand";
  "ctrlflow/trash.go:Generate:maprange"; "ctrlflow/trash.go:cacheMethods:maprange"; "ctrlflow/trash.go:chooseRandomMethod:maprange";
  "ctrlflow/trash.go:chooseRandomVar:maprange"; "ctrlflow/trash.go:generateAssign:maprange"; "ctrlflow/trash.go:generateRandomConst:maprange";
  "ctrlflow/trash.go:initialize:maprange";
  "ssa2ast/func.go:convertToStmts:maprange";
  "garble/reflect.go:ignoreReflectedTypes:maprange"
]%string.

Definition site_ok (s : str * str) : bool :=
  mem (snd s) auto_safe || mem (fst s) reviewed_ok || mem (fst s) known_bad.

(* the obligation over the source as it is now: no unreviewed site *)
Theorem C03_sites_reviewed : forallb site_ok Gen.Sites.sites = true.
Proof. vm_compute. reflexivity. Qed.

(* the full statement "no site is order/global-state sensitive" is false on the pinned tree *)
Theorem C03_sites_deterministic_refuted :
  existsb (fun s => mem (fst s) known_bad) Gen.Sites.sites = true.
Proof. vm_compute. reflexivity. Qed.

Print Assumptions C03_sorted_emission_order_independent.
Print Assumptions C03_rand_seed_function_of_id.
Print Assumptions C03_sites_reviewed.
Print Assumptions C03_sites_deterministic_refuted.
