(* C02 — The binary carries no original names, paths, positions or build metadata (the part a
   theorem can carry: what garble hands to the toolchain). *)
From Verif Require Import Base.Bytes Model.Flags Model.Names Model.Scope Model.Rename Model.LinkFlags
  Proofs.NamesProofs Proofs.RenameProofs Proofs.LinkFlagsProofs.
From Verif Require Gen.StdTables.
Open Scope N_scope.

(* every variable, type and field of an obfuscated package, and every function or unexported method
   that is not a documented exception, is written under a hashed name ... *)
Theorem C02_everything_else_is_hashed : forall to_obf d,
  o_universe d = false -> special_keep (o_pkg d) (o_name d) = false -> to_obf (o_pkg d) = true ->
  match o_kind d with
  | KVar | KType => decide Gen.StdTables.intrinsics to_obf d = HashPkg
  | KField => decide Gen.StdTables.intrinsics to_obf d = HashStruct
  | _ => True
  end.
Proof. exact (decide_hashes_the_rest Gen.StdTables.intrinsics). Qed.

(* ... and a hashed name is 6..12 characters of [A-Za-z0-9_] computed from a SHA-256 sum: it is a
   function of the digest only, never a copy of the original spelling *)
Theorem C02_hashed_names_are_digest_text : forall salt seed name i e,
  valid_name (hash_custom salt seed name i e) = true /\
  hash_custom salt seed name i e = name_of_sum (Base.Sha256.sha256 (salt ++ seed ++ name)) i e.
Proof. intros. split; [apply hash_custom_valid | reflexivity]. Qed.

(* the linker command line garble produces from the one cmd/go passes: -importcfg replaced in
   place, -buildid emptied in place, every user flag kept, then the duplicated -X flags, the
   buildVersion override and -w -s at the very end *)
Theorem C02_link_flags_strip : forall pre cfgold mid X post xdups newcfg,
  nomention s_importcfg pre = true ->
  nomention s_buildid (pre ++ [s_importcfg; cfgold] ++ mid) = true ->
  transform_link_flags (pre ++ [s_importcfg; cfgold] ++ mid ++ [s_buildid ++ EQ :: X] ++ post) xdups newcfg
  = pre ++ [s_importcfg; newcfg] ++ mid ++ [s_buildid ++ [EQ]] ++ post ++ xdups ++ [s_X_buildversion; s_w; s_s].
Proof. exact transform_link_flags_shape. Qed.

(* -trimpath: garble's temporary directory is trimmed first, so a TMPDIR below the source
   directory is not shadowed by the shorter $PWD prefix *)
Theorem C02_trimpath_tempdir_first : forall pre old post tempdir,
  nomention s_trimpath pre = true -> nomention s_trimpath post = true ->
  alter_trimpath (pre ++ (s_trimpath ++ EQ :: old) :: post) tempdir
  = pre ++ (s_trimpath ++ EQ :: tempdir ++ s_arrow_semi ++ old) :: post.
Proof. exact alter_trimpath_shape. Qed.

Theorem C02_trimpath_tempdir_first_bare : forall pre old post tempdir,
  nomention s_trimpath pre = true -> nomention s_trimpath (old :: post) = true ->
  alter_trimpath (pre ++ s_trimpath :: old :: post) tempdir
  = pre ++ s_trimpath :: (tempdir ++ s_arrow_semi ++ old) :: post.
Proof. exact alter_trimpath_shape_bare. Qed.

Print Assumptions C02_trimpath_tempdir_first_bare.
Print Assumptions C02_everything_else_is_hashed.
Print Assumptions C02_hashed_names_are_digest_text.
Print Assumptions C02_link_flags_strip.
Print Assumptions C02_trimpath_tempdir_first.
