(* C14 — GOGARBLE selects exactly which packages are obfuscated. *)
From Coq Require Import String.
From Verif Require Import Base.Bytes Model.Flags Model.Names Model.Scope Proofs.ScopeProofs.
From Verif Require Gen.StdTables.
Open Scope N_scope.

Definition rad := Gen.StdTables.runtime_and_deps.

(* the runtime and its dependencies are never obfuscated, whatever GOGARBLE says ... *)
Theorem C14_runtime_never : forall g p, mem (decision_path p) rad = true -> to_obfuscate rad g p = false.
Proof. exact (runtime_never rad). Qed.

(* ... and garble's table covers what the toolchain in use reports as runtime's dependencies *)
Theorem C14_runtime_table_covers_toolchain :
  forallb (fun p => mem p rad) Gen.StdTables.actual_runtime_deps = true.
Proof. vm_compute. reflexivity. Qed.

(* outside the fixed exclusions/inclusions a package is obfuscated exactly when GOGARBLE matches
   its import path (for test variants: the path of the package under test) *)
Theorem C14_selects_exactly : forall g p,
  never_obfuscated rad (decision_path p) = false -> p_nfiles p <> O ->
  always_obfuscated p (decision_path p) = false ->
  to_obfuscate rad g p = match_prefix_patterns g (decision_path p).
Proof. exact (selects_exactly rad). Qed.

(* pattern semantics: the matcher is the relational glob; the default "*" matches every path; a
   plain path selects exactly that package and the packages below it (a/b does not select a/bc) *)
Theorem C14_glob_spec : forall p s, glob p s = true <-> Glob p s.
Proof. exact glob_spec. Qed.
Theorem C14_default_matches_all : forall t, match_prefix_patterns [STAR] t = true.
Proof. exact default_matches_all. Qed.
Theorem C14_literal_pattern_selects_subtree : forall g t,
  literal_pattern g = true -> g <> [] ->
  (match_prefix_patterns g t = true <-> t = g \/ exists rest, t = g ++ SLASH :: rest).
Proof. exact literal_pattern_selects_subtree. Qed.

(* a package that is not selected keeps its package name and import path verbatim *)
Theorem C14_plain_untouched : forall keep c p e,
  to_obfuscate rad (c_gogarble c) p = false ->
  obf_pkg_name rad c p e = p_name p /\
  (obf_import_path rad keep c p = p_import_path p \/ obf_import_path rad keep c p = s_main).
Proof. exact (plain_untouched rad). Qed.

(* a pattern list that selects nothing being built is an error, unless it names the runtime *)
Theorem C14_nothing_matches_error : forall g pkgs,
  matches_nothing_error rad g pkgs = true <->
  (forall p, In p pkgs -> to_obfuscate rad g p = false) /\ match_prefix_patterns g s_runtime = false.
Proof. exact (nothing_matches_error_iff rad). Qed.

(* non-vacuity *)
Example C14_example :
  match_prefix_patterns (s2b "example.com/a/b,other/*") (s2b "example.com/a/b/c") = true /\
  match_prefix_patterns (s2b "example.com/a/b,other/*") (s2b "example.com/a/bc") = false /\
  match_prefix_patterns (s2b "example.com/a/b,other/*") (s2b "other/x/y") = true.
Proof. vm_compute. repeat split. Qed.

Print Assumptions C14_runtime_never.
Print Assumptions C14_runtime_table_covers_toolchain.
Print Assumptions C14_selects_exactly.
Print Assumptions C14_glob_spec.
Print Assumptions C14_default_matches_all.
Print Assumptions C14_literal_pattern_selects_subtree.
Print Assumptions C14_plain_untouched.
Print Assumptions C14_nothing_matches_error.
