(* C16 — Obfuscated names are well-formed, export-preserving and stable.
   Only statements + `exact lemma` + Print Assumptions live here. *)
From Verif Require Import Base.Bytes Base.Sha256 Base.Base64 Model.Names Proofs.NamesProofs.
From Verif Require Gen.HashConsts.
Open Scope N_scope.

(* the model's constants are the ones hash.go declares now (regenerated every run) *)
Theorem C16_consts_tie :
  Gen.HashConsts.minHashLength = min_hash_length /\
  Gen.HashConsts.maxHashLength = max_hash_length /\
  Gen.HashConsts.neededSumBytes = N.of_nat needed_sum_bytes /\
  Gen.HashConsts.buildIDHashLength = N.of_nat build_id_hash_length.
Proof. repeat split; reflexivity. Qed.

(* every obfuscated name, for every salt, seed and original name (any bytes at all): 6..12
   characters of [A-Za-z0-9_], not starting with a digit *)
Theorem C16_name_valid : forall salt seed name i e,
  valid_name (hash_custom salt seed name i e) = true.
Proof. exact hash_custom_valid. Qed.

(* exported exactly when the original identifier was exported *)
Theorem C16_export_preserved : forall salt seed name e,
  is_upper (first_char (hash_custom salt seed name true e)) = e.
Proof. exact hash_custom_export. Qed.

(* pure function of (salt, seed, name): immediate in Gallina; stated for the record *)
Theorem C16_pure : forall salt seed name i e salt' seed' name',
  salt ++ seed ++ name = salt' ++ seed' ++ name' ->
  hash_custom salt seed name i e = hash_custom salt' seed' name' i e.
Proof. intros. unfold hash_custom. congruence. Qed.

(* a clash of two names needs the two SHA-256 sums to pick the same length and to agree on every
   6-bit symbol after the first, up to the single merged pair {'a','-'} *)
Theorem C16_collision_requires_prefix_collision : forall s1 s2 i e,
  length s1 = 32%nat -> length s2 = 32%nat -> bytes_ok s1 = true -> bytes_ok s2 = true ->
  name_of_sum s1 i e = name_of_sum s2 i e ->
  hash_length s1 = hash_length s2 /\
  Forall2 (fun a b => tail_equivb a b = true) (tl (name_sextets s1)) (tl (name_sextets s2)).
Proof. exact collision_requires_prefix_collision. Qed.

(* ... and the first symbol is one of at most four that print alike *)
Theorem C16_head_classes_small : head_table_ok = true.
Proof. exact head_classes_small. Qed.

(* sums fed to name_of_sum by hash_custom meet the hypotheses above *)
Theorem C16_sha_shape : forall m, length (sha256 m) = 32%nat /\ bytes_ok (sha256 m) = true.
Proof. intro m; split; [exact (sha256_length m) | exact (sha256_bytes_ok m)]. Qed.

(* non-vacuity: a concrete exported and unexported name *)
Example C16_example :
  hash_custom [97;98] [] [70;111;111] true true = [69;112;69;65;67;74;103;109;82;52;115].
Proof. vm_compute. reflexivity. Qed.

Print Assumptions C16_consts_tie.
Print Assumptions C16_name_valid.
Print Assumptions C16_export_preserved.
Print Assumptions C16_pure.
Print Assumptions C16_collision_requires_prefix_collision.
Print Assumptions C16_head_classes_small.
Print Assumptions C16_sha_shape.
