(* C04 — garble reverse restores obfuscated traces exactly. *)
From Verif Require Import Base.Bytes Model.Position Proofs.PositionProofs.
Open Scope N_scope.

(* text containing nothing obfuscated passes through byte for byte, whatever its line endings, and
   is reported as not modified (exit status 1) *)
Theorem C04_passthrough : forall pairs text,
  forallb (fun l => negb (key_occurs pairs l)) (split_lines text []) = true ->
  reverse_content pairs text = (text, false).
Proof. exact reverse_content_passthrough. Qed.

(* a key at the current position is replaced by the value of the first matching pair, and
   replacement continues after the key *)
Theorem C04_replace_front : forall pairs s k v,
  first_match pairs s = Some (k, v) -> naive_replace pairs s = v ++ naive_replace pairs (skipn (length k) s).
Proof. exact naive_replace_front. Qed.

(* "F.go:1" is listed before its own prefix "F.go", so a trace line gets path/file.go:LINE and not
   path/file.go:1 *)
Theorem C04_position_pair_priority : forall f pos file rest, f <> [] ->
  first_match [(f ++ [58; 49], pos); (f, file)] (f ++ [58; 49] ++ rest) = Some (f ++ [58; 49], pos).
Proof. exact position_pair_priority. Qed.

(* every identifier node that prints as an IDENT token has exactly one entry: the i-th token gets
   the i-th node's directive (with the dot of dot imports skipped, as the fixed code does) *)
Theorem C04_ident_alignment : forall nodes next, length (call_offsets true nodes next) = ident_tokens nodes.
Proof. exact alignment_with_dot_skipped. Qed.
Theorem C04_alignment_refuted_without_skip :
  exists nodes, length (call_offsets false nodes None) <> ident_tokens nodes.
Proof. exact alignment_refuted_without_skip. Qed.

(* a call whose head sits on one line is reversed to the line the regular build prints ... *)
Theorem C04_reverse_roundtrip_single_line : forall c,
  paren_line c = head_line c -> reversed_line c = Some (paren_line c).
Proof. exact reverse_roundtrip_single_line. Qed.
(* ... and the full statement is false for call heads spanning lines (known finding F5) *)
Theorem C04_reverse_multiline_refuted :
  exists c, head_line c < paren_line c /\ reversed_line c <> Some (paren_line c).
Proof. exact reverse_multiline_refuted. Qed.

Print Assumptions C04_passthrough.
Print Assumptions C04_replace_front.
Print Assumptions C04_position_pair_priority.
Print Assumptions C04_ident_alignment.
Print Assumptions C04_alignment_refuted_without_skip.
Print Assumptions C04_reverse_roundtrip_single_line.
Print Assumptions C04_reverse_multiline_refuted.
