(* C07 — Missing or damaged cache entries are recomputed, never trusted. *)
From Verif Require Import Base.Bytes Model.PkgCache Proofs.PkgCacheProofs.

(* one entry, any sequence of deletions, emptyings and truncations of its index and data file:
   the reader answers "miss" or returns the complete original bytes, never anything else *)
Theorem C07_get_file_sound : forall orig fs,
  let e := fold_left apply_fault fs (put orig) in get_file e = Miss \/ get_file e = Hit orig.
Proof. exact get_file_sound. Qed.
Theorem C07_get_file_hit : forall orig, get_file (put orig) = Hit orig.
Proof. exact get_file_hit. Qed.

(* the reflection information garble loads for a package is the same whatever subset of the
   (correct) entries is present: for every import graph, every package, every cache state *)
Theorem C07_load_independent_of_cache :
  forall (A : Type) (base : A) (merge : A -> A -> A) (own : nat -> A -> A)
         (imports : nat -> list nat) (reflectp : nat -> bool) (rank : nat -> nat),
  (forall a, merge a base = a) ->
  (forall p i, In i (imports p) -> (rank i < rank p)%nat) ->
  forall n s p, (rank p < n)%nat -> correct A base merge own imports reflectp rank s ->
  fst (load A base merge own imports reflectp n s p) = spec A base merge own imports reflectp n p /\
  correct A base merge own imports reflectp rank (snd (load A base merge own imports reflectp n s p)).
Proof. intros. apply load_independent_of_cache; assumption. Qed.

Print Assumptions C07_get_file_sound.
Print Assumptions C07_get_file_hit.
Print Assumptions C07_load_independent_of_cache.
