(* C13 — garble map, the build and garble reverse agree on every name. *)
From Verif Require Import Base.Bytes Model.Flags Model.Names Model.Scope Model.Rename Proofs.RenameProofs.
Open Scope N_scope.

(* the name of an object: one function of the object's own descriptor and its declaring package's
   salt; there is no argument for "who is asking" (build of the declaring package, build of an
   importer, map, reverse), so all of them compute the same name *)
Definition obf_name (intr : list (str * list str)) (to_obf : str -> bool) (c : gcfg)
           (aid_of : str -> bytes) (shape : N) (d : objd) : str :=
  match decide intr to_obf d with
  | Keep => o_name d
  | HashPkg => hash_with_package c (o_pkg d) (aid_of (o_pkg d)) (o_name d) true (o_exported d)
  | HashStruct => hash_with_struct c shape (o_name d) (o_exported d)
  end.

Theorem C13_decision_is_one_function : forall intr to_obf c aid_of shape d1 d2,
  d1 = d2 -> obf_name intr to_obf c aid_of shape d1 = obf_name intr to_obf c aid_of shape d2.
Proof. intros; subst; reflexivity. Qed.

(* references keep resolving to the same objects under any renaming that separates the visible
   names exactly as the original names did (the "no hash collision within a scope" caveat) *)
Theorem C13_rename_preserves_resolution : forall (obj : Type) (rn : obj -> str) (c : list (scope obj)) n o,
  no_clash rn c -> resolve c n = Some o -> resolve (rename_chain rn c) (rn o) = Some o.
Proof. exact rename_preserves_resolution. Qed.

(* map lists decl names: in the model the listing is [obf_name] of each listed object, and the
   build writes [obf_name] at the declaration *)
Definition map_entry intr to_obf c aid_of shape (d : objd) : option str :=
  match decide intr to_obf d with Keep => None | _ => Some (obf_name intr to_obf c aid_of shape d) end.
Theorem C13_map_equals_build_model : forall intr to_obf c aid_of shape d n,
  map_entry intr to_obf c aid_of shape d = Some n -> n = obf_name intr to_obf c aid_of shape d.
Proof. intros * H. unfold map_entry in H. destruct (decide intr to_obf d); congruence. Qed.

(* reverse: a replacement table that contains (obf_name d, o_name d) maps the listed name back
   when the line is exactly that name (general lines: C04's replacer theorems) *)
Definition reverse_lookup (tbl : list (str * str)) (s : str) : str :=
  match find (fun p => beq (fst p) s) tbl with Some p => snd p | None => s end.
Theorem C13_reverse_inverts_listed : forall tbl g n,
  In (g, n) tbl -> (forall g' n', In (g', n') tbl -> g' = g -> n' = n) -> reverse_lookup tbl g = n.
Proof.
  intros tbl g n Hin Hfun. unfold reverse_lookup.
  destruct (find (fun p => beq (fst p) g) tbl) as [[g' n']|] eqn:E.
  - apply find_some in E as [Hi Hb]. cbn in Hb. apply beq_eq in Hb. cbn. apply (Hfun g' n' Hi Hb).
  - exfalso. apply (find_none _ _ E) in Hin. cbn in Hin. rewrite beq_refl in Hin. discriminate.
Qed.

Print Assumptions C13_decision_is_one_function.
Print Assumptions C13_rename_preserves_resolution.
Print Assumptions C13_map_equals_build_model.
Print Assumptions C13_reverse_inverts_listed.
