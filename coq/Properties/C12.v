(* C12 — Name salting: fixed by -seed, otherwise tied to the build inputs. *)
From Verif Require Import Base.Bytes Base.Sha256 Base.Base64 Model.Names Proofs.NamesProofs.
Open Scope N_scope.

(* With -seed: a name depends only on the seed, the identifier and its package path; every other
   input (flags, GOGARBLE, garble binary, Go action IDs = source, tags, platform, toolchain) is free *)
Theorem C12_seeded_name_depends_only_on : forall c1 c2 path aid1 aid2 name i e,
  c_seed c1 = c_seed c2 -> seed_present c1 = true ->
  hash_with_package c1 path aid1 name i e = hash_with_package c2 path aid2 name i e.
Proof. exact seeded_name_depends_only_on. Qed.

(* ... and for struct fields only on the seed, the field name and the struct's shape *)
Theorem C12_seeded_field_depends_only_on : forall c1 c2 shape f e,
  c_seed c1 = c_seed c2 -> seed_present c1 = true ->
  hash_with_struct c1 shape f e = hash_with_struct c2 shape f e.
Proof. exact seeded_field_depends_only_on. Qed.

(* another seed (of the same length), package or identifier gives another SHA-256 input, so the
   names differ unless SHA-256 collides on the prefix C16 characterises *)
Theorem C12_seeded_input_injective : forall p1 p2 s1 s2 n1 n2,
  no_byte 124 p1 = true -> no_byte 124 p2 = true -> length s1 = length s2 ->
  (p1 ++ [124]) ++ s1 ++ n1 = (p2 ++ [124]) ++ s2 ++ n2 -> p1 = p2 /\ s1 = s2 /\ n1 = n2.
Proof. exact seeded_input_injective. Qed.

(* Without -seed the package salt is SHA-256 of an input that is injective in the Go action ID
   (source, tags, platform, Go version), the garble binary ID, GOGARBLE and the garble flags *)
Theorem C12_unseeded_input_injective : forall h1 h2 c1 c2,
  seedless c1 -> seedless c2 ->
  length h1 = length h2 -> length (c_binary_id c1) = length (c_binary_id c2) ->
  no_byte 32 (c_gogarble c1) = true -> no_byte 32 (c_gogarble c2) = true ->
  garble_hash_input h1 c1 = garble_hash_input h2 c2 ->
  h1 = h2 /\ c_binary_id c1 = c_binary_id c2 /\ c_gogarble c1 = c_gogarble c2 /\ flag_combo c1 = flag_combo c2.
Proof. exact unseeded_input_injective. Qed.

(* unseeded field names: salted with the shape and garble's own inputs, not with any action ID
   (the definition has no action-ID argument); the same injectivity applies to its input *)
Theorem C12_unseeded_field_salt : forall c shape,
  seed_present c = false -> struct_salt c shape = sha256 (garble_hash_input (base32 shape) c).
Proof. intros c shape H. unfold struct_salt, add_garble_to_hash. rewrite H. reflexivity. Qed.

(* the documented weakness of the encoding: a space inside GOGARBLE makes it ambiguous *)
Theorem C12_hash_input_ambiguous_refuted :
  exists h c1 c2, flag_combo c1 <> flag_combo c2 /\ garble_hash_input h c1 = garble_hash_input h c2.
Proof. exact hash_input_ambiguous_refuted. Qed.

Print Assumptions C12_seeded_name_depends_only_on.
Print Assumptions C12_seeded_field_depends_only_on.
Print Assumptions C12_seeded_input_injective.
Print Assumptions C12_unseeded_input_injective.
Print Assumptions C12_unseeded_field_salt.
Print Assumptions C12_hash_input_ambiguous_refuted.
