(* internal/ctrlflow/transform.go: the four passes (addTrashBlockMarkers, applySplitting,
   addJunkBlocks, applyFlattening) as transformations of a control-flow graph, with ssa2ast's reading
   of a graph as the semantics: a block runs its instructions, then the assignments that the phi nodes
   of its successors place at its end (both are in [body]), then its terminator.  Instructions and
   branch conditions of the obfuscated function are opaque (Section variables interpret them), so the
   theorems hold for every function body; assignments of constants to phi variables and comparisons
   of a phi variable with a constant - all that the passes themselves add - are interpreted.
   Definitions only. *)
From Verif Require Import Base.Bytes.
Open Scope N_scope.

Inductive cmp6 := OEq | ONe | OLt | OLe | OGt | OGe.
Definition cmp6_eval (o : cmp6) (a b : N) : bool :=
  match o with
  | OEq => a =? b | ONe => negb (a =? b) | OLt => a <? b | OLe => a <=? b | OGt => b <? a | OGe => b <=? a
  end.

Inductive instr := IOrig (a : nat) | ISet (x : nat) (k : N).
Inductive condx := COrig (c : nat) | CVar (x : nat) (o : cmp6) (k : N).
Inductive term := TJump (t : nat) | TIf (c : condx) (t f : nat) | TRet (r : nat) | TPanic (r : nat).
Record block := { body : list instr; bterm : term }.
Definition cfg := list block.          (* a block's id is its index *)

(* the phi variables introduced by the passes *)
Definition env := nat -> N.
Definition upd (e : env) (x : nat) (k : N) : env := fun y => if Nat.eqb y x then k else e y.
Definition env0 : env := fun _ => 0.

Section Sem.
  Variable S : Type.                         (* the function's variables, heap, output so far, ... *)
  Variable act : nat -> S -> S.              (* original instruction a *)
  Variable cond : nat -> S -> bool.          (* original branch condition c *)

  Definition state := (nat * env * S)%type.

  Definition run_instr (es : env * S) (i : instr) : env * S :=
    match i with IOrig a => (fst es, act a (snd es)) | ISet x k => (upd (fst es) x k, snd es) end.
  Definition run_body (l : list instr) (es : env * S) : env * S := fold_left run_instr l es.
  Definition eval_cond (c : condx) (e : env) (s : S) : bool :=
    match c with COrig x => cond x s | CVar x o k => cmp6_eval o (e x) k end.

  (* Halt r p s: left through return/panic instruction r (p = it is a panic) with program state s *)
  Inductive outcome := Next (st : state) | Halt (r : nat) (p : bool) (s : S) | Stuck.

  Definition step (g : cfg) (st : state) : outcome :=
    let '(pc, e, s) := st in
    match nth_error g pc with
    | None => Stuck
    | Some b =>
        let es := run_body (body b) (e, s) in
        match bterm b with
        | TJump t => Next (t, fst es, snd es)
        | TIf c t f => Next ((if eval_cond c (fst es) (snd es) then t else f), fst es, snd es)
        | TRet r => Halt r false (snd es)
        | TPanic r => Halt r true (snd es)
        end
    end.

  Fixpoint run (g : cfg) (fuel : nat) (st : state) : option (nat * bool * S) :=
    match fuel with
    | O => None
    | Datatypes.S f =>
        match step g st with
        | Next st' => run g f st'
        | Halt r p s => Some (r, p, s)
        | Stuck => None
        end
    end.
End Sem.

(* ---- graph plumbing *)
Definition succs (t : term) : list nat :=
  match t with TJump t => [t] | TIf _ t f => [t; f] | _ => [] end.
Definition set_succ (t : term) (slot n : nat) : term :=
  match t, slot with
  | TJump _, O => TJump n
  | TIf c _ f, O => TIf c n f
  | TIf c t _, Datatypes.S O => TIf c t n
  | other, _ => other
  end.
Fixpoint modify (g : cfg) (i : nat) (f : block -> block) : cfg :=
  match g, i with
  | [], _ => []
  | b :: r, O => f b :: r
  | b :: r, Datatypes.S i' => b :: modify r i' f
  end.

(* every target is a block *)
Definition wf (g : cfg) : bool :=
  forallb (fun b => forallb (fun t => Nat.ltb t (length g)) (succs (bterm b))) g.
(* phi variable x does not occur *)
Definition instr_uses (x : nat) (i : instr) : bool := match i with ISet y _ => Nat.eqb y x | IOrig _ => false end.
Definition cond_uses (x : nat) (t : term) : bool := match t with TIf (CVar y _ _) _ _ => Nat.eqb y x | _ => false end.
Definition unused (x : nat) (g : cfg) : bool :=
  forallb (fun b => negb (existsb (instr_uses x) (body b)) && negb (cond_uses x (bterm b))) g.

(* ---- addJunkBlocks, one iteration: successor [slot] of block [src] goes through a new block
        that only jumps on *)
Definition add_jump (g : cfg) (src slot : nat) : cfg :=
  match nth_error g src with
  | Some b =>
      match nth_error (succs (bterm b)) slot with
      | Some old => modify g src (fun b => {| body := body b; bterm := set_succ (bterm b) slot (length g) |})
                    ++ [{| body := []; bterm := TJump old |}]
      | None => g
      end
  | None => g
  end.

(* ---- addTrashBlockMarkers, one iteration: successor [slot] of [src] goes through a new block
        that compares a fresh phi variable (assigned the constant a at the end of src, its only
        predecessor) with the constant k and enters the trash block only if  a o k *)
Definition add_trash (g : cfg) (src slot y : nat) (a : N) (o : cmp6) (k : N) (trash : list instr) : cfg :=
  match nth_error g src with
  | Some b =>
      match nth_error (succs (bterm b)) slot with
      | Some old => modify g src (fun b => {| body := body b ++ [ISet y a]; bterm := set_succ (bterm b) slot (length g) |})
                    ++ [{| body := []; bterm := TIf (CVar y o k) (Datatypes.S (length g)) old |};
                        {| body := trash; bterm := TJump (Datatypes.S (length g)) |}]
      | None => g
      end
  | None => g
  end.

(* ---- applySplitting: block j keeps its first k instructions and jumps to a new block that has
        the rest (including the assignments for its successors' phis) and the old terminator *)
Definition split_block (g : cfg) (j k : nat) : cfg :=
  match nth_error g j with
  | Some b => modify g j (fun b => {| body := firstn k (body b); bterm := TJump (length g) |})
              ++ [{| body := skipn k (body b); bterm := bterm b |}]
  | None => g
  end.

(* ---- applyFlattening with dispatcher phi variable x; [start] is the function's entry block.
        ids: old blocks 0..n-1, fake blocks n..n+m-1, if-blocks n+m..n+2m-1, dispatcher entry n+2m *)
Definition edges_of (b : block) : list nat := succs (bterm b).
Definition all_edges (g : cfg) : list nat := flat_map edges_of g.
Definition edge_offset (g : cfg) (j : nat) : nat := length (all_edges (firstn j g)).

Definition rewrite_term (n off : nat) (t : term) : term :=
  match t with
  | TJump _ => TJump (n + off)
  | TIf c _ _ => TIf c (n + off) (n + Datatypes.S off)
  | other => other
  end.
Fixpoint rewrite_blocks (n off : nat) (g : cfg) : cfg :=
  match g with
  | [] => []
  | b :: r => {| body := body b; bterm := rewrite_term n off (bterm b) |}
              :: rewrite_blocks n (off + length (edges_of b)) r
  end.

Definition flatten (x : nat) (keys : list N) (start : nat) (g : cfg) : cfg :=
  let n := length g in
  let es := all_edges g in
  let m := length es in
  rewrite_blocks n 0 g
  ++ map (fun k => {| body := [ISet x (nth k keys 0)]; bterm := TJump (n + 2 * m) |}) (seq 0 m)
  ++ map (fun k => {| body := [];
                      bterm := TIf (CVar x OEq (nth k keys 0)) (nth k es 0%nat)
                                   (if Nat.ltb (Datatypes.S k) m then n + m + Datatypes.S k else start)%nat |}) (seq 0 m)
  ++ [{| body := []; bterm := TJump (n + m) |}].
Definition flat_entry (g : cfg) : nat := (length g + 2 * length (all_edges g))%nat.

(* ---- the shuffle at the end of applyFlattening: block i moves to position sigma[i] *)
Fixpoint index_of (j : nat) (sigma : list nat) : nat :=
  match sigma with [] => O | x :: r => if Nat.eqb x j then O else Datatypes.S (index_of j r) end.
Definition rename_term (sigma : list nat) (t : term) : term :=
  match t with
  | TJump t => TJump (nth t sigma 0%nat)
  | TIf c t f => TIf c (nth t sigma 0%nat) (nth f sigma 0%nat)
  | other => other
  end.
Definition renumber (sigma : list nat) (g : cfg) : cfg :=
  map (fun j => match nth_error g (index_of j sigma) with
                | Some b => {| body := body b; bterm := rename_term sigma (bterm b) |}
                | None => {| body := []; bterm := TPanic 0 |}
                end) (seq 0 (length g)).
Fixpoint nodup_nat (l : list nat) : bool :=
  match l with [] => true | x :: r => negb (existsb (Nat.eqb x) r) && nodup_nat r end.
Definition perm_okb (sigma : list nat) (g : cfg) : bool :=
  Nat.eqb (length sigma) (length g) && forallb (fun j => Nat.ltb j (length g)) sigma && nodup_nat sigma.

(* ---- deciders used by the correspondence check on graphs dumped from the implementation *)
Definition cmp6_eqb (a b : cmp6) : bool :=
  match a, b with OEq, OEq | ONe, ONe | OLt, OLt | OLe, OLe | OGt, OGt | OGe, OGe => true | _, _ => false end.
Definition instr_eqb (a b : instr) : bool :=
  match a, b with
  | IOrig x, IOrig y => Nat.eqb x y
  | ISet x k, ISet y k' => Nat.eqb x y && (k =? k')
  | _, _ => false
  end.
Definition condx_eqb (a b : condx) : bool :=
  match a, b with
  | COrig x, COrig y => Nat.eqb x y
  | CVar x o k, CVar y o' k' => Nat.eqb x y && cmp6_eqb o o' && (k =? k')
  | _, _ => false
  end.
Definition term_eqb (a b : term) : bool :=
  match a, b with
  | TJump x, TJump y => Nat.eqb x y
  | TIf c t f, TIf c' t' f' => condx_eqb c c' && Nat.eqb t t' && Nat.eqb f f'
  | TRet x, TRet y => Nat.eqb x y
  | TPanic x, TPanic y => Nat.eqb x y
  | _, _ => false
  end.
Fixpoint list_eqb {A} (eqb : A -> A -> bool) (a b : list A) : bool :=
  match a, b with
  | [], [] => true
  | x :: a', y :: b' => eqb x y && list_eqb eqb a' b'
  | _, _ => false
  end.
Definition block_eqb (a b : block) : bool := list_eqb instr_eqb (body a) (body b) && term_eqb (bterm a) (bterm b).
Definition cfg_eqb (a b : cfg) : bool := list_eqb block_eqb a b.

Fixpoint nodupb (l : list N) : bool :=
  match l with [] => true | x :: r => negb (existsb (N.eqb x) r) && nodupb r end.

(* one pass with the parameters the implementation chose (read off its output) *)
Inductive pass :=
| PJump (src slot : nat)
| PTrash (src slot y : nat) (a : N) (o : cmp6) (k : N) (trash : list instr)
| PSplit (j k : nat)
| PFlatten (x : nat) (keys : list N)
| PShuffle (sigma : list nat).

(* graph and entry block *)
Definition apply_pass (p : pass) (gs : cfg * nat) : cfg * nat :=
  let '(g, start) := gs in
  match p with
  | PJump src slot => (add_jump g src slot, start)
  | PTrash src slot y a o k trash => (add_trash g src slot y a o k trash, start)
  | PSplit j k => (split_block g j k, start)
  | PFlatten x keys => (flatten x keys start g, flat_entry g)
  | PShuffle sigma => (renumber sigma g, nth start sigma 0%nat)
  end.

(* the hypotheses of the pass's equivalence theorem, decided *)
Definition pass_okb (p : pass) (gs : cfg * nat) : bool :=
  let '(g, start) := gs in
  wf g && Nat.ltb start (length g) &&
  match p with
  | PJump src slot => true
  | PTrash src slot y a o k trash => unused y g && negb (cmp6_eval o a k)
  | PSplit j k => true
  | PFlatten x keys =>
      let m := length (all_edges g) in
      unused x g && Nat.ltb 0 m && Nat.leb m (length keys) && nodupb (firstn m keys) && forallb (fun k => negb (k =? 0)) (firstn m keys)
  | PShuffle sigma => perm_okb sigma g
  end.

Fixpoint apply_passes (ps : list pass) (gs : cfg * nat) : cfg * nat :=
  match ps with [] => gs | p :: r => apply_passes r (apply_pass p gs) end.
Fixpoint passes_okb (ps : list pass) (gs : cfg * nat) : bool :=
  match ps with [] => true | p :: r => pass_okb p gs && passes_okb r (apply_pass p gs) end.
