(* internal/ctrlflow/transform.go: applyFlattening as a transformation of a control-flow graph, with
   ssa2ast's reading of the result as the semantics: a block runs its body, then the assignments
   its successors' phi nodes place at its end, then its terminator.  Bodies and branch conditions
   are opaque (a Section variable interprets them), so the theorems hold for every function body.
   Definitions only. *)
From Verif Require Import Base.Bytes.
Open Scope N_scope.

Inductive action := AOrig (a : nat) | ASetKey (k : N) | ANone.
Inductive condx := COrig (c : nat) | CKeyEq (k : N).
Inductive term := TJump (t : nat) | TIf (c : condx) (t f : nat) | TRet | TPanic.
Record block := { baction : action; bterm : term }.
Definition cfg := list block.

Section Sem.
  Variable S : Type.                         (* the function's variables, heap, output so far, ... *)
  Variable act : nat -> S -> S.              (* body of original block a, including its phi assignments *)
  Variable cond : nat -> S -> bool.          (* branch condition of original block c *)

  (* program counter, dispatcher variable, program state *)
  Definition state := (nat * N * S)%type.

  Definition run_action (a : action) (v : N) (s : S) : N * S :=
    match a with AOrig x => (v, act x s) | ASetKey k => (k, s) | ANone => (v, s) end.
  Definition eval_cond (c : condx) (v : N) (s : S) : bool :=
    match c with COrig x => cond x s | CKeyEq k => v =? k end.

  Inductive outcome := Next (st : state) | Halt (pc : nat) (s : S) | Stuck.

  Definition step (g : cfg) (st : state) : outcome :=
    let '(pc, v, s) := st in
    match nth_error g pc with
    | None => Stuck
    | Some b =>
        let '(v', s') := run_action (baction b) v s in
        match bterm b with
        | TJump t => Next (t, v', s')
        | TIf c t f => Next ((if eval_cond c v' s' then t else f), v', s')
        | TRet | TPanic => Halt pc s'
        end
    end.

  (* run for at most [fuel] blocks; the result is the block the function left from and the final
     program state (which contains every side effect in order) *)
  Fixpoint run (g : cfg) (fuel : nat) (st : state) : option (nat * S) :=
    match fuel with
    | O => None
    | Datatypes.S f =>
        match step g st with
        | Next st' => run g f st'
        | Halt pc s => Some (pc, s)
        | Stuck => None
        end
    end.
End Sem.

(* ---- the transformation *)
Definition edges_of (b : block) : list nat :=
  match bterm b with TJump t => [t] | TIf _ t f => [t; f] | _ => [] end.
Definition all_edges (g : cfg) : list nat := flat_map edges_of g.

(* number of edges in the blocks before block j *)
Definition edge_offset (g : cfg) (j : nat) : nat := length (all_edges (firstn j g)).

Definition rewrite_term (n off : nat) (t : term) : term :=
  match t with
  | TJump _ => TJump (n + off)
  | TIf c _ _ => TIf c (n + off) (n + Datatypes.S off)
  | other => other
  end.

Fixpoint rewrite_blocks (n off : nat) (g : cfg) : cfg :=
  match g with
  | [] => []
  | b :: r => {| baction := baction b; bterm := rewrite_term n off (bterm b) |}
              :: rewrite_blocks n (off + length (edges_of b)) r
  end.

(* ids: originals 0..n-1, fake blocks n..n+m-1, if-blocks n+m..n+2m-1, dispatcher entry n+2m *)
Definition flatten (keys : list N) (g : cfg) : cfg :=
  let n := length g in
  let es := all_edges g in
  let m := length es in
  rewrite_blocks n 0 g
  ++ map (fun k => {| baction := ASetKey (nth k keys 0); bterm := TJump (n + 2 * m) |}) (seq 0 m)
  ++ map (fun k => {| baction := ANone;
                      bterm := TIf (CKeyEq (nth k keys 0)) (nth k es 0%nat)
                                   (if Nat.ltb (Datatypes.S k) m then n + m + Datatypes.S k else 0)%nat |}) (seq 0 m)
  ++ [{| baction := ANone; bterm := TJump (n + m) |}].

Definition flat_entry (g : cfg) : nat := (length g + 2 * length (all_edges g))%nat.

(* the original graph uses original actions/conditions only and every target is a block *)
Definition orig_block (n : nat) (b : block) : bool :=
  (match baction b with AOrig _ => true | _ => false end) &&
  (match bterm b with
   | TJump t => Nat.ltb t n
   | TIf (COrig _) t f => Nat.ltb t n && Nat.ltb f n
   | TIf (CKeyEq _) _ _ => false
   | _ => true
   end).
Definition wf (g : cfg) : bool := forallb (orig_block (length g)) g && Nat.ltb 0 (length g).

(* ---- deciders used by the correspondence check on graphs dumped from the implementation *)
Definition action_eqb (a b : action) : bool :=
  match a, b with
  | AOrig x, AOrig y => Nat.eqb x y
  | ASetKey x, ASetKey y => x =? y
  | ANone, ANone => true
  | _, _ => false
  end.
Definition condx_eqb (a b : condx) : bool :=
  match a, b with
  | COrig x, COrig y => Nat.eqb x y
  | CKeyEq x, CKeyEq y => x =? y
  | _, _ => false
  end.
Definition term_eqb (a b : term) : bool :=
  match a, b with
  | TJump x, TJump y => Nat.eqb x y
  | TIf c t f, TIf c' t' f' => condx_eqb c c' && Nat.eqb t t' && Nat.eqb f f'
  | TRet, TRet => true
  | TPanic, TPanic => true
  | _, _ => false
  end.
Definition block_eqb (a b : block) : bool := action_eqb (baction a) (baction b) && term_eqb (bterm a) (bterm b).
Fixpoint cfg_eqb (a b : cfg) : bool :=
  match a, b with
  | [], [] => true
  | x :: a', y :: b' => block_eqb x y && cfg_eqb a' b'
  | _, _ => false
  end.

Fixpoint nodupb (l : list N) : bool :=
  match l with [] => true | x :: r => negb (existsb (N.eqb x) r) && nodupb r end.
(* the hypotheses of the equivalence theorem, decided *)
Definition hyps_okb (keys : list N) (g : cfg) : bool :=
  let m := length (all_edges g) in
  wf g && Nat.ltb 0 m && Nat.leb m (length keys) && nodupb (firstn m keys) && forallb (fun k => negb (k =? 0)) (firstn m keys).
