(* The whole of hash.go's naming path as pure functions (definitions only).
   hashWithCustomSalt, hashWithPackage, hashWithStruct's salting, addGarbleToHash, appendFlags,
   seedFlag.Set, obfuscatedImportPath's hashing branch, runtimeHashWithCustomSalt. *)
From Verif Require Import Base.Bytes Base.Sha256 Base.Base64.
Open Scope N_scope.

(* ---- constants of hash.go (checked against the source by translate/consts, Gen/HashConsts.v) *)
Definition min_hash_length : N := 6.
Definition max_hash_length : N := 12.
Definition needed_sum_bytes : nat := 9.
Definition build_id_hash_length : nat := 15.

(* ---- byte classes, as hash.go's isDigit/isLower/isUpper *)
Definition is_digit (b : N) : bool := in_range 48 57 b.
Definition is_lower (b : N) : bool := in_range 97 122 b.
Definition is_upper (b : N) : bool := in_range 65 90 b.
Definition to_lower (b : N) : N := b + 32.
Definition to_upper (b : N) : N := b - 32.

Definition hash_length (sum : bytes) : N :=
  min_hash_length + (nth needed_sum_bytes sum 0) mod (max_hash_length - min_hash_length + 1).

Definition fix_first_digit (l : str) : str :=
  match l with
  | c :: l' => (if is_digit c then c + 17 else c) :: l'   (* 'A' - '0' = 17 *)
  | [] => []
  end.

Definition fix_dash (c : N) : N := if c =? 45 then 97 else c.   (* '-' -> 'a' *)

Definition fix_export (is_ident is_exported : bool) (l : str) : str :=
  match l with
  | c :: l' =>
      (if is_ident then
         if is_exported then
           if c =? 95 then 90                       (* '_' -> 'Z' *)
           else if is_lower c then to_upper c else c
         else if is_upper c then to_lower c else c
       else c) :: l'
  | [] => []
  end.

(* hashWithCustomSalt after the digest: the name as a function of the 32-byte sum *)
Definition name_of_sum (sum : bytes) (is_ident is_exported : bool) : str :=
  let b64 := firstn (N.to_nat (hash_length sum)) (encode_url (firstn needed_sum_bytes sum)) in
  fix_export is_ident is_exported (map fix_dash (fix_first_digit b64)).

Definition hash_custom (salt seed name : bytes) (is_ident is_exported : bool) : str :=
  name_of_sum (sha256 (salt ++ seed ++ name)) is_ident is_exported.

(* ---- ASCII identifiers (token.IsIdentifier / token.IsExported restricted to ASCII;
        for non-ASCII names the two booleans are supplied by go/token itself) *)
Definition is_letter (b : N) : bool := is_lower b || is_upper b || (b =? 95).
Definition ascii_ident (name : str) : bool :=
  match name with
  | c :: l => is_letter c && forallb (fun b => is_letter b || is_digit b) l
  | [] => false
  end.
Definition ascii_exported (name : str) : bool :=
  match name with c :: _ => is_upper c | [] => false end.

(* ---- garble's configuration as far as names depend on it *)
Record gcfg := {
  c_literals : bool;
  c_tiny : bool;
  c_ctrlflow : bool;
  c_seed : bytes;          (* decoded -seed bytes; [] = no seed *)
  c_gogarble : bytes;
  c_binary_id : bytes;     (* garble binary content ID, 15 bytes *)
  c_testobf : bytes        (* literals.TestObfuscator, normally empty *)
}.

Definition s_literals : str := [32;45;108;105;116;101;114;97;108;115].   (* " -literals" *)
Definition s_tiny : str := [32;45;116;105;110;121].                        (* " -tiny" *)
Definition s_seed : str := [32;45;115;101;101;100;61].                     (* " -seed=" *)
Definition s_ctrlflow : str := [32;45;99;116;114;108;102;108;111;119].      (* " -ctrlflow" *)
Definition s_gogarble : str := [32;71;79;71;65;82;66;76;69;61].              (* " GOGARBLE=" *)

Definition seed_present (c : gcfg) : bool := match c_seed c with [] => false | _ => true end.

(* appendFlags(w, true) *)
Definition build_flags (c : gcfg) : bytes :=
  (if c_literals c then s_literals else []) ++
  (if c_tiny c then s_tiny else []) ++
  (if seed_present c then s_seed ++ encode_std (c_seed c) else []) ++
  (if c_ctrlflow c then s_ctrlflow else []) ++
  c_testobf c.

(* addGarbleToHash *)
Definition garble_hash_input (h : bytes) (c : gcfg) : bytes :=
  h ++ c_binary_id c ++ s_gogarble ++ c_gogarble c ++ build_flags c.
Definition add_garble_to_hash (h : bytes) (c : gcfg) : bytes := sha256 (garble_hash_input h c).

(* listedPackage.GarbleActionID from the action-ID half of go list's BuildID *)
Definition garble_action_id (action_id : bytes) (c : gcfg) : bytes := add_garble_to_hash action_id c.

(* hashWithPackage: [aid] is the package's Go action ID (15 bytes) *)
Definition pkg_salt (c : gcfg) (path aid : bytes) : bytes :=
  if seed_present c then path ++ [124] (* "|" *) else garble_action_id aid c.

Definition hash_with_package (c : gcfg) (path aid name : bytes) (is_ident is_exported : bool) : str :=
  hash_custom (pkg_salt c path aid) (c_seed c) name is_ident is_exported.

(* strconv.AppendUint(nil, v, 32): base-32 digits 0-9a-v, no leading zeros, "0" for zero *)
Definition digit32 (d : N) : N := if d <? 10 then 48 + d else 97 + (d - 10).
Fixpoint base32_aux (fuel : nat) (v : N) (acc : str) : str :=
  match fuel with
  | O => acc
  | S f => if v =? 0 then acc else base32_aux f (v / 32) (digit32 (v mod 32) :: acc)
  end.
Definition base32 (v : N) : str := if v =? 0 then [48] else base32_aux 64 v [].

(* hashWithStruct: [shape] is typeutil_hash(struct) as uint32 *)
Definition struct_salt (c : gcfg) (shape : N) : bytes :=
  if seed_present c then base32 shape else add_garble_to_hash (base32 shape) c.
Definition hash_with_struct (c : gcfg) (shape : N) (field : bytes) (is_exported : bool) : str :=
  hash_custom (struct_salt c shape) (c_seed c) field true is_exported.

(* runtimeHashWithCustomSalt: sha256(seed-or-runtime-GarbleActionID ++ salt), little-endian u32 *)
Definition runtime_hash (c : gcfg) (runtime_aid salt : bytes) : N :=
  le32 (sha256 ((if seed_present c then c_seed c else garble_action_id runtime_aid c) ++ salt)).

(* seedFlag.Set for a non-"random" argument: trailing '=' trimmed, RawStdEncoding, >= 8 bytes *)
Fixpoint trim_right_eq_aux (l : str) : str * bool :=   (* (trimmed, all_eq_so_far_from_right) *)
  match l with
  | [] => ([], true)
  | c :: l' =>
      let '(t, alleq) := trim_right_eq_aux l' in
      if alleq && (c =? 61) then ([], true) else (c :: t, false)
  end.
Definition trim_right_eq (l : str) : str := fst (trim_right_eq_aux l).
Definition seed_parse (arg : str) : option bytes :=
  match decode_std (trim_right_eq arg) with
  | Some b => if Nat.ltb (length b) 8 then None else Some b
  | None => None
  end.

(* math/rand seed taken from the first eight bytes (transformer.go: obfRand) *)
Definition rand_seed (id : bytes) : N := be_value (firstn 8 id).
