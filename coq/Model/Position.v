(* Call-site positions (position.go: printFile) and their reversal (reverse.go), plus the
   specification of strings.NewReplacer's generic algorithm that reverse relies on.
   Definitions only. *)
From Verif Require Import Base.Bytes.
Open Scope N_scope.

(* ---- the replacer, as specified: at each position the first pair (in argument order) whose
        non-empty key is a prefix of the remaining input wins; otherwise one byte is copied *)
Fixpoint first_match (pairs : list (str * str)) (s : str) : option (str * str) :=
  match pairs with
  | [] => None
  | (k, v) :: r => if negb (beq k []) && is_prefix k s then Some (k, v) else first_match r s
  end.

Fixpoint naive_replace_fuel (fuel : nat) (pairs : list (str * str)) (s : str) : str :=
  match fuel with
  | O => s
  | S f =>
      match s with
      | [] => []
      | c :: r =>
          match first_match pairs s with
          | Some (k, v) => v ++ naive_replace_fuel f pairs (skipn (length k) s)
          | None => c :: naive_replace_fuel f pairs r
          end
      end
  end.
Definition naive_replace (pairs : list (str * str)) (s : str) : str :=
  naive_replace_fuel (S (length s)) pairs s.

(* some key occurs somewhere in s *)
Fixpoint key_occurs (pairs : list (str * str)) (s : str) : bool :=
  match first_match pairs s with
  | Some _ => true
  | None => match s with [] => false | _ :: r => key_occurs pairs r end
  end.

(* reverseContent: line by line (terminators kept), modified iff some line changed *)
Fixpoint split_lines (s : str) (cur : str) : list str :=
  match s with
  | [] => match cur with [] => [] | _ => [rev cur] end
  | c :: r => if c =? 10 then rev (c :: cur) :: split_lines r [] else split_lines r (c :: cur)
  end.
Definition reverse_content (pairs : list (str * str)) (text : str) : str * bool :=
  let ls := split_lines text [] in
  let outs := map (naive_replace pairs) ls in
  (concat outs, negb (forallb (fun p => beq (fst p) (snd p)) (combine ls outs))).

(* ---- pairing identifier nodes with IDENT tokens (printFile).  An AST is flattened to its
        pre-order sequence of the nodes printFile looks at. *)
Inductive pnode := PCall (offset : N) | PIdent (is_dot : bool).
(* origCallOffsets: one entry per identifier node that prints as an IDENT token *)
Fixpoint call_offsets (skip_dot : bool) (nodes : list pnode) (next : option N) : list (option N) :=
  match nodes with
  | [] => []
  | PCall off :: r => call_offsets skip_dot r (Some off)
  | PIdent dot :: r =>
      if skip_dot && dot then call_offsets skip_dot r next
      else next :: call_offsets skip_dot r None
  end.
(* the printed file has one IDENT token per non-dot identifier node *)
Definition ident_tokens (nodes : list pnode) : nat :=
  length (filter (fun n => match n with PIdent false => true | _ => false end) nodes).

(* ---- line arithmetic of a call head.  The directive /*line F:1*/ is placed before the first
        identifier of the call (on line [head_line] of the original); the compiler reports the
        call at its opening parenthesis (line [paren_line]). *)
Record call_site := { head_line : N; paren_line : N }.
(* what the obfuscated binary prints: F.go:(1 + newlines between directive and parenthesis) *)
Definition obf_line (c : call_site) : N := 1 + (paren_line c - head_line c).
(* reverse knows F.go:1 -> file.go:head_line (the line of node.Pos()) *)
Definition reversed_line (c : call_site) : option N := if obf_line c =? 1 then Some (head_line c) else None.
