(* Reflection support (reflect.go, reflect_abi_code.go).
   (a) the priority scheme of the runtime name replacer (lookup = highest priority among matching
       keys, priorities decrease in argument order, a repeated key keeps its first value);
   (c) the propagation of "this parameter reaches reflection" over a call graph, pass by pass, as
       recordReflection does it, with the order in which functions are visited made explicit.
   Definitions only. *)
From Verif Require Import Base.Bytes Model.Position.
Open Scope N_scope.

(* ---- (a) *)
(* pairs with their priorities: len - i, as _makeGenericReplacer assigns them *)
Fixpoint with_prio (pairs : list (str * str)) : list (str * str * nat) :=
  match pairs with
  | [] => []
  | (k, v) :: r => (k, v, S (length r)) :: with_prio r
  end.
(* lookup: among the keys that are prefixes of s (non-empty), the entry of highest priority *)
Fixpoint best_match (ps : list (str * str * nat)) (s : str) (best : option (str * str * nat)) : option (str * str * nat) :=
  match ps with
  | [] => best
  | (k, v, p) :: r =>
      let better := match best with None => true | Some (_, _, bp) => Nat.ltb bp p end in
      if negb (beq k []) && is_prefix k s && better then best_match r s (Some (k, v, p)) else best_match r s best
  end.
Fixpoint prio_replace_fuel (fuel : nat) (ps : list (str * str * nat)) (s : str) : str :=
  match fuel with
  | O => s
  | S f =>
      match s with
      | [] => []
      | c :: r =>
          match best_match ps s None with
          | Some (k, v, _) => v ++ prio_replace_fuel f ps (skipn (length k) s)
          | None => c :: prio_replace_fuel f ps r
          end
      end
  end.
Definition prio_replace (pairs : list (str * str)) (s : str) : str :=
  prio_replace_fuel (S (length s)) (with_prio pairs) s.

(* ---- (c) *)
Inductive argsrc := AParam (i : nat) | ALocal (ty : N) | AOther.
Definition fname := N.
Record call := { c_callee : fname; c_args : list argsrc }.
Record func := { f_name : fname; f_calls : list call }.

Record rstate := {
  apis : list (fname * list nat);   (* ReflectAPIs: function -> reflected parameter indexes *)
  names : list N;                   (* types recorded as used for reflection *)
  checked : list fname              (* checkedAPIs *)
}.

Fixpoint get_api (a : list (fname * list nat)) (f : fname) : list nat :=
  match a with [] => [] | (g, ps) :: r => if g =? f then ps else get_api r f end.
Fixpoint has_api (a : list (fname * list nat)) (f : fname) : bool :=
  match a with [] => false | (g, _) :: r => (g =? f) || has_api r f end.
Fixpoint add_param (a : list (fname * list nat)) (f : fname) (i : nat) : list (fname * list nat) :=
  match a with
  | [] => [(f, [i])]
  | (g, ps) :: r => if g =? f then (g, if existsb (Nat.eqb i) ps then ps else ps ++ [i]) :: r else (g, ps) :: add_param r f i
  end.
Definition add_name (l : list N) (t : N) : list N := if existsb (N.eqb t) l then l else l ++ [t].
Definition memf (f : fname) (l : list fname) : bool := existsb (N.eqb f) l.

(* one call instruction of function [cur] *)
Definition visit_call (cur : fname) (st : rstate) (c : call) : rstate :=
  if memf (c_callee c) (checked st) then st
  else
    fold_left (fun st k =>
      match nth_error (c_args c) k with
      | Some (AParam i) => {| apis := add_param (apis st) cur i; names := names st; checked := checked st |}
      | Some (ALocal t) => {| apis := apis st; names := add_name (names st) t; checked := checked st |}
      | _ => st
      end) (get_api (apis st) (c_callee c)) st.

Definition visit_func (st : rstate) (f : func) : rstate := fold_left (visit_call (f_name f)) (f_calls f) st.

Definition measure (st : rstate) : nat := length (apis st) + length (names st).

(* one pass: snapshot the not-yet-checked APIs, visit every function in the given order, then
   mark the snapshot as checked *)
Definition pass (fs : list func) (st : rstate) : rstate :=
  let not_checked := filter (fun f => negb (memf f (checked st))) (map fst (apis st)) in
  let st' := fold_left visit_func fs st in
  {| apis := apis st'; names := names st'; checked := checked st' ++ not_checked |}.

(* recordReflection: repeat while the count grows; [orders] gives the visiting order of each pass
   (Go iterates over a map, so any order can occur) *)
Fixpoint analyse (orders : list (list func)) (st : rstate) : rstate :=
  match orders with
  | [] => st
  | o :: r => let st' := pass o st in if Nat.ltb (measure st) (measure st') then analyse r st' else st'
  end.

Definition TYPEOF : fname := 1.
Definition init_state : rstate := {| apis := [(TYPEOF, [0%nat])]; names := []; checked := [] |}.
