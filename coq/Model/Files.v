(* What garble removes and creates (main.go: the -debugdir decision in toolexecCmd, the deferred
   clean-up of the shared temporary directory in mainErr / reverse / map).  Definitions only. *)
From Verif Require Import Base.Bytes.
Open Scope N_scope.

(* ---- the -debugdir target before the run *)
Inductive dstate :=
| DAbsent
| DEmptyDir
| DOwned            (* non-empty, holds the .garble-debugdir sentinel *)
| DForeign          (* non-empty directory without the sentinel *)
| DNotADirectory.   (* a regular file (or anything ReadDir fails on with another error) *)

Inductive daction := ACreate | ARemoveThenCreate | ARefuse.

(* ReadDir: ErrNotExist -> create; no error and no entries -> create; else Lstat(sentinel) ok ->
   RemoveAll + create; else refuse *)
Definition debugdir_decide (s : dstate) : daction :=
  match s with
  | DAbsent => ACreate
  | DEmptyDir => ACreate
  | DOwned => ARemoveThenCreate
  | DForeign => ARefuse
  | DNotADirectory => ARefuse
  end.

(* the contents that exist before and after, abstractly: a set of foreign files *)
Definition removed_by (s : dstate) : bool := match debugdir_decide s with ARemoveThenCreate => true | _ => false end.

(* ---- the shared temporary directory.  [inherited]: GARBLE_SHARED in the environment of the
        top-level command; [created]: the directory saveSharedCache made, if the command got that far *)
Definition dir := N.
Record run := { inherited : option dir; created : option dir; forget_inherited : bool }.

(* the value of os.Getenv("GARBLE_SHARED") when the deferred clean-up runs *)
Definition env_at_cleanup (r : run) : option dir :=
  match created r with
  | Some d => Some d                              (* toolexecCmd did os.Setenv after creating it *)
  | None => if forget_inherited r then None else inherited r
  end.
(* os.RemoveAll("") removes nothing *)
Definition cleanup_removes (r : run) : list dir :=
  match env_at_cleanup r with Some d => [d] | None => [] end.
