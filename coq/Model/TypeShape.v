(* Struct shapes and the field-name salt (hash.go: hashWithStruct; bundled_typeutil.go: the
   *types.Struct case of typeutil_hasher.hash and typeutil_hashString).  Definitions only. *)
From Verif Require Import Base.Bytes Model.Names.
Open Scope N_scope.

Definition u32 : N := 4294967296.

(* typeutil_hashString: h ^= byte; h *= 16777619  (uint32 wrap-around written explicitly) *)
Definition hash_string (s : str) : N :=
  fold_left (fun h c => (N.lxor h c * 16777619) mod u32) s 0.

Section Shape.
  Variable ty : Type.                       (* field types are irrelevant to the hash *)

  Record field := { f_name : str; f_embedded : bool; f_tag : str; f_pkg : str; f_type : ty }.

  (* the *types.Struct case: 9059 + sum_i [embedded_i * 8861 + (1+i) * hash_string name_i] *)
  Fixpoint struct_hash_from (i : N) (acc : N) (fs : list field) : N :=
    match fs with
    | [] => acc
    | f :: r =>
        let acc1 := if f_embedded f then (acc + 8861) mod u32 else acc in
        struct_hash_from (i + 1) ((acc1 + ((1 + i) mod u32) * hash_string (f_name f)) mod u32) r
    end.
  Definition struct_hash (fs : list field) : N := struct_hash_from 0 9059 fs.

  (* Go type identity of struct types, ignoring tags, relative to an identity on field types:
     same field sequence, same names (unexported names also need the same package), same
     embeddedness, identical field types *)
  Variable ty_identical : ty -> ty -> Prop.
  Definition field_identical (f g : field) : Prop :=
    f_name f = f_name g /\ f_embedded f = f_embedded g /\
    (ascii_exported (f_name f) = true \/ f_pkg f = f_pkg g) /\ ty_identical (f_type f) (f_type g).
  Definition struct_identical (a b : list field) : Prop := Forall2 field_identical a b.

  (* the obfuscated name of field number k of a struct, under a configuration *)
  Definition field_obf_name (c : gcfg) (fs : list field) (k : nat) (exported : bool) : str :=
    match nth_error fs k with
    | Some f => hash_with_struct c (struct_hash fs) (f_name f) exported
    | None => []
    end.

  (* substituting type arguments changes field types only *)
  Variable subst : ty -> ty.
  Definition subst_field (f : field) : field :=
    {| f_name := f_name f; f_embedded := f_embedded f; f_tag := f_tag f; f_pkg := f_pkg f; f_type := subst (f_type f) |}.
End Shape.

Arguments f_name {ty}. Arguments f_embedded {ty}. Arguments f_tag {ty}. Arguments f_pkg {ty}. Arguments f_type {ty}.
Arguments struct_hash {ty}. Arguments struct_hash_from {ty}. Arguments field_obf_name {ty}.
Arguments struct_identical {ty}. Arguments field_identical {ty}. Arguments subst_field {ty}.
