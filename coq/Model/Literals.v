(* internal/literals: for each obfuscator the decoder that the emitted Go code implements
   ([run_*], a direct reading of the emitted statements) and the encoder the generator applies
   ([enc_*], as a function of its random choices).  Bytes are N below 256; Go's byte arithmetic
   wraps explicitly.  Definitions only. *)
From Verif Require Import Base.Bytes.
Open Scope N_scope.

Inductive bop := Xor | Add | Sub.

(* evalOperator / the operator printed in the emitted code *)
Definition ap (o : bop) (x y : N) : N :=
  match o with
  | Xor => N.lxor x y
  | Add => (x + y) mod 256
  | Sub => (x + 256 - y) mod 256
  end.
(* operatorToReversedBinaryExpr *)
Definition inv (o : bop) : bop := match o with Xor => Xor | Add => Sub | Sub => Add end.

Fixpoint upd (l : bytes) (i : nat) (v : N) : bytes :=
  match l, i with
  | [], _ => []
  | _ :: r, O => v :: r
  | x :: r, S i' => x :: upd r i' v
  end.

Definition at_ (l : bytes) (i : nat) : N := nth i l 0.

(* ---- dataToByteSliceWithExtKeys: a byte-slice literal followed by in-place operations with
        external-key bytes *)
Definition step := (nat * bop * N)%type.          (* data[i] = data[i] OP k *)
Definition layer := (bytes * list step)%type.

Definition do_step (d : bytes) (s : step) : bytes :=
  let '(i, o, k) := s in upd d i (ap o (at_ d i) k).
Definition run_layer (l : layer) : bytes := fold_left do_step (snd l) (fst l).

(* the generator: applies [ops] to the data in order, emits the inverse operations reversed *)
Definition inv_step (s : step) : step := let '(i, o, k) := s in (i, inv o, k).
Definition enc_layer (ops : list step) (d : bytes) : layer :=
  (fold_left do_step ops d, rev (map inv_step ops)).

(* ---- byteLitWithExtKey: a literal, optionally combined with an external-key byte *)
Definition atom := (N * option (bop * N))%type.
Definition run_atom (a : atom) : N :=
  match a with (v, None) => v | (v, Some (o, k)) => ap o v k end.
Definition enc_atom (val : N) (c : option (bop * N)) : atom :=
  match c with None => (val, None) | Some (o, k) => (ap o val k, Some (inv o, k)) end.

(* ---- simple: key and data literals, then  for i, b := range key { data[i] = data[i] OP b } *)
Fixpoint zipw (f : N -> N -> N) (a b : bytes) : bytes :=
  match a, b with x :: a', y :: b' => f x y :: zipw f a' b' | _, _ => [] end.

Definition run_simple (klayer dlayer : layer) (o : bop) : bytes :=
  let key := run_layer klayer in
  let d := run_layer dlayer in
  (* range over key: only the first len(key) positions of data are touched *)
  zipw (ap o) (firstn (length key) d) key ++ skipn (length key) d.
Definition enc_simple (key : bytes) (o : bop) (kops dops : list step) (d : bytes) : layer * layer * bop :=
  (enc_layer kops key, enc_layer dops (zipw (ap o) d key), inv o).

(* ---- swap *)
Definition local_key (i : nat) (p q : nat) (shift : N) : N :=
  ((N.of_nat i mod 256 + (N.lxor (N.of_nat p) (N.of_nat q)) mod 256) mod 256 + shift) mod 256.

(* data[p], data[q] = f(data[q]), f(data[p])  (both right-hand sides first, then p, then q) *)
Definition swap_step (f : N -> N) (d : bytes) (p q : nat) : bytes :=
  let a := f (at_ d q) in let b := f (at_ d p) in upd (upd d p a) q b.

(* the emitted loop: i = 0, 2, 4, ... over the position pairs *)
Fixpoint run_swap_from (i : nat) (pos : list nat) (o : bop) (shift : N) (d : bytes) : bytes :=
  match pos with
  | p :: q :: r => run_swap_from (S (S i)) r o shift (swap_step (fun x => ap o x (local_key i p q shift)) d p q)
  | _ => d
  end.
Definition run_swap (dlayer : layer) (pos : list nat) (o : bop) (shift : atom) : bytes :=
  run_swap_from 0 pos o (run_atom shift) (run_layer dlayer).

(* the generator walks the pairs from the last one down to the first *)
Fixpoint pairs_from (i : nat) (pos : list nat) : list (nat * nat * nat) :=
  match pos with p :: q :: r => (i, p, q) :: pairs_from (S (S i)) r | _ => [] end.
Definition enc_swap_data (pos : list nat) (o : bop) (shift : N) (d : bytes) : bytes :=
  fold_left (fun d '(i, p, q) => swap_step (fun x => ap o x (local_key i p q shift)) d p q) (rev (pairs_from 0 pos)) d.
Definition enc_swap (pos : list nat) (o : bop) (shift : N) (sc : option (bop * N)) (dops : list step) (d : bytes)
  : layer * list nat * bop * atom :=
  (enc_layer dops (enc_swap_data pos o shift d), pos, inv o, enc_atom shift sc).

(* ---- seed: fnc(x) appends x OP seed and adds x to seed *)
Fixpoint run_seed_from (seed : N) (o : bop) (xs : bytes) : bytes :=
  match xs with
  | [] => []
  | x :: r => ap o x seed :: run_seed_from ((seed + x) mod 256) o r
  end.
Definition run_seed (seed0 : atom) (o : bop) (xs : list atom) : bytes :=
  run_seed_from (run_atom seed0) o (map run_atom xs).
Fixpoint enc_seed_from (seed : N) (o : bop) (d : bytes) : bytes :=
  match d with
  | [] => []
  | b :: r => let e := ap o b seed in e :: enc_seed_from ((seed + e) mod 256) o r
  end.

(* ---- shuffle: data[i] = fullData[a_i ^ idxKey[ka_i]] OP fullData[b_i ^ idxKey[kb_i]] *)
Definition sh_arg := (N * nat * bop * N * nat)%type.   (* a, ka, op, b, kb *)
Definition run_shuffle (full idxk : layer) (args : list sh_arg) : bytes :=
  let f := run_layer full in let k := run_layer idxk in
  map (fun '(a, ka, o, b, kb) =>
         ap o (at_ f (N.to_nat (N.lxor a (at_ k ka)))) (at_ f (N.to_nat (N.lxor b (at_ k kb))))) args.

(* ---- split: a state machine over switch cases *)
Inductive piece := PLayer (l : layer) | PAtom (a : atom).
Inductive scase := CChunk (next : N) (p : piece) | CDecrypt (next : N) (o : bop).
Definition run_piece (p : piece) : bytes :=
  match p with PLayer l => run_layer l | PAtom a => [run_atom a] end.
Fixpoint find_case (cs : list (N * scase)) (i : N) : option scase :=
  match cs with [] => None | (k, c) :: r => if k =? i then Some c else find_case r i end.
Fixpoint decrypt_from (y : N) (o : bop) (key : N) (d : bytes) : bytes :=
  match d with
  | [] => []
  | b :: r => ap o b ((N.lxor key y) mod 256) :: decrypt_from (y + 1) o key r
  end.
(* for counter := 0; i != exit; counter++ { decryptKey ^= i*counter; switch i {...} } *)
Fixpoint run_split_loop (fuel : nat) (cs : list (N * scase)) (exit i counter key : N) (d : bytes) : option bytes :=
  match fuel with
  | O => None
  | S f =>
      if i =? exit then Some d
      else
        let key' := N.lxor key (i * counter) in
        match find_case cs i with
        | Some (CChunk next p) => run_split_loop f cs exit next (counter + 1) key' (d ++ run_piece p)
        | Some (CDecrypt next o) => run_split_loop f cs exit next (counter + 1) key' (decrypt_from 0 o key' d)
        | None => run_split_loop f cs exit i (counter + 1) key' d     (* no case matches: spins *)
        end
  end.
Definition run_split (i0 exit : N) (key0 : atom) (cs : list (N * scase)) : option bytes :=
  run_split_loop (S (S (length cs))) cs exit i0 0 (run_atom key0) [].

(* ---- the string wrapper: junk[:s] ++ data ++ junk[s:], then x[s : s+len(data)] *)
Definition wrap (junk : bytes) (s : nat) (d : bytes) : bytes := firstn s junk ++ d ++ skipn s junk.
Definition unwrap (s n : nat) (x : bytes) : bytes := firstn n (skipn s x).
(* ---- byte arrays: var newdata [L]byte; for i := range data { newdata[i] = data[i] } *)
Definition to_array (len : nat) (d : bytes) : bytes := d ++ repeat 0 (len - length d).

(* ---- shuffle, generator side *)
Fixpoint place (acc : bytes) (sigma : list nat) (vals : bytes) : bytes :=
  match sigma, vals with
  | j :: s', v :: v' => place (upd acc j v) s' v'
  | _, _ => acc
  end.
Definition sh_full (ops : list bop) (key d : bytes) : bytes :=
  map (fun i => ap (nth i ops Xor) (at_ d i) (at_ key i)) (seq 0 (length d)) ++ key.
Definition sh_args (sigma : list nat) (n : nat) (ops : list bop) (kas : list nat) (idxk : bytes) : list sh_arg :=
  map (fun i => let ka := nth i kas 0%nat in let kk := at_ idxk ka in
                (N.lxor (N.of_nat (nth i sigma 0%nat)) kk, ka, inv (nth i ops Xor),
                 N.lxor (N.of_nat (nth (n + i) sigma 0%nat)) kk, ka)) (seq 0 n).
Definition enc_shuffle (ops : list bop) (key idxk : bytes) (sigma : list nat) (kas : list nat)
           (fops kops : list step) (d : bytes) : layer * layer * list sh_arg :=
  let full := sh_full ops key d in
  let shuffled := place (repeat 0 (length full)) sigma full in
  (enc_layer fops shuffled, enc_layer kops idxk, sh_args sigma (length d) ops kas idxk).

(* ---- split, generator side *)
Fixpoint encrypt_from (y : N) (o : bop) (key : N) (d : bytes) : bytes :=
  match d with
  | [] => []
  | b :: r => ap o b (N.lxor key (y mod 256)) :: encrypt_from (y + 1) o key r
  end.
(* decryptKey ^= byte(index * i) over indexes[:len-1] *)
Fixpoint split_key_from (c : nat) (idx : list N) (key : N) : N :=
  match idx with
  | [] => key
  | ix :: r => split_key_from (S c) r (N.lxor key ((ix * N.of_nat c) mod 256))
  end.
