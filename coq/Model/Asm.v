(* transformer.go: replaceAsmNames, over the text as a list of code points (the implementation
   decodes UTF-8 on the fly; the correspondence check feeds valid UTF-8 only).  Every name in Go
   assembly is written  [pkg∕path]·name ; the package part and the name are rewritten with the
   functions the Go side uses.  Definitions only. *)
From Verif Require Import Base.Bytes Model.Rename.
Open Scope N_scope.

Definition MID : N := 183.        (* · *)
Definition ASLASH : N := 8725.    (* ∕ *)
Definition UNDER : N := 95.

Section A.
  Variable is_letter is_digit : N -> bool.            (* unicode.IsLetter, unicode.IsDigit *)
  (* listPackage(curPkg, go path) for a qualified name: (ToObfuscate, obfuscatedImportPath, package key) *)
  Variable lookup_pkg : str -> bool * str * str.
  Variable hname : str -> str -> str.                 (* hashWithPackage(package key, name) *)
  Variable intr : list (str * list str).              (* compilerIntrinsics *)
  Variable cur_name cur_key : str.                    (* curPkg.Name, curPkg's key (its import path) *)
  Variable cur_obf : bool.
  Variable cur_ipath : str.                           (* curPkg.obfuscatedImportPath() *)

  Definition path_rune (c : N) : bool := is_letter c || (c =? UNDER) || (c =? ASLASH) || is_digit c.
  Definition ident_rune (c : N) : bool := is_letter c || (c =? UNDER) || is_digit c.

  (* split at the first MID *)
  Fixpoint cut_mid (s : str) : option (str * str) :=
    match s with
    | [] => None
    | c :: r => if c =? MID then Some ([], r)
                else match cut_mid r with Some (a, b) => Some (c :: a, b) | None => None end
    end.

  (* longest prefix of runes satisfying p *)
  Fixpoint take_while (p : N -> bool) (s : str) : str :=
    match s with c :: r => if p c then c :: take_while p r else [] | [] => [] end.
  Definition drop (n : nat) (s : str) : str := skipn n s.
  (* longest suffix of runes satisfying p, and what precedes it *)
  Definition split_suffix (p : N -> bool) (s : str) : str * str :=
    let suf := rev (take_while p (rev s)) in (firstn (length s - length suf) s, suf).

  (* position of the last MID in s, if any *)
  Fixpoint last_mid (s : str) (i : nat) (acc : option nat) : option nat :=
    match s with [] => acc | c :: r => last_mid r (S i) (if c =? MID then Some i else acc) end.

  (* asm package path to the path go list knows *)
  Definition to_go_path (s : str) : str := map (fun c => if c =? MID then 46 else if c =? ASLASH then 47 else c) s.

  Fixpoint rewrite (fuel : nat) (remaining : str) : str :=
    match fuel with
    | O => remaining
    | S f =>
        match cut_mid remaining with
        | None => remaining
        | Some (pre, post) =>
            let '(pre0, pkg_l) := split_suffix path_rune pre in
            (* the package may go on behind the first middle dot:  test∕with·many·dots∕main∕imported·PublicAdd *)
            let run := take_while (fun c => path_rune c || (c =? MID)) post in
            let '(pkg, rest) :=
              match last_mid run 0 None with
              | Some i => (pkg_l ++ [MID] ++ firstn i run, drop (S i) post)
              | None => (pkg_l, post)
              end in
            let '(obf, ipath, key) :=
              match pkg with
              | [] => (cur_obf, [], cur_key)
              | _ => if beq pkg cur_name then (cur_obf, cur_ipath, cur_key) else lookup_pkg (to_go_path pkg)
              end in
            let pkg_out := match pkg with [] => [] | _ => if obf then ipath else pkg end in
            let name := take_while ident_rune rest in
            let name_out := if obf && negb (intrinsic intr key name) then hname key name else name in
            pre0 ++ pkg_out ++ [MID] ++ name_out ++ rewrite f (drop (length name) rest)
        end
    end.

  Definition replace_asm_names (s : str) : str := rewrite (S (length s)) s.
End A.
