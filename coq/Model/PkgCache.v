(* GARBLE_CACHE as the obfuscator reads it (cache_pkg.go: loadPkgCache / computePkgCache) and the
   on-disk entry format of the underlying content-addressed cache (go-internal/cache: GetFile).
   Definitions only. *)
From Verif Require Import Base.Bytes.
Open Scope N_scope.

(* ---- one cache entry on disk: an index file pointing to a data file *)
Inductive index_file := IMissing | IGarbage | IValid (size : nat).
Record entry := { e_index : index_file; e_data : option bytes }.

Definition put (d : bytes) : entry := {| e_index := IValid (length d); e_data := Some d |}.

Inductive fault := DelIndex | DelData | EmptyIndex | EmptyData | TruncIndex (n : nat) | TruncData (n : nat).

(* the index is one fixed-width record: any strict prefix (or the empty file) fails to parse *)
Definition apply_fault (e : entry) (f : fault) : entry :=
  match f with
  | DelIndex => {| e_index := IMissing; e_data := e_data e |}
  | EmptyIndex => {| e_index := match e_index e with IMissing => IMissing | _ => IGarbage end; e_data := e_data e |}
  | TruncIndex n => {| e_index := match e_index e with IMissing => IMissing | _ => IGarbage end; e_data := e_data e |}
  | DelData => {| e_index := e_index e; e_data := None |}
  | EmptyData => {| e_index := e_index e; e_data := match e_data e with Some _ => Some [] | None => None end |}
  | TruncData n => {| e_index := e_index e;
                      e_data := match e_data e with
                                | Some d => Some (firstn (Nat.min n (Nat.pred (length d))) d)   (* strictly shorter, when non-empty *)
                                | None => None end |}
  end.

Inductive lookup := Miss | Hit (d : bytes).
(* GetFile: the index must parse, the data file must exist and have exactly the recorded size *)
Definition get_file (e : entry) : lookup :=
  match e_index e, e_data e with
  | IValid size, Some d => if Nat.eqb (length d) size then Hit d else Miss
  | _, _ => Miss
  end.

(* ---- the per-package reflection cache over an import graph *)
Section Graph.
  Variable A : Type.                        (* the cached information (ReflectAPIs + ReflectObjectNames) *)
  Variable base : A.                        (* what every package starts from *)
  Variable merge : A -> A -> A.             (* pkgCache.CopyFrom *)
  Variable own : nat -> A -> A.             (* recordReflection of the package on top of its imports' info *)
  Variable imports : nat -> list nat.       (* direct imports with a BuildID *)
  Variable reflectp : nat -> bool.          (* lpkg.hasDep("reflect") *)

  (* what a build from an empty cache computes *)
  Fixpoint spec (fuel : nat) (p : nat) : A :=
    match fuel with
    | O => base
    | S f => if reflectp p then own p (fold_left (fun acc i => merge acc (spec f i)) (imports p) base) else base
    end.

  Definition store := nat -> option A.
  Definition set (s : store) (p : nat) (a : A) : store := fun q => if Nat.eqb q p then Some a else s q.

  (* computePkgCache / loadPkgCache with a cache state that may lack any entries *)
  Fixpoint compute (fuel : nat) (s : store) (p : nat) : A * store :=
    match fuel with
    | O => (base, s)
    | S f =>
        if negb (reflectp p) then (base, s)
        else
          let '(acc, s') :=
            fold_left (fun '(acc, s) i =>
                         match s i with
                         | Some a => (merge acc a, s)                 (* entry present: trusted *)
                         | None => if negb (reflectp i) then (acc, s)  (* nothing to know *)
                                   else let '(a, s2) := compute f s i in (merge acc a, s2)
                         end) (imports p) (base, s) in
          let r := own p acc in (r, set s' p r)
    end.
  Definition load (fuel : nat) (s : store) (p : nat) : A * store :=
    match s p with Some a => (a, s) | None => compute fuel s p end.
End Graph.
