(* The patched-linker cache (internal/linker/linker.go: PatchLinker; main.go: the toolexec "link"
   branch) as a transition system over a shared disk, an exclusive file lock and any number of
   processes of one garble/Go version, with crashes at every step.  Definitions only. *)
From Coq Require Import Arith.
From Verif Require Import Base.Bytes.

Inductive linkfile := LAbsent | LPartial | LComplete.
Record disk := { link : linkfile; stamp : bool }.    (* stamp = true: the .version file matches this version *)

Inductive pc :=
| Idle        (* before mutex.Lock() *)
| Locked      (* holds the lock, about to checkVersion && fileExists *)
| Building    (* decided to rebuild: go build -o link is (re)writing the file *)
| Built       (* go build finished, about to writeVersion *)
| Using       (* returned from PatchLinker: the real link step runs the cached linker, lock still held *)
| Done        (* deferred unlock() ran *)
| Dead.       (* killed *)

Record sys := { d : disk; holder : option nat; pcs : nat -> pc }.

Definition upd (f : nat -> pc) (p : nat) (v : pc) : nat -> pc := fun q => if Nat.eqb q p then v else f q.

Inductive step : sys -> sys -> Prop :=
| s_lock s p : pcs s p = Idle -> holder s = None ->
    step s {| d := d s; holder := Some p; pcs := upd (pcs s) p Locked |}
| s_check_use s p : pcs s p = Locked -> stamp (d s) = true -> link (d s) <> LAbsent ->   (* isCorrectVer && fileExists *)
    step s {| d := d s; holder := holder s; pcs := upd (pcs s) p Using |}
| s_check_build s p : pcs s p = Locked -> (stamp (d s) = false \/ link (d s) = LAbsent) ->
    step s {| d := {| link := LPartial; stamp := stamp (d s) |}; holder := holder s; pcs := upd (pcs s) p Building |}
| s_build_done s p : pcs s p = Building ->
    step s {| d := {| link := LComplete; stamp := stamp (d s) |}; holder := holder s; pcs := upd (pcs s) p Built |}
| s_stamp s p : pcs s p = Built ->
    step s {| d := {| link := link (d s); stamp := true |}; holder := holder s; pcs := upd (pcs s) p Using |}
| s_unlock s p : pcs s p = Using ->
    step s {| d := d s; holder := None; pcs := upd (pcs s) p Done |}
| s_crash s p : pcs s p <> Done -> pcs s p <> Dead ->       (* kill -9: the OS drops the lock, the disk stays as it is *)
    step s {| d := d s; holder := (match holder s with Some q => if Nat.eqb q p then None else Some q | None => None end);
              pcs := upd (pcs s) p Dead |}.

Inductive steps : sys -> sys -> Prop :=
| steps_refl s : steps s s
| steps_step s1 s2 s3 : steps s1 s2 -> step s2 s3 -> steps s1 s3.

Definition in_critical (c : pc) : bool := match c with Locked | Building | Built | Using => true | _ => false end.

(* the invariant *)
Definition disk_ok (dk : disk) : Prop := stamp dk = true -> link dk = LComplete.
Definition inv (s : sys) : Prop :=
  (forall p, in_critical (pcs s p) = true -> holder s = Some p) /\
  match holder s with
  | None => disk_ok (d s)
  | Some p =>
      match pcs s p with
      | Locked => disk_ok (d s)
      | Building => stamp (d s) = false
      | Built => stamp (d s) = false /\ link (d s) = LComplete
      | Using => stamp (d s) = true /\ link (d s) = LComplete
      | _ => False
      end
  end.

Definition init_ok (s : sys) : Prop := holder s = None /\ (forall p, pcs s p = Idle) /\ disk_ok (d s).
