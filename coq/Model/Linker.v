(* The patched-linker cache (internal/linker/linker.go: PatchLinker; main.go: the toolexec "link"
   branch) as a transition system over a shared disk, an exclusive file lock and any number of
   processes of one garble/Go version, with crashes at every step.  Definitions only. *)
From Coq Require Import Arith.
From Coq Require Import String.
From Verif Require Import Base.Bytes Model.Flags.

Inductive linkfile := LAbsent | LPartial | LComplete.
Record disk := { link : linkfile; stamp : bool }.    (* stamp = true: the .version file matches this version *)

Inductive pc :=
| Idle        (* before mutex.Lock() *)
| Locked      (* holds the lock, about to checkVersion && fileExists *)
| Building    (* decided to rebuild: go build -o link is (re)writing the file *)
| Built       (* go build finished, about to writeVersion *)
| Using       (* returned from PatchLinker: the real link step runs the cached linker, lock still held *)
| Done        (* deferred unlock() ran *)
| Dead.       (* killed *)

Record sys := { d : disk; holder : option nat; pcs : nat -> pc }.

Definition upd (f : nat -> pc) (p : nat) (v : pc) : nat -> pc := fun q => if Nat.eqb q p then v else f q.

Inductive step : sys -> sys -> Prop :=
| s_lock s p : pcs s p = Idle -> holder s = None ->
    step s {| d := d s; holder := Some p; pcs := upd (pcs s) p Locked |}
| s_check_use s p : pcs s p = Locked -> stamp (d s) = true -> link (d s) <> LAbsent ->   (* isCorrectVer && fileExists *)
    step s {| d := d s; holder := holder s; pcs := upd (pcs s) p Using |}
| s_check_build s p : pcs s p = Locked -> (stamp (d s) = false \/ link (d s) = LAbsent) ->
    step s {| d := {| link := LPartial; stamp := stamp (d s) |}; holder := holder s; pcs := upd (pcs s) p Building |}
| s_build_done s p : pcs s p = Building ->
    step s {| d := {| link := LComplete; stamp := stamp (d s) |}; holder := holder s; pcs := upd (pcs s) p Built |}
| s_stamp s p : pcs s p = Built ->
    step s {| d := {| link := link (d s); stamp := true |}; holder := holder s; pcs := upd (pcs s) p Using |}
| s_unlock s p : pcs s p = Using ->
    step s {| d := d s; holder := None; pcs := upd (pcs s) p Done |}
| s_crash s p : pcs s p <> Done -> pcs s p <> Dead ->       (* kill -9: the OS drops the lock, the disk stays as it is *)
    step s {| d := d s; holder := (match holder s with Some q => if Nat.eqb q p then None else Some q | None => None end);
              pcs := upd (pcs s) p Dead |}.

Inductive steps : sys -> sys -> Prop :=
| steps_refl s : steps s s
| steps_step s1 s2 s3 : steps s1 s2 -> step s2 s3 -> steps s1 s3.

Definition in_critical (c : pc) : bool := match c with Locked | Building | Built | Using => true | _ => false end.

(* the invariant *)
Definition disk_ok (dk : disk) : Prop := stamp dk = true -> link dk = LComplete.
Definition inv (s : sys) : Prop :=
  (forall p, in_critical (pcs s p) = true -> holder s = Some p) /\
  match holder s with
  | None => disk_ok (d s)
  | Some p =>
      match pcs s p with
      | Locked => disk_ok (d s)
      | Building => stamp (d s) = false
      | Built => stamp (d s) = false /\ link (d s) = LComplete
      | Using => stamp (d s) = true /\ link (d s) = LComplete
      | _ => False
      end
  end.

Definition init_ok (s : sys) : Prop := holder s = None /\ (forall p, pcs s p = Idle) /\ disk_ok (d s).

(* ---- executable companion for the search: PatchLinker's calls in an arbitrary order, a kill after
        any disk effect, then the decision of the next run.  Disk = (stamp, linker file). *)
Inductive kstamp := SNone | SStale | SCurrent.
Inductive klink := KAbsent | KStale | KPartial | KCurrent.
Definition kdisk := (kstamp * klink)%type.
Definition c_writeVersion := Eval vm_compute in s2b "writeVersion".
Definition c_buildLinker := Eval vm_compute in s2b "buildLinker".
(* the disk states a call passes through (a kill can fall after each) *)
Definition call_effects (c : str) (dk : kdisk) : list kdisk :=
  if beq c c_writeVersion then [(SCurrent, snd dk)]
  else if beq c c_buildLinker then [(fst dk, KPartial); (fst dk, KCurrent)]
  else [].
(* the next run uses the cached linker iff the stamp is current and the file exists *)
Definition next_run_uses (dk : kdisk) : bool :=
  match dk with (SCurrent, KAbsent) => false | (SCurrent, _) => true | _ => false end.
Definition bad_disk (dk : kdisk) : bool :=
  next_run_uses dk && match snd dk with KCurrent => false | _ => true end.
Fixpoint crash_states (calls : list str) (dk : kdisk) : list kdisk :=
  match calls with
  | [] => []
  | c :: r => let effs := call_effects c dk in effs ++ crash_states r (last effs dk)
  end.
(* initial disks a correct history leaves: nothing, another version's linker, this version's linker *)
Definition good_initial : list kdisk := [(SStale, KStale); (SNone, KAbsent); (SCurrent, KCurrent)].
Definition crash_search (calls : list str) : option (kdisk * nat) :=
  let runs := flat_map (fun d0 => if next_run_uses d0 then [] else
                 map (fun p => (d0, fst p, snd p)) (combine (seq 0 (length (crash_states calls d0))) (crash_states calls d0))) good_initial in
  match filter (fun x => bad_disk (snd x)) runs with
  | [] => None
  | (d0, i, _) :: _ => Some (d0, i)
  end.
