(* reflect.go: recursivelyRecordUsedForReflectImpl - which named types and struct fields are
   recorded (and so keep their original names at run time) when a type reaches reflection.
   Types are finite trees over declared-type ids; [underlying] closes the cycles.  The walk
   mirrors the implementation: a named type that is already recorded is not entered again (that
   is what ends the recursion), its underlying type is walked otherwise; struct fields are recorded
   and their types walked; pointers, slices, arrays, channels lead to their element type; maps to
   key and element; func types to parameters and results; everything else is a leaf.  (The
   implementation's [visited] set of type identities only skips types whose objects are recorded
   already; it does not change the recorded set and is not modelled.)  Definitions only. *)
From Verif Require Import Base.Bytes.

Inductive obj := ONamed (id : nat) | OField (id : nat).
Definition obj_eqb (a b : obj) : bool :=
  match a, b with ONamed x, ONamed y | OField x, OField y => Nat.eqb x y | _, _ => false end.
Definition memo (o : obj) (l : list obj) : bool := existsb (obj_eqb o) l.
Definition addo (o : obj) (l : list obj) : list obj := if memo o l then l else o :: l.

Inductive ty :=
| TLeaf                                   (* basic types, interfaces, type parameters, tuples *)
| TNamed (id : nat)
| TAlias (rhs : ty)
| TStruct (fields : list (nat * ty))      (* field id, field type *)
| TElem (e : ty)                          (* pointer, slice, array, channel *)
| TMap (k v : ty)
| TFunc (params results : list ty).

(* walk a list of (field to record first, type) with walker w, threading the recorded set *)
Fixpoint walks (w : ty -> list obj -> option (list obj)) (ts : list (option nat * ty)) (rec : list obj) : option (list obj) :=
  match ts with
  | [] => Some rec
  | (fo, t) :: r =>
      let rec1 := match fo with Some fid => addo (OField fid) rec | None => rec end in
      match w t rec1 with Some rec2 => walks w r rec2 | None => None end
  end.

Section W.
  Variable underlying : nat -> ty.        (* t.Origin().Underlying() of declared type id *)

  (* None: out of fuel *)
  Fixpoint walk (fuel : nat) (t : ty) (rec : list obj) : option (list obj) :=
    match fuel with
    | O => None
    | S f =>
        match t with
        | TLeaf => Some rec
        | TAlias r => walk f r rec
        | TNamed id => if memo (ONamed id) rec then Some rec else walk f (underlying id) (ONamed id :: rec)
        | TStruct fs => walks (walk f) (map (fun p => (Some (fst p), snd p)) fs) rec
        | TElem e => walk f e rec
        | TMap k v => walks (walk f) [(None, k); (None, v)] rec
        | TFunc ps rs => walks (walk f) (map (fun t => (None, t)) (ps ++ rs)) rec
        end
    end.

  (* the objects met from t before entering any declared type *)
  Fixpoint direct (t : ty) : list obj :=
    match t with
    | TLeaf => []
    | TNamed id => [ONamed id]
    | TAlias r => direct r
    | TStruct fs => (fix go (l : list (nat * ty)) : list obj :=
                       match l with [] => [] | (fid, ft) :: r => OField fid :: direct ft ++ go r end) fs
    | TElem e => direct e
    | TMap k v => direct k ++ direct v
    | TFunc ps rs =>
        let go := fix go (l : list ty) : list obj := match l with [] => [] | x :: r => direct x ++ go r end in
        go ps ++ go rs
    end.
  Definition directs (ts : list (option nat * ty)) : list obj :=
    flat_map (fun p => match fst p with Some fid => OField fid :: direct (snd p) | None => direct (snd p) end) ts.

  (* everything reflection can reach from t *)
  Inductive reach : ty -> obj -> Prop :=
  | reach_direct t o : In o (direct t) -> reach t o
  | reach_named t id o : In (ONamed id) (direct t) -> reach (underlying id) o -> reach t o.
End W.
