(* Command-line handling of main.go / transformer.go (definitions only):
   splitFlagsFromArgs, filterForwardBuildFlags, flagValue(s), flagSetValue, hasHelpFlag,
   rxGarbleFlag, the argv garble hands to `go list` and to the real go command,
   and the go command's own splitting rule (package flag's parseOne) as the specification. *)
From Coq Require Import String Ascii.
From Verif Require Import Base.Bytes.
Open Scope N_scope.

Fixpoint s2b (s : string) : str :=
  match s with EmptyString => [] | String a r => N_of_ascii a :: s2b r end.

Definition DASH : N := 45.
Definition EQ : N := 61.

Definition starts_dash (a : str) : bool := match a with c :: _ => c =? DASH | [] => false end.
Definition has_eq (a : str) : bool := existsb (N.eqb EQ) a.
Definition mem (a : str) (l : list str) : bool := existsb (beq a) l.

(* "--name" -> "-name" (strings.HasPrefix(arg, "--") then arg[1:]) *)
Definition norm_dd (a : str) : str :=
  match a with
  | c :: c2 :: r => if (c =? DASH) && (c2 =? DASH) then c2 :: r else a
  | _ => a
  end.

(* strings.Cut(arg, "="): the part before the first '=' and, if there is one, the part after *)
Fixpoint cut_eq (a : str) : str * option str :=
  match a with
  | [] => ([], None)
  | c :: r => if c =? EQ then ([], Some r) else let '(n, v) := cut_eq r in (c :: n, v)
  end.

(* ---- splitFlagsFromArgs *)
Fixpoint split_flags (bools : list str) (all : list str) : list str * list str :=
  match all with
  | [] => ([], [])
  | arg :: rest =>
      if negb (starts_dash arg) then ([], all)
      else if mem (norm_dd arg) bools || has_eq arg then
        let '(f, a) := split_flags bools rest in (arg :: f, a)
      else
        match rest with
        | [] => ([arg], [])
        | v :: rest' => let '(f, a) := split_flags bools rest' in (arg :: v :: f, a)
        end
  end.

(* ---- filterForwardBuildFlags: (filtered, firstUnknown) *)
Fixpoint assoc (k : str) (l : list (str * bool)) : bool :=
  match l with [] => false | (k', v) :: r => if beq k k' then v else assoc k r end.

Definition pick_unknown (bf : bool) (name later : str) : str :=
  match later with [] => if bf then [] else name | _ => later end.

Fixpoint filter_forward (fwd : list (str * bool)) (bools : list str) (flags : list str) : list str * str :=
  match flags with
  | [] => ([], [])
  | a0 :: rest =>
      let arg := norm_dd a0 in
      let name := fst (cut_eq arg) in
      let bf := assoc name fwd in
      if mem arg bools || has_eq arg then
        let '(f, u) := filter_forward fwd bools rest in
        ((if bf then [arg] else []) ++ f, pick_unknown bf name u)
      else
        match rest with
        | [] => ((if bf then [arg] else []), pick_unknown bf name [])
        | v :: rest' =>
            let '(f, u) := filter_forward fwd bools rest' in
            ((if bf then [arg; v] else []) ++ f, pick_unknown bf name u)
        end
  end.

(* ---- flagValues / flagValue / flagSetValue / hasHelpFlag *)
Fixpoint strip_prefix (p s : str) : option str :=
  match p, s with
  | [], _ => Some s
  | x :: p', y :: s' => if x =? y then strip_prefix p' s' else None
  | _ :: _, [] => None
  end.

Fixpoint flag_values (flags : list str) (name : str) : list str :=
  match flags with
  | [] => []
  | arg :: rest =>
      (match strip_prefix (name ++ [EQ]) arg with Some v => [v] | None => [] end) ++
      (if beq arg name then match rest with v :: _ => [v] | [] => [] end else []) ++
      flag_values rest name
  end.

Definition flag_value (flags : list str) (name : str) : str := last (flag_values flags name) [].

Fixpoint flag_set_value (flags : list str) (name value : str) : list str :=
  match flags with
  | [] => [name ++ [EQ] ++ value]
  | arg :: rest =>
      match strip_prefix (name ++ [EQ]) arg with
      | Some _ => (name ++ [EQ] ++ value) :: rest
      | None =>
          if beq arg name then
            match rest with _ :: rest' => arg :: value :: rest' | [] => [arg] end
          else arg :: flag_set_value rest name value
      end
  end.

Definition s_h := Eval vm_compute in s2b "-h".
Definition s_help := Eval vm_compute in s2b "-help".
Definition s_hhelp := Eval vm_compute in s2b "--help".
Definition has_help_flag (flags : list str) : bool :=
  existsb (fun f => beq f s_h || beq f s_help || beq f s_hhelp) flags.

(* ---- rxGarbleFlag: ^--?(?:literals|tiny|debug|debugdir|seed)(?:$|=) *)
Definition garble_flag_names : list str := Eval vm_compute in
  map s2b ["literals"; "tiny"; "debug"; "debugdir"; "seed"]%string.
Definition rx_source : str := Eval vm_compute in s2b "^--?(?:literals|tiny|debug|debugdir|seed)(?:$|=)".

Definition name_then_end_or_eq (r : str) : bool :=
  existsb (fun n => match strip_prefix n r with
                    | Some [] => true
                    | Some (c :: _) => c =? EQ
                    | None => false
                    end) garble_flag_names.

Definition rx_garble (s : str) : bool :=
  match s with
  | c :: r =>
      (c =? DASH) &&
      (name_then_end_or_eq r ||
       match r with c2 :: r2 => (c2 =? DASH) && name_then_end_or_eq r2 | [] => false end)
  | [] => false
  end.

(* ---- the go command's rule (flag.FlagSet.parseOne) as the specification *)
Record tok := { t_name : str; t_inline : option str; t_next : option str; t_raw : str }.

Fixpoint lookup_def (n : str) (defs : list (str * bool)) : option bool :=
  match defs with [] => None | (k, b) :: r => if beq n k then Some b else lookup_def n r end.

(* body of a flag token: the text after one or two dashes; None when the token does not start
   with a dash.  A lone "-" (which go treats as a plain argument, and which is no package pattern)
   and "--" (go's terminator) get an empty body and are rejected below as outside the documented
   fragment. *)
Definition flag_body (s : str) : option str :=
  match s with
  | c :: r =>
      if c =? DASH then
        match r with
        | c2 :: r2 => if c2 =? DASH then Some r2 else Some r
        | [] => Some []
        end
      else None
  | [] => None
  end.

Definition bad_body (b : str) : bool :=
  match b with [] => true | c :: _ => (c =? DASH) || (c =? EQ) end.

(* result: None = the go command reports a usage error (or "--", outside the documented fragment) *)
Fixpoint go_parse (defs : list (str * bool)) (argv : list str) : option (list tok * list str) :=
  match argv with
  | [] => Some ([], [])
  | s :: rest =>
      match flag_body s with
      | None => Some ([], argv)                       (* first non-flag argument: stop *)
      | Some body =>
          if bad_body body then None
          else
            let '(name, inline) := cut_eq body in
            match lookup_def name defs with
            | None => None                              (* flag provided but not defined *)
            | Some isb =>
                if isb || (match inline with Some _ => true | None => false end) then
                  match go_parse defs rest with
                  | Some (ts, a) => Some ({| t_name := name; t_inline := inline; t_next := None; t_raw := s |} :: ts, a)
                  | None => None
                  end
                else
                  match rest with
                  | [] => None                          (* flag needs an argument *)
                  | v :: rest' =>
                      match go_parse defs rest' with
                      | Some (ts, a) => Some ({| t_name := name; t_inline := None; t_next := Some v; t_raw := s |} :: ts, a)
                      | None => None
                      end
                  end
            end
      end
  end.

Definition tok_strs (t : tok) : list str :=
  t_raw t :: match t_next t with Some v => [v] | None => [] end.

Definition go_split (defs : list (str * bool)) (argv : list str) : option (list str * list str) :=
  match go_parse defs argv with
  | Some (ts, a) => Some (flat_map tok_strs ts, a)
  | None => None
  end.

(* garble's boolean table agrees with the go command on every flag the go command defines *)
Definition tables_agree (bools : list str) (defs : list (str * bool)) : bool :=
  forallb (fun d => Bool.eqb (mem (DASH :: fst d) bools) (snd d)) defs.

(* `go test` additionally accepts flags after the package list (cmd/go/internal/test/testflag.go):
   the package list is the first run of non-flag arguments, flag scanning resumes after it. *)
Fixpoint take_nonflags (argv : list str) : list str * list str :=
  match argv with
  | s :: rest => match flag_body s with
                 | None => let '(p, r) := take_nonflags rest in (s :: p, r)
                 | Some _ => ([], argv)
                 end
  | [] => ([], [])
  end.

Definition go_test_split (defs : list (str * bool)) (argv : list str) : option (list str * list str) :=
  match go_parse defs argv with
  | Some (ts1, a) =>
      let '(pkgs, rest) := take_nonflags a in
      match go_parse defs rest with
      | Some (ts2, a2) => Some (flat_map tok_strs ts1 ++ flat_map tok_strs ts2, pkgs ++ a2)
      | None => None
      end
  | None => None
  end.

(* ---- what garble runs *)
Definition s_list_prefix : list str := Eval vm_compute in
  map s2b ["list"; "-json"; "-export"; "-compiled"; "-e"; "-deps"]%string.
Definition s_test_flag := Eval vm_compute in s2b "-test".
Definition s_vet_off := Eval vm_compute in s2b "-vet=off".
Definition s_dot := Eval vm_compute in s2b ".".
Definition s_dot_go := Eval vm_compute in s2b ".go".
Definition s_cmd_test := Eval vm_compute in s2b "test".

Fixpoint has_suffix (suf s : str) : bool :=
  beq suf s || match s with [] => false | _ :: r => has_suffix suf r end.

Definition s_cmd_run := Eval vm_compute in s2b "run".
Fixpoint take_go_files (l : list str) : list str :=
  match l with p :: r => if has_suffix s_dot_go p then p :: take_go_files r else [] | [] => [] end.

(* appendListedPackages(args, true): the `go list` argv for the top-level build *)
Definition list_args (gbf : list str) (fwd : list (str * bool)) (bools : list str)
           (command : str) (linknamed : list str) (argv : list str) : list str :=
  let '(flags, pkgs0) := split_flags bools argv in
  (* "go run" takes one package or a list of .go files; what follows are the program's arguments *)
  let pkgs := if beq command s_cmd_run
              then match take_go_files pkgs0 with [] => firstn 1 pkgs0 | fs => fs end
              else pkgs0 in
  let forward := fst (filter_forward fwd bools flags) ++ (if beq command s_cmd_test then [s_test_flag] else []) in
  let file_mode := match pkgs with p :: _ => has_suffix s_dot_go p | [] => false end in
  let pkgs' := if file_mode then pkgs else (match pkgs with [] => [s_dot] | _ => pkgs end) ++ linknamed in
  s_list_prefix ++ gbf ++ forward ++ pkgs'.

(* toolexecCmd: the argv of the real go command; [toolexec] is the single -toolexec=... argument,
   [extra] the garble-chosen additions (-debug-actiongraph <file>, -a) *)
Definition go_args (gbf : list str) (bools : list str) (command : str) (toolexec : str)
           (extra : list str) (argv : list str) : list str :=
  let '(flags, pkgs) := split_flags bools argv in
  [command] ++ gbf ++ [toolexec] ++ extra ++
  (if beq command s_cmd_test then [s_vet_off] else []) ++ flags ++ pkgs.

(* toolexecCmd rejects garble's own flags among the user's go flags: only tokens in flag position
   are tested; the separate value of a "-name value" flag is skipped *)
Definition flag_complete (bools : list str) (arg : str) : bool := mem (norm_dd arg) bools || has_eq arg.

Fixpoint garble_flag_in_flags (bools : list str) (flags : list str) : bool :=
  match flags with
  | [] => false
  | f :: rest =>
      rx_garble f ||
      (if flag_complete bools f then garble_flag_in_flags bools rest
       else match rest with _ :: rest' => garble_flag_in_flags bools rest' | [] => false end)
  end.

Definition garble_flag_after_command (bools : list str) (argv : list str) : bool :=
  garble_flag_in_flags bools (fst (split_flags bools argv)).
