(* Control-flow obfuscation (internal/ctrlflow): the pieces of logic a theorem can carry without a
   semantics of Go: the dispatcher lookup that flattening relies on, the lowering of SSA phi nodes
   to assignments (internal/ssa2ast), and the guard of trash blocks.  Definitions only. *)
From Verif Require Import Base.Bytes.
Open Scope N_scope.

(* ---- flattening: every original edge B -> T becomes "key := k_T; goto dispatcher"; the
        dispatcher is an if-chain over (key, target) pairs *)
Fixpoint dispatch (table : list (N * N)) (k : N) : option N :=
  match table with [] => None | (k', t) :: r => if k =? k' then Some t else dispatch r k end.

(* ---- phi nodes of a block, for one incoming edge: target variable := source value *)
Inductive src := SVar (v : N) | SConst (c : N).
Definition env := N -> N.
Definition eval (e : env) (s : src) : N := match s with SVar v => e v | SConst c => c end.
Definition set (e : env) (v x : N) : env := fun w => if w =? v then x else e w.
(* SSA semantics: all phis of the block read the old environment *)
Definition phi_parallel (phis : list (N * src)) (e : env) : env :=
  fold_left (fun acc p => set acc (fst p) (eval e (snd p))) phis e.
(* ssa2ast: one assignment after the other *)
Definition phi_sequential (phis : list (N * src)) (e : env) : env :=
  fold_left (fun acc p => set acc (fst p) (eval acc (snd p))) phis e.
(* no phi reads a variable that an earlier phi of the same block assigned *)
Fixpoint independent (assigned : list N) (phis : list (N * src)) : bool :=
  match phis with
  | [] => true
  | (v, s) :: r =>
      (match s with SVar w => negb (existsb (N.eqb w) assigned) | SConst _ => true end) && independent (v :: assigned) r
  end.

(* ---- trash blocks are guarded by a comparison of two different constants with == , or of two
        equal constants with != ... modelled as: the guard is (a op b) for an operator chosen so that
        it is false on (a, b) *)
Inductive cmp := CEq | CNe | CLt | CGt.
Definition cmp_eval (o : cmp) (a b : N) : bool :=
  match o with CEq => a =? b | CNe => negb (a =? b) | CLt => a <? b | CGt => b <? a end.
Definition false_ops (a b : N) : list cmp := filter (fun o => negb (cmp_eval o a b)) [CEq; CNe; CLt; CGt].
