(* The flag surgery of transformLink / transformCompile / alterTrimpath (definitions only). *)
From Coq Require Import String.
From Verif Require Import Base.Bytes Model.Flags.
Open Scope N_scope.

Definition s_X_buildversion := Eval vm_compute in s2b "-X=runtime.buildVersion=unknown".
Definition s_buildid := Eval vm_compute in s2b "-buildid".
Definition s_w := Eval vm_compute in s2b "-w".
Definition s_s := Eval vm_compute in s2b "-s".
Definition s_importcfg := Eval vm_compute in s2b "-importcfg".
Definition s_trimpath := Eval vm_compute in s2b "-trimpath".
Definition s_arrow_semi := Eval vm_compute in s2b "=>;".
Definition s_dwarf_false := Eval vm_compute in s2b "-dwarf=false".

(* transformLink on the flag part of the linker's argv: [xdups] are the duplicated -X flags for
   obfuscated names, [newcfg] the rewritten importcfg path *)
Definition transform_link_flags (flags xdups : list str) (newcfg : str) : list str :=
  let f1 := flags ++ xdups ++ [s_X_buildversion] in
  let f2 := flag_set_value f1 s_buildid [] in
  let f3 := f2 ++ [s_w; s_s] in
  flag_set_value f3 s_importcfg newcfg.

(* alterTrimpath: the temporary directory goes first *)
Definition alter_trimpath (flags : list str) (tempdir : str) : list str :=
  flag_set_value flags s_trimpath (tempdir ++ s_arrow_semi ++ flag_value flags s_trimpath).

(* a flag occurs exactly once, in the -name=value form (how cmd/go passes -buildid, -importcfg, -trimpath) *)
Definition mentions (name : str) (arg : str) : bool :=
  beq arg name || match strip_prefix (name ++ [EQ]) arg with Some _ => true | None => false end.

(* ---- transformLink's duplication of -X flags for obfuscated names.
        [lookup] answers sharedCache.ListedPackages.get(path) with (obfuscatedImportPath, hashing key);
        "main" always means the package being linked. *)
Definition s_X := Eval vm_compute in s2b "-X".
Definition s_Xeq := Eval vm_compute in s2b "-X=".
Definition s_mainpkg := Eval vm_compute in s2b "main".

(* flagValues(flags, "-X"): -X=value yields value; -X followed by an argument yields that argument *)
Fixpoint x_values (flags : list str) : list str :=
  match flags with
  | [] => []
  | a :: r =>
      (match strip_prefix s_Xeq a with Some v => [v] | None => [] end) ++
      (if beq a s_X then match r with v :: _ => [v] | [] => [] end else []) ++
      x_values r
  end.

(* strings.Cut(val, "=") *)
Fixpoint cut_eq (s : str) : option (str * str) :=
  match s with
  | [] => None
  | c :: r => if c =? EQ then Some ([], r)
              else match cut_eq r with Some (a, b) => Some (c :: a, b) | None => None end
  end.
(* split at the LAST dot: (path, name); None when there is no dot (the implementation panics there) *)
Fixpoint cut_last_dot (s : str) : option (str * str) :=
  match s with
  | [] => None
  | c :: r => match cut_last_dot r with
              | Some (a, b) => Some (c :: a, b)
              | None => if c =? 46 then Some ([], r) else None
              end
  end.

Section X.
  Variable lookup : str -> option (str * str).      (* package path -> (obfuscated import path, key) *)
  Variable cur : str * str.                          (* the same for the package being linked *)
  Variable hname : str -> str -> str.                (* hashWithPackage(key, name) *)

  Definition x_dup (val : str) : list str :=
    match cut_eq val with
    | None => []
    | Some (full, v) =>
        match cut_last_dot full with
        | None => []        (* outside the domain: LastIndexByte = -1 *)
        | Some (path, name) =>
            match (if beq path s_mainpkg then Some cur else lookup path) with
            | None => []
            | Some (ipath, key) => [s_Xeq ++ ipath ++ [46] ++ hname key name ++ [EQ] ++ v]
            end
        end
    end.
  Definition x_dups (flags : list str) : list str := flat_map x_dup (x_values flags).
End X.

(* ---- computeLinkerVariableStrings: which package-level variables of the package being compiled
        are set through the linker's -X flag, and to what (they must not be obfuscated as literals).
        [ldflags] is the already split -ldflags value; later flags override earlier ones. *)
Definition linker_var (pkg_path pkg_name : str) (vars : list str) (val : str) : option (str * str) :=
  match cut_eq val with
  | None => None
  | Some (full, v) =>
      match cut_last_dot full with
      | None => None      (* outside the domain: LastIndexByte = -1 *)
      | Some (path, name) =>
          if (beq path pkg_path || (beq path s_mainpkg && beq pkg_name s_mainpkg)) && mem name vars then Some (name, v) else None
      end
  end.
Fixpoint assoc_set (k v : str) (m : list (str * str)) : list (str * str) :=
  match m with
  | [] => [(k, v)]
  | (k', v') :: r => if beq k k' then (k, v) :: r else (k', v') :: assoc_set k v r
  end.
Definition linker_var_strings (pkg_path pkg_name : str) (vars : list str) (ldflags : list str) : list (str * str) :=
  fold_left (fun m val => match linker_var pkg_path pkg_name vars val with Some (k, v) => assoc_set k v m | None => m end)
            (x_values ldflags) [].
