(* The flag surgery of transformLink / transformCompile / alterTrimpath (definitions only). *)
From Coq Require Import String.
From Verif Require Import Base.Bytes Model.Flags.
Open Scope N_scope.

Definition s_X_buildversion := Eval vm_compute in s2b "-X=runtime.buildVersion=unknown".
Definition s_buildid := Eval vm_compute in s2b "-buildid".
Definition s_w := Eval vm_compute in s2b "-w".
Definition s_s := Eval vm_compute in s2b "-s".
Definition s_importcfg := Eval vm_compute in s2b "-importcfg".
Definition s_trimpath := Eval vm_compute in s2b "-trimpath".
Definition s_arrow_semi := Eval vm_compute in s2b "=>;".
Definition s_dwarf_false := Eval vm_compute in s2b "-dwarf=false".

(* transformLink on the flag part of the linker's argv: [xdups] are the duplicated -X flags for
   obfuscated names, [newcfg] the rewritten importcfg path *)
Definition transform_link_flags (flags xdups : list str) (newcfg : str) : list str :=
  let f1 := flags ++ xdups ++ [s_X_buildversion] in
  let f2 := flag_set_value f1 s_buildid [] in
  let f3 := f2 ++ [s_w; s_s] in
  flag_set_value f3 s_importcfg newcfg.

(* alterTrimpath: the temporary directory goes first *)
Definition alter_trimpath (flags : list str) (tempdir : str) : list str :=
  flag_set_value flags s_trimpath (tempdir ++ s_arrow_semi ++ flag_value flags s_trimpath).

(* a flag occurs exactly once, in the -name=value form (how cmd/go passes -buildid, -importcfg, -trimpath) *)
Definition mentions (name : str) (arg : str) : bool :=
  beq arg name || match strip_prefix (name ++ [EQ]) arg with Some _ => true | None => false end.
