(* Memoised builds over a shared cache (cmd/go's action cache as garble keys it through the tool
   version line, and GARBLE_CACHE keyed by GarbleActionID).  Definitions only. *)
From Coq Require Import String.
From Verif Require Import Base.Bytes Model.Flags Model.Names.
Open Scope N_scope.

Section Memo.
  Variable Cfg Key Out : Type.
  Variable key : Cfg -> Key.          (* what the cache entry is filed under *)
  Variable F : Cfg -> Out.            (* what a build from empty caches produces *)
  Variable key_eqb : Key -> Key -> bool.

  Definition cache := list (Key * Out).
  Fixpoint lookup (k : Key) (c : cache) : option Out :=
    match c with [] => None | (k', o) :: r => if key_eqb k k' then Some o else lookup k r end.
  Definition build (x : Cfg) (c : cache) : Out * cache * bool :=   (* output, new cache, recompiled? *)
    match lookup (key x) c with
    | Some o => (o, c, false)
    | None => (F x, (key x, F x) :: c, true)
    end.
  Fixpoint run_history (h : list Cfg) (c : cache) : list Out * cache :=
    match h with
    | [] => ([], c)
    | x :: r => let '(o, c1, _) := build x c in let '(os, c2) := run_history r c1 in (o :: os, c2)
    end.
End Memo.

(* ---- what the garble part of the key consists of, against what the obfuscator reads *)
(* every build-affecting garble flag must be written by appendFlags(w, true) *)
Definition flag_hash_string (name : str) : str := [32; 45] ++ name.     (* " -name" *)
Definition not_build_affecting : list str := Eval vm_compute in map s2b ["debug"; "debugdir"]%string.
Definition flags_covered (registered : list str) (hashed : list str) : bool :=
  forallb (fun n => mem n not_build_affecting ||
                    existsb (fun h => is_prefix (flag_hash_string n) h) hashed) registered.

(* the compile step of a package under -literals also reads the -X targets of -ldflags, which
   cmd/go only feeds into the link action's key *)
Record ccfg := { cc_literals : bool; cc_ldflags_x : str; cc_rest : str }.
Definition compile_key (c : ccfg) : bool * str := (cc_literals c, cc_rest c).
Definition compile_out (c : ccfg) : bool * str * str :=
  (cc_literals c, cc_rest c, if cc_literals c then cc_ldflags_x c else []).
