(* -tiny: the call graph of the stripped runtime (regenerated every run by running garble's own
   stripRuntime on the toolchain's runtime sources) and what "silent" means on it.  Definitions only. *)
From Verif Require Import Base.Bytes.
Open Scope N_scope.

Definition graph := list (N * list N).           (* function id -> ids of the runtime functions it calls *)
Definition memN (x : N) (l : list N) : bool := existsb (N.eqb x) l.

(* R is closed under "calls something in R" and contains the sinks *)
Definition closed (g : graph) (R : list N) : bool :=
  forallb (fun fc => implb (existsb (fun c => memN c R) (snd fc)) (memN (fst fc) R)) g.
Definition subset (a b : list N) : bool := forallb (fun x => memN x b) a.

Definition calls (g : graph) (f c : N) : Prop := exists cs, In (f, cs) g /\ In c cs.
Inductive reaches (g : graph) (sinks : list N) : N -> Prop :=
| r_sink f : In f sinks -> reaches g sinks f
| r_call f c : calls g f c -> reaches g sinks c -> reaches g sinks f.

(* edges from outside the printing files into functions that can produce output *)
Definition frontier (g : graph) (inner R : list N) : list (N * N) :=
  flat_map (fun fc => if memN (fst fc) inner then []
                      else map (fun c => (fst fc, c)) (filter (fun c => memN c R && memN c inner) (snd fc))) g.
