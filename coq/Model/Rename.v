(* The naming decision (transformer.go: obfuscatedObjectName) and an abstract model of lexical
   resolution under renaming.  Definitions only. *)
From Coq Require Import String.
From Verif Require Import Base.Bytes Model.Flags Model.Names Model.Scope.
Open Scope N_scope.

Inductive kind := KVar | KField | KType | KFunc | KMethod | KConst | KPkgName | KLabel | KOther.

(* what the Go code inspects about a types.Object *)
Record objd := {
  o_universe : bool;       (* obj.Pkg() == nil *)
  o_pkg : str;             (* declaring package path *)
  o_name : str;
  o_kind : kind;
  o_exported : bool;       (* obj.Exported() *)
  o_test_sig : bool        (* isTestSignature(sign) *)
}.

Inductive decision := Keep | HashPkg | HashStruct.

Definition s_sync_atomic := Eval vm_compute in s2b "sync/atomic".
Definition s_rt_atomic := Eval vm_compute in s2b "runtime/internal/atomic".
Definition s_align64 := Eval vm_compute in s2b "align64".
Definition s_embed := Eval vm_compute in s2b "embed".
Definition s_FS := Eval vm_compute in s2b "FS".
Definition s_reflect := Eval vm_compute in s2b "reflect".
Definition s_Method := Eval vm_compute in s2b "Method".
Definition s_MethodByName := Eval vm_compute in s2b "MethodByName".
Definition s_pkix := Eval vm_compute in s2b "crypto/x509/pkix".
Definition s_SET := Eval vm_compute in s2b "SET".
Definition s_init := Eval vm_compute in s2b "init".
Definition s_TestMain := Eval vm_compute in s2b "TestMain".
Definition s_Test := Eval vm_compute in s2b "Test".

Definition special_keep (path name : str) : bool :=
  ((beq path s_sync_atomic || beq path s_rt_atomic) && beq name s_align64) ||
  (beq path s_embed && beq name s_FS) ||
  (beq path s_reflect && (beq name s_Method || beq name s_MethodByName)) ||
  (beq path s_pkix && ends_with s_SET name).

Fixpoint intrinsic (tbl : list (str * list str)) (path name : str) : bool :=
  match tbl with
  | [] => false
  | (p, ns) :: r => if beq p path then mem name ns else intrinsic r path name
  end.

Definition decide (intr : list (str * list str)) (to_obf : str -> bool) (d : objd) : decision :=
  if o_universe d then Keep
  else if special_keep (o_pkg d) (o_name d) then Keep
  else if negb (to_obf (o_pkg d)) then Keep
  else match o_kind d with
       | KField => HashStruct
       | KVar | KType => HashPkg
       | KFunc | KMethod =>
           if intrinsic intr (o_pkg d) (o_name d) then Keep
           else if o_exported d && (match o_kind d with KMethod => true | _ => false end) then Keep
           else if beq (o_name d) s_main || beq (o_name d) s_init || beq (o_name d) s_TestMain then Keep
           else if is_prefix s_Test (o_name d) && o_test_sig d then Keep
           else HashPkg
       | _ => Keep
       end.

(* ---- abstract lexical resolution: a chain of scopes, innermost first; each binding carries the
        declared name and the object *)
Section Resolve.
  Variable obj : Type.
  Definition scope := list (str * obj).
  Fixpoint lookup (s : scope) (n : str) : option obj :=
    match s with [] => None | (m, o) :: r => if beq n m then Some o else lookup r n end.
  Fixpoint resolve (chain : list scope) (n : str) : option obj :=
    match chain with
    | [] => None
    | s :: r => match lookup s n with Some o => Some o | None => resolve r n end
    end.
  (* renaming: every binding gets the new name of its object *)
  Variable rn : obj -> str.
  Definition rename_scope (s : scope) : scope := map (fun b => (rn (snd b), snd b)) s.
  Definition rename_chain (c : list scope) : list scope := map rename_scope c.
  Definition bindings (c : list scope) : list (str * obj) := concat c.
  (* the new names separate exactly what the old names separated, among the visible bindings *)
  Definition no_clash (c : list scope) : Prop :=
    forall n1 o1 n2 o2, In (n1, o1) (bindings c) -> In (n2, o2) (bindings c) -> (rn o1 = rn o2 <-> n1 = n2).

  (* method sets as name lists: T implements I iff every method name of I is a method name of T *)
  Definition implements (t i : list str) : bool := forallb (fun m => mem m t) i.
End Resolve.
Arguments lookup {obj}. Arguments resolve {obj}. Arguments rename_scope {obj}. Arguments rename_chain {obj}.
Arguments bindings {obj}. Arguments no_clash {obj}.

(* transformGoFile's identifier visitor: the blank identifier is never touched; every other
   identifier gets its object's decision *)
Definition s_blank : str := [95].
Definition ident_decision (intr : list (str * list str)) (to_obf : str -> bool) (d : objd) : decision :=
  if beq (o_name d) s_blank then Keep else decide intr to_obf d.
