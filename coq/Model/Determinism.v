(* Emission in sorted key order (how garble makes map contents deterministic: slices.Sorted over
   the keys) and the site inventory classes.  Definitions only. *)
From Verif Require Import Base.Bytes.
Open Scope N_scope.

Fixpoint ins (x : N) (l : list N) : list N :=
  match l with
  | [] => [x]
  | y :: r => if x <=? y then x :: l else y :: ins x r
  end.
Fixpoint isort (l : list N) : list N := match l with [] => [] | x :: r => ins x (isort r) end.

(* what is emitted for a map: its keys in sorted order, each with its value *)
Definition emit_sorted (m : list (N * N)) : list N := isort (map fst m).

(* site classes of the inventory *)
Definition safe_class (c : str) (safe : list str) : bool := existsb (beq c) safe.
