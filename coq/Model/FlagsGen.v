(* The flag model instantiated with the tables regenerated from /repo (definitions only, so that
   the model still evaluates when an obligation over the tables no longer proves). *)
From Coq Require Import String.
From Verif Require Import Base.Bytes Model.Flags.
From Verif Require Gen.FlagTables.
Open Scope N_scope.

Definition go_defs : list (str * bool) :=
  map (fun d => match d with (n, b, _, _) => (n, b) end) Gen.FlagTables.go_flags.
Definition bools := Gen.FlagTables.boolean_flags.
Definition fwd := Gen.FlagTables.forward_build_flags.

Definition not_forwarded_ok : list str := Eval vm_compute in
  map s2b ["a"; "n"; "x"; "v"; "json"; "trimpath"; "toolexec"; "buildvcs"]%string.
Definition forward_table_ok : bool :=
  forallb (fun d => match d with (n, _, build, test) =>
     (if build && negb (mem n not_forwarded_ok) then assoc (DASH :: n) fwd else true) &&
     (if negb build then negb (assoc (DASH :: n) fwd) else true) end) Gen.FlagTables.go_flags.
