(* //go:linkname rewriting (transformer.go: transformLinkname, directiveLocalName) and the -X
   duplication of transformLink, as functions of an abstract package table.  Definitions only. *)
From Coq Require Import String.
From Verif Require Import Base.Bytes Model.Flags Model.Names Model.Scope Model.Rename.
Open Scope N_scope.

Definition DOT : N := 46.

Inductive lookup_result := Found (to_obf : bool) | NotFound | NotDependency.

Section L.
  Variable lookup_pkg : str -> lookup_result.       (* listPackage(curPkg, path) *)
  Variable hname : str -> str -> str.               (* hashWithPackage(pkg at path, name) *)
  Variable ipath : str -> str.                      (* lpkg.obfuscatedImportPath() *)
  Variable intr : list (str * list str).
  Variable cur_path : str.
  Variable cur_obf : bool.
  Variable exported : str -> bool.                  (* token.IsExported *)

  Definition directive_local_name (local : str) : str :=
    if cur_obf && negb (intrinsic intr cur_path local) then hname cur_path local else local.

  Definition s_main_main := Eval vm_compute in s2b "main.main".
  Definition s_main_inittask := Eval vm_compute in s2b "main..inittask".
  Definition s_runtime_inittask := Eval vm_compute in s2b "runtime..inittask".
  Definition s_under_test := Eval vm_compute in s2b "_test".
  Definition s_paren_star := Eval vm_compute in s2b "(*".

  (* split s at the first DOT: (before, after) *)
  Fixpoint cut_dot (s : str) : option (str * str) :=
    match s with
    | [] => None
    | c :: r => if c =? DOT then Some ([], r)
                else match cut_dot r with Some (a, b) => Some (c :: a, b) | None => None end
    end.

  Definition strip_last_paren (s : str) : str :=   (* strings.CutSuffix(receiver, ")") *)
    match rev s with 41 :: r => rev r | _ => s end.

  (* scan the dots of newName from the left; [pre] is newName[:pkgSplit] so far (without its dot) *)
  Fixpoint find_pkg (fuel : nat) (pre rest : str) : option (str * str * bool) + bool :=
    (* inl (Some (path, foreign, to_obf)) found; inl None: unchanged (no prefix / not a dependency) *)
    match fuel with
    | O => inr false
    | S f =>
        match cut_dot rest with
        | None => inl None
        | Some (a, b) =>
            let path := pre ++ a in
            if ends_with s_under_test path then find_pkg f (path ++ [DOT]) b
            else match lookup_pkg path with
                 | Found t => inl (Some (path, b, t))
                 | NotFound => find_pkg f (path ++ [DOT]) b
                 | NotDependency => inl None
                 end
        end
    end.

  Definition rewrite_foreign (path foreign : str) : str :=
    match cut_dot foreign with
    | Some (recv, name) =>
        let recv' := match strip_prefix s_paren_star recv with
                     | Some r => s_paren_star ++ hname path (strip_last_paren r) ++ [41]
                     | None => hname path recv
                     end in
        let name' := if exported name then name else hname path name in
        recv' ++ [DOT] ++ name'
    | None => hname path foreign
    end.

  Definition linkname_rewrite (local new : str) : str * str :=
    let local' := directive_local_name local in
    match new with
    | [] => (local', [])
    | _ =>
        if negb (existsb (N.eqb DOT) new) then (local', new)
        else if beq new s_main_main || beq new s_main_inittask || beq new s_runtime_inittask then (local', new)
        else match find_pkg (S (length new)) [] new with
             | inl (Some (path, foreign, t)) =>
                 if negb t || intrinsic intr path foreign then (local', new)
                 else (local', ipath path ++ [DOT] ++ rewrite_foreign path foreign)
             | _ => (local', new)
             end
    end.
End L.
