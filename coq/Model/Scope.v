(* GOGARBLE scope (cache_shared.go: the ToObfuscate decision in appendListedPackages,
   obfuscatedImportPath / obfuscatedPackageName, the "matches nothing" error) and
   golang.org/x/mod/module.MatchPrefixPatterns with path.Match for the fragment of patterns
   built from literal bytes, '*' and '?' (no '[' classes, no '\' escapes).  Definitions only. *)
From Coq Require Import String.
From Verif Require Import Base.Bytes Model.Flags Model.Names.
Open Scope N_scope.

Definition STAR : N := 42.
Definition QUESTION : N := 63.
Definition SLASH : N := 47.
Definition COMMA : N := 44.
Definition LBRACKET : N := 91.
Definition BACKSLASH : N := 92.

(* path.Match on the simple fragment: '*' any run of non-'/' bytes, '?' one non-'/' byte.
   (For non-ASCII text '?' consumes one rune in Go; the generators keep '?' away from
   multi-byte runes and the theorems are about bytes.) *)
Fixpoint glob (p : str) : str -> bool :=
  match p with
  | [] => fun s => match s with [] => true | _ => false end
  | c :: p' =>
      if c =? STAR then
        (fix star (s : str) : bool :=
           glob p' s || match s with x :: s' => negb (x =? SLASH) && star s' | [] => false end)
      else if c =? QUESTION then
        fun s => match s with x :: s' => negb (x =? SLASH) && glob p' s' | [] => false end
      else
        fun s => match s with x :: s' => (x =? c) && glob p' s' | [] => false end
  end.

Definition simple_pattern (p : str) : bool :=
  forallb (fun c => negb (c =? LBRACKET) && negb (c =? BACKSLASH)) p.

Definition count_slash (s : str) : nat := length (filter (N.eqb SLASH) s).

(* the first n+1 path elements of target (cut just before the (n+1)-th slash), or None when the
   target has fewer than n slashes... MatchPrefixPatterns: "if n > 0 continue" *)
Fixpoint cut_elems (n : nat) (t : str) : option str :=
  match t with
  | [] => match n with O => Some [] | S _ => None end
  | c :: t' =>
      if c =? SLASH then
        match n with
        | O => Some []
        | S n' => match cut_elems n' t' with Some r => Some (c :: r) | None => None end
        end
      else match cut_elems n t' with Some r => Some (c :: r) | None => None end
  end.

Fixpoint split_comma (s : str) (cur : str) : list str :=
  match s with
  | [] => [rev cur]
  | c :: s' => if c =? COMMA then rev cur :: split_comma s' [] else split_comma s' (c :: cur)
  end.

Definition match_one (g target : str) : bool :=
  match g with
  | [] => false
  | _ => match cut_elems (count_slash g) target with
         | Some prefix => glob g prefix
         | None => false
         end
  end.

Definition match_prefix_patterns (globs target : str) : bool :=
  existsb (fun g => match_one g target) (split_comma globs []).

(* ---- the package record as far as the decision reads it *)
Record pkg := {
  p_import_path : str;
  p_for_test : str;
  p_name : str;
  p_nfiles : nat;      (* len(CompiledGoFiles) *)
  p_action_id : bytes  (* action-ID half of BuildID, 15 bytes; [] when BuildID is empty *)
}.

Definition decision_path (p : pkg) : str :=
  match p_for_test p with [] => p_import_path p | ft => ft end.

Definition s_runtime_cgo := Eval vm_compute in s2b "runtime/cgo".
Definition s_fips := Eval vm_compute in s2b "crypto/internal/fips140".
Definition s_fips_slash := Eval vm_compute in s2b "crypto/internal/fips140/".
Definition s_main := Eval vm_compute in s2b "main".
Definition s_dot_test := Eval vm_compute in s2b ".test".
Definition s_cla := Eval vm_compute in s2b "command-line-arguments".
Definition s_plugin_unnamed := Eval vm_compute in s2b "plugin/unnamed".
Definition s_runtime := Eval vm_compute in s2b "runtime".

Fixpoint ends_with (suf s : str) : bool :=
  beq suf s || match s with [] => false | _ :: r => ends_with suf r end.

Definition never_obfuscated (runtime_and_deps : list str) (path : str) : bool :=
  mem path runtime_and_deps || beq path s_runtime_cgo || beq path s_fips || is_prefix s_fips_slash path.

Definition always_obfuscated (p : pkg) (path : str) : bool :=
  (beq (p_name p) s_main && ends_with s_dot_test path) || beq path s_cla || is_prefix s_plugin_unnamed path.

Definition to_obfuscate (runtime_and_deps : list str) (gogarble : str) (p : pkg) : bool :=
  let path := decision_path p in
  if never_obfuscated runtime_and_deps path then false
  else if Nat.eqb (p_nfiles p) 0 then false
  else always_obfuscated p path || match_prefix_patterns gogarble path.

(* the error of the top-level build *)
Definition matches_nothing_error (rad : list str) (gogarble : str) (pkgs : list pkg) : bool :=
  negb (existsb (to_obfuscate rad gogarble) pkgs) && negb (match_prefix_patterns gogarble s_runtime).

(* obfuscatedImportPath / obfuscatedPackageName: [keep_paths] = the import paths that are never
   rewritten (runtime, reflect, embed, the syscall ABI packages, compilerIntrinsics keys,
   runtimeAndLinknamed) *)
Definition obf_import_path (rad keep_paths : list str) (c : gcfg) (p : pkg) : str :=
  if beq (p_name p) s_main && match p_for_test p with [] => true | _ => false end then s_main
  else if negb (to_obfuscate rad (c_gogarble c) p) then p_import_path p
  else if mem (p_import_path p) keep_paths then p_import_path p
  else hash_with_package c (p_import_path p) (p_action_id p) (p_import_path p) false false.

Definition obf_pkg_name (rad : list str) (c : gcfg) (p : pkg) (name_exported : bool) : str :=
  if beq (p_name p) s_main || negb (to_obfuscate rad (c_gogarble c) p) then p_name p
  else hash_with_package c (p_import_path p) (p_action_id p) (p_name p) true name_exported.
